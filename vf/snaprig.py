"""Common runner for the snapshot-content properties (C02, C05, C06, C07): one generated frame, one hit."""
import os
import shutil
import tempfile
import threading

from vf import hostframe, snapcheck
from vf.rig import Rig, MonitorError


_thread_counter = [0]


class Workdir:
    def __init__(self, tag='vf'):
        self.path = os.path.realpath(tempfile.mkdtemp(prefix='%s_' % tag))

    def close(self):
        shutil.rmtree(self.path, ignore_errors=True)


def app_rule_for(app_root, includes, excludes):
    """Independent statement of the classification rule (C19/C02): exclusion wins, then include, then app root."""
    def rule(filename):
        ex = [p for p in excludes if filename.startswith(p)]
        if ex:
            return False, {filename[len(p):] for p in ex}
        inc = [p for p in includes if filename.startswith(p)]
        if inc:
            return True, {filename[len(p):] for p in inc}
        if app_root is not None and filename.startswith(app_root):
            return True, {filename[len(app_root):]}
        return False, {filename}
    return rule


class FrameCase:
    """Runs host.entry(*values) in a fresh thread under the agent and calls on_hit at the marked line."""

    def __init__(self, workdir, names, values, depth=1, method=False, caller_locals=False, custom=None,
                 plugins=(), tag='', kind=None):
        self.workdir = workdir
        self.names, self.values = names, values
        self.path = hostframe.write_host(workdir, names, depth=depth, method=method, caller_locals=caller_locals,
                                         tag=tag, kind=None if method else kind)
        self.base = os.path.basename(self.path)
        self.mod = hostframe.load(self.path)
        self.line = hostframe.markers(self.path)['hit_m' if method else 'hit']
        self.rig = Rig(custom=custom, plugins=plugins, host_dir=workdir)
        self.hits = 0
        self.thread_exc = None
        self.result = None

    def run(self, triggers, on_hit, timeout=60):
        rig = self.rig
        rig.install(triggers)
        seen = [0]

        def post(ev, frame, arg):
            if ev.kind == 'line' and ev.line == self.line and ev.base == self.base:
                self.hits += 1
                new = rig.push.pushed[seen[0]:]
                seen[0] = len(rig.push.pushed)
                try:
                    on_hit(ev, frame, snapcheck.read_stack(frame), new)
                except BaseException:  # noqa - a failure of the monitor itself: never a verdict, never silent
                    import traceback
                    self.monitor_error = traceback.format_exc()[-1500:]

        rig.post = post

        def body():
            try:
                self.result = self.mod.entry(*self.values)
            except BaseException as e:  # noqa
                self.thread_exc = e

        def go():
            _thread_counter[0] += 1
            self.thread_name = 'vf-host-%d' % _thread_counter[0]   # thread ids get reused, names here never are
            t = threading.Thread(target=body, name=self.thread_name)
            t.start()
            t.join(timeout)
            return t.is_alive()

        hung, exc = rig.run(go)
        rig.cleanup()
        if getattr(self, 'monitor_error', None):
            raise MonitorError(self.monitor_error)
        return bool(hung), exc
