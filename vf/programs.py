"""Seeded host-program generator: hand-written shapes with seeded parameters, composed into main(log).

A program is deterministic and does not observe addresses, time, the recursion limit or the trace function, so its
canonical outcome (return value, exception, log, module state) must be identical with and without the agent.
Thread shapes write only to their own log, so the outcome is schedule-independent.
"""
import importlib.util
import os
import re

PRELUDE = '''"""generated host program"""
import asyncio
import concurrent.futures
import threading
import weakref

STATE = {"calls": 0, "items": []}
MODULE_FLAG = "flag-@SEED@"


class HostError(Exception):
    pass


class Boom(Exception):
    pass


def tally(x):
    STATE["calls"] += 1
    return x

'''

# Each shape: (name, source with @I@ = instance index and @A@/@B@ = small ints, call expression)
SHAPES = [
    ('straight', '''
def straight_@I@(a, b):
    x = a + b
    y = x * 2 - a
    s = "v%d" % y
    z = [x, y, s]
    return z
''', 'straight_@I@(@A@, @B@)'),
    ('loop_sum', '''
def loop_sum_@I@(n):
    total = 0
    seen = []
    for i in range(n):
        total += i * @A@
        if i % 2 == 0:
            seen.append(i)
    return total, seen
''', 'loop_sum_@I@(@B@ + 2)'),
    ('while_break', '''
def while_break_@I@(limit):
    i = 0
    out = []
    while True:
        i += 1
        if i % 3 == 0:
            continue
        out.append(i)
        if i >= limit:
            break
    return out
''', 'while_break_@I@(@A@ + 3)'),
    ('nested_calls', '''
def inner_@I@(v):
    w = v + 1
    return w * 2


def middle_@I@(v):
    r = inner_@I@(v) + inner_@I@(v + 1)
    return r


def outer_@I@(v):
    acc = []
    for k in range(2):
        acc.append(middle_@I@(v + k))
    return acc
''', 'outer_@I@(@A@)'),
    ('recursion', '''
def fact_@I@(n):
    if n <= 1:
        return 1
    sub = fact_@I@(n - 1)
    return n * sub
''', 'fact_@I@(@A@ + 2)'),
    ('mutual', '''
def is_even_@I@(n):
    if n == 0:
        return True
    return is_odd_@I@(n - 1)


def is_odd_@I@(n):
    if n == 0:
        return False
    return is_even_@I@(n - 1)
''', 'is_even_@I@(@A@ + 1)'),
    ('try_caught', '''
def risky_@I@(v):
    if v % 2 == 0:
        raise ValueError("even %d" % v)
    return v


def try_caught_@I@(n):
    got = []
    for i in range(n):
        try:
            got.append(risky_@I@(i))
        except ValueError as e:
            got.append(str(e))
    return got
''', 'try_caught_@I@(@A@ + 2)'),
    ('finally_reraise', '''
def cleanup_@I@(trail, v):
    try:
        trail.append("try")
        if v > 0:
            raise HostError("fail", v)
        trail.append("ok")
    except HostError:
        trail.append("except")
        raise
    finally:
        trail.append("finally")
    return "done"


def finally_reraise_@I@(v):
    trail = []
    try:
        res = cleanup_@I@(trail, v)
    except HostError as e:
        res = ("caught", e.args)
    return res, trail
''', 'finally_reraise_@I@(@A@ % 2)'),
    ('propagate', '''
def deep_raise_@I@(v):
    data = {"v": v}
    raise Boom("deep", v, data)


def pass_through_@I@(v):
    local_before = v * 3
    deep_raise_@I@(local_before)
    return "never"


def propagate_@I@(v):
    try:
        pass_through_@I@(v)
    except Boom as e:
        return type(e).__name__, e.args[1]
    return None
''', 'propagate_@I@(@A@)'),
    ('else_finally', '''
def else_finally_@I@(v):
    steps = []
    for k in range(3):
        try:
            steps.append("t%d" % k)
            if k == v % 3:
                raise KeyError(k)
        except KeyError as e:
            steps.append("e%s" % e.args[0])
        else:
            steps.append("else")
        finally:
            steps.append("f")
    return steps
''', 'else_finally_@I@(@A@)'),
    ('gen_full', '''
def gen_full_@I@(n):
    for i in range(n):
        doubled = i * 2
        yield doubled
    yield "end"


def use_gen_full_@I@(n):
    return list(gen_full_@I@(n))
''', 'use_gen_full_@I@(@A@ + 1)'),
    ('gen_partial', '''
def gen_partial_@I@():
    try:
        yield 1
        yield 2
        yield 3
    finally:
        STATE["items"].append("closed-@I@")


def use_gen_partial_@I@():
    g = gen_partial_@I@()
    a = next(g)
    b = next(g)
    g.close()
    return a, b
''', 'use_gen_partial_@I@()'),
    ('gen_send_throw', '''
def echo_@I@():
    got = []
    while True:
        try:
            v = yield len(got)
            got.append(v)
        except HostError as e:
            got.append("thrown:%s" % e.args[0])
        if len(got) >= 3:
            return got


def use_echo_@I@():
    g = echo_@I@()
    out = [next(g)]
    out.append(g.send("a"))
    out.append(g.throw(HostError("t")))
    try:
        g.send("z")
    except StopIteration as stop:
        out.append(stop.value)
    return out
''', 'use_echo_@I@()'),
    ('yield_from', '''
def leaf_gen_@I@(n):
    for i in range(n):
        yield "leaf%d" % i
    return "leaf-done"


def deleg_@I@(n):
    r = yield from leaf_gen_@I@(n)
    yield r


def use_deleg_@I@(n):
    return [x for x in deleg_@I@(n)]
''', 'use_deleg_@I@(@A@ + 1)'),
    ('comprehensions', '''
def comps_@I@(n):
    squares = [i * i for i in range(n)]
    evens = {i for i in squares if i % 2 == 0}
    table = {str(i): i + @B@ for i in range(n)}
    gen = sum(x for x in squares)
    nested = [[r * c for c in range(2)] for r in range(2)]
    return squares, sorted(evens), table, gen, nested
''', 'comps_@I@(@A@ + 1)'),
    ('custom_iter', '''
class Count_@I@:
    def __init__(self, n):
        self.n = n
        self.i = 0

    def __iter__(self):
        return self

    def __next__(self):
        if self.i >= self.n:
            raise StopIteration
        self.i += 1
        return self.i


def use_count_@I@(n):
    it = Count_@I@(n)
    first = next(it)
    rest = [v for v in it]
    return first, rest, it.i
''', 'use_count_@I@(@A@ + 2)'),
    ('iter_remainder', '''
def iter_remainder_@I@():
    it = iter([1, 2, 3, 4, 5])
    a = next(it)
    rev = reversed(["x", "y", "z"])
    b = next(rev)
    mid = (a, b)
    return mid, list(it), list(rev)
''', 'iter_remainder_@I@()'),
    ('with_cm', '''
class Guard_@I@:
    def __init__(self, trail, swallow):
        self.trail = trail
        self.swallow = swallow

    def __enter__(self):
        self.trail.append("enter")
        return self

    def __exit__(self, et, ev, tb):
        self.trail.append("exit:%s" % (et.__name__ if et else None))
        return self.swallow


def with_cm_@I@(v):
    trail = []
    with Guard_@I@(trail, True) as g:
        trail.append("body")
        if v % 2:
            raise HostError("in with")
        trail.append("after")
    return trail
''', 'with_cm_@I@(@A@)'),
    ('closure', '''
def make_counter_@I@(start):
    count = start

    def bump(by):
        nonlocal count
        count += by
        return count

    return bump


def closure_@I@():
    c = make_counter_@I@(@A@)
    vals = [c(1), c(2), c(@B@)]
    keyed = sorted(["bb", "a", "ccc"], key=lambda s: -len(s))
    return vals, keyed
''', 'closure_@I@()'),
    ('klass', '''
class Base_@I@:
    kind = "base"

    def __init__(self, name):
        self.name = name
        self._prot = 1
        self.__priv = [name]

    def describe(self):
        label = "%s:%s" % (self.kind, self.name)
        return label

    @property
    def size(self):
        return len(self.__priv)

    @staticmethod
    def util(v):
        return v + 1

    @classmethod
    def build(cls, n):
        return cls("n%d" % n)


class Derived_@I@(Base_@I@):
    kind = "derived"

    def __init__(self, name):
        super().__init__(name)
        self.extra = {"k": name}

    def describe(self):
        base = super().describe()
        return base + "!"


def klass_@I@(n):
    objs = [Base_@I@("b"), Derived_@I@.build(n)]
    return [o.describe() for o in objs], objs[1].size, Base_@I@.util(n)
''', 'klass_@I@(@A@)'),
    ('class_in_func', '''
def class_in_func_@I@(v):
    class Local:
        factor = v + 1

        def apply(self, x):
            return x * self.factor

    inst = Local()
    return inst.apply(3), Local.factor
''', 'class_in_func_@I@(@A@)'),
    ('hostile_locals', '''
class BadStr_@I@:
    def __init__(self):
        self.payload = "p"

    def __str__(self):
        raise Boom("no str")

    def __repr__(self):
        raise Boom("no repr")


class BadAttr_@I@:
    def __getattr__(self, item):
        raise Boom("no attr " + item)

    def __len__(self):
        raise Boom("no len")

    def __bool__(self):
        raise Boom("no bool")

    def __iter__(self):
        raise Boom("no iter")


class BadEq_@I@:
    def __eq__(self, other):
        raise Boom("no eq")

    def __hash__(self):
        raise Boom("no hash")


class ExitStr_@I@:
    def __str__(self):
        raise SystemExit(3)

    __repr__ = __str__


def hostile_locals_@I@(v):
    bad_str = BadStr_@I@()
    bad_attr = BadAttr_@I@()
    bad_eq = BadEq_@I@()
    exit_str = ExitStr_@I@()
    box = [bad_str, {"k": bad_attr}, (bad_eq,)]
    raw = b"\\xff\\x00bytes"
    marker = v + 1
    try:
        str(bad_str)
    except Boom as e:
        marker = e.args[0]
    return marker, len(box), raw[:2]
''', 'hostile_locals_@I@(@A@)'),
    ('threads', '''
def worker_@I@(idx, sink):
    acc = 0
    for i in range(idx + 2):
        acc += i * idx
        sink.append(acc)
    try:
        if idx % 2:
            raise HostError("worker", idx)
    except HostError as e:
        sink.append("caught%d" % e.args[1])
    return acc


def threads_@I@(n):
    sinks = [[] for _ in range(n)]
    ts = [threading.Thread(target=worker_@I@, args=(i, sinks[i])) for i in range(n)]
    for t in ts:
        t.start()
    for t in ts:
        t.join()
    return sinks
''', 'threads_@I@(@A@ % 3 + 1)'),
    ('args_kwargs', '''
def args_kwargs_@I@(first, *rest, key="k", **extra):
    merged = dict(extra)
    merged[key] = first
    count = len(rest)
    return merged, count, rest[-1] if rest else None


def call_args_@I@():
    return args_kwargs_@I@(1, 2, 3, key="z", other=@A@), args_kwargs_@I@("only")
''', 'call_args_@I@()'),
    ('decorator', '''
def logged_@I@(fn):
    def wrapper(*a):
        STATE["items"].append(fn.__name__)
        res = fn(*a)
        return ("wrapped", res)
    return wrapper


@logged_@I@
def decorated_@I@(v):
    return v * @B@
''', 'decorated_@I@(@A@)'),
    ('module_state', '''
def module_state_@I@(v):
    global MODULE_FLAG
    before = MODULE_FLAG
    MODULE_FLAG = "changed-%d" % v
    STATE["items"].append(("ms", v))
    tally(v)
    return before
''', 'module_state_@I@(@A@)'),
    ('big_data', '''
def big_data_@I@(n):
    wide = list(range(n * 40))
    deep = {"l": {"l": {"l": {"l": {"l": {"l": "bottom"}}}}}}
    text = "t" * (n * 700)
    pairs = {i: str(i) for i in range(n * 15)}
    self_ref = []
    self_ref.append(self_ref)
    total = sum(wide)
    return total, len(text), len(pairs), len(self_ref)
''', 'big_data_@I@(@A@ % 3 + 1)'),
    ('string_ops', '''
def string_ops_@I@(v):
    words = ["alpha", "beta", "gamma-%d" % v]
    joined = "-".join(w.upper() for w in words)
    fmt = "{}|{:>4}|{!r}".format(v, v * 2, words[0])
    uni = "snow\\u2603-%d" % v
    parts = joined.split("-")
    return joined, fmt, uni, parts[::2]
''', 'string_ops_@I@(@A@)'),
    ('del_unbound', '''
def del_unbound_@I@(v):
    temp = [v]
    alias = temp
    del temp
    try:
        temp
    except UnboundLocalError:
        state = "unbound"
    else:
        state = "bound"
    return state, alias
''', 'del_unbound_@I@(@A@)'),
    ('exception_chain', '''
def exception_chain_@I@(v):
    try:
        try:
            {}["missing-%d" % v]
        except KeyError as inner:
            raise HostError("outer") from inner
    except HostError as e:
        return type(e.__cause__).__name__, e.args
''', 'exception_chain_@I@(@A@)'),
    ('uncaught_in_gen', '''
def failing_gen_@I@(n):
    yield n
    raise Boom("gen failed", n)


def uncaught_in_gen_@I@(n):
    g = failing_gen_@I@(n)
    got = [next(g)]
    try:
        next(g)
    except Boom as e:
        got.append(e.args)
    try:
        next(g)
    except StopIteration:
        got.append("exhausted")
    return got
''', 'uncaught_in_gen_@I@(@A@)'),
    ('finalizers', '''
class Tracked_@I@:
    def __init__(self, tag, sink):
        self.tag = tag
        self.sink = sink

    def __del__(self):
        self.sink.append("del-" + self.tag)


def scope_@I@(v, sink):
    held = Tracked_@I@("a%d" % v, sink)
    ref = weakref.ref(held)
    label = held.tag
    pair = [held, label]
    return ref


def fill_@I@(registry, sink):
    temp = Tracked_@I@("b", sink)
    registry["k"] = temp
    inside = len(registry)
    return inside


def finalizers_@I@(v):
    sink = []
    ref = scope_@I@(v, sink)
    alive = ref() is not None
    registry = weakref.WeakValueDictionary()
    inside = fill_@I@(registry, sink)
    return list(sink), alive, inside, len(registry)
''', 'finalizers_@I@(@A@)'),
    ('lockstep', '''
def ls_turn_@I@(ctl, me):
    cv, turns, pos = ctl
    with cv:
        while pos[0] < len(turns) and turns[pos[0]] != me:
            if not cv.wait(2.0):
                break
        pos[0] += 1
        cv.notify_all()


def ls_inner_@I@(ctl, me, n):
    ls_turn_@I@(ctl, me)
    return n * 2 + me


def ls_job_@I@(ctl, me, n):
    ls_turn_@I@(ctl, me)
    first = ls_inner_@I@(ctl, me, n)
    ls_turn_@I@(ctl, me)
    second = ls_inner_@I@(ctl, me, n + 1)
    ls_turn_@I@(ctl, me)
    if (me + n) % 3 == 0:
        raise HostError("job", me, n)
    return first + second


def ls_worker_@I@(ctl, me, sink):
    for n in range(@B@):
        try:
            sink.append(ls_job_@I@(ctl, me, n))
        except HostError as e:
            sink.append("failed%d" % e.args[2])
    return len(sink)


def lockstep_@I@(seed):
    count = 2 + seed % 2
    left = [5 * @B@] * count
    turns = []
    x = seed * 7 + 3
    while any(left):
        x = (x * 1103515245 + 12345) % 2147483648
        i = (x >> 8) % count
        if left[i]:
            left[i] -= 1
            turns.append(i)
    ctl = (threading.Condition(), turns, [0])
    sinks = [[] for _ in range(count)]
    ts = [threading.Thread(target=ls_worker_@I@, args=(ctl, i, sinks[i])) for i in range(count)]
    for t in ts:
        t.start()
    for t in ts:
        t.join()
    return sinks
''', 'lockstep_@I@(@A@ + 10 * @B@)'),
    ('tb_use', '''
def tb_deep_@I@(v):
    if v >= 0:
        raise HostError("deep", v)
    return v


def tb_mid_@I@(v):
    return tb_deep_@I@(v) + 1


def tb_use_@I@(v):
    names = []
    try:
        tb_mid_@I@(v)
    except HostError as err:
        saved = err
        kept = [saved, "k"]
        tb = err.__traceback__
        while tb is not None:
            names.append(tb.tb_frame.f_code.co_name)
            tb = tb.tb_next
        count = len(names)
    return names, saved.args, saved.__traceback__ is not None
''', 'tb_use_@I@(@A@)'),
    ('same_name', '''
class Job_@I@:
    def run_@I@(self, v):
        inner = Parser_@I@().run_@I@(v)
        tail = inner + "-job"
        return "job-done-" + tail


class Parser_@I@:
    def run_@I@(self, v):
        text = "parsed-%d" % v
        return text


def same_name_@I@(v):
    return Job_@I@().run_@I@(v)
''', 'same_name_@I@(@A@)'),
    ('kept_error', '''
class Outcome_@I@:
    """Keeps the error of a piece of work for whoever asks for the result later (as a future does)."""

    def __init__(self):
        self.error = None
        self.value = None

    def result(self):
        if self.error is not None:
            raise self.error
        return self.value


def kept_work_@I@(v):
    raise HostError("work failed", v)


def kept_error_@I@(v):
    outcome = Outcome_@I@()
    try:
        kept_work_@I@(v)
    except HostError as err:
        outcome.error = err
    seen = outcome.error is not None
    waited = [seen, v]
    names = []
    tb = outcome.error.__traceback__
    while tb is not None:
        names.append(tb.tb_frame.f_code.co_name)
        tb = tb.tb_next
    return seen, names, waited
''', 'kept_error_@I@(@A@)'),
    ('prng', '''
def prng_@I@(seed):
    import random
    random.seed(seed)
    first = random.random()
    picks = [random.randint(0, 99) for _ in range(3)]
    deck = list(range(6))
    random.shuffle(deck)
    last = random.random()
    return first, picks, deck, last
''', 'prng_@I@(@A@ + 7)'),
    ('thread_census', '''
def census_worker_@I@(sink, v):
    sink.append(v * 2)


def thread_census_@I@(v):
    before = set(threading.enumerate())
    sink = []
    ts = [threading.Thread(target=census_worker_@I@, args=(sink, v + i)) for i in range(2)]
    for t in ts:
        t.start()
    for t in ts:
        t.join()
    extra = sorted(type(t).__name__ for t in threading.enumerate() if t not in before)
    return sorted(sink), extra
''', 'thread_census_@I@(@A@)'),
    ('locals_keeper', '''
def keeper_@I@(v):  # nt
    first = v + 1  # nt
    seen = locals()  # nt
    second = first * 2  # nt
    third = [second]  # nt
    return sorted(seen), len(seen), third  # nt
''', 'keeper_@I@(@A@)'),
    ('gc_off', '''
def gc_off_@I@(v):
    import gc
    was = gc.isenabled()
    gc.disable()
    try:
        data = [[i, str(i)] for i in range(v + 3)]
        total = len(data)
        still_off = not gc.isenabled()
    finally:
        if was:
            gc.enable()
    return total, still_off
''', 'gc_off_@I@(@A@)'),
    ('slots_and_dict', '''
class SlotBase_@I@:
    __slots__ = ("kept",)


class SlotSub_@I@(SlotBase_@I@):
    pass


def slots_and_dict_@I@(v):
    item = SlotSub_@I@()
    item.kept = v
    item.extra = "x"
    names = sorted(vars(item))
    again = sorted(item.__dict__)
    return names, again, item.kept
''', 'slots_and_dict_@I@(@A@)'),
    ('warn_once', '''
def warn_once_@I@(v):
    import warnings
    shown = []
    original = warnings.showwarning
    warnings.showwarning = lambda message, *rest, **kw: shown.append(str(message))
    try:
        for i in range(3):
            warnings.warn("old call %d" % v, UserWarning)
            marker = i
    finally:
        warnings.showwarning = original
    return len(shown)
''', 'warn_once_@I@(@A@)'),
    ('method_exc', '''
class Acct_@I@:
    def __init__(self, bal):
        self.bal = bal

    def draw(self, amt):
        if amt > self.bal:
            raise HostError("insufficient", self.bal, amt)
        self.bal -= amt
        return self.bal


def method_exc_@I@(v):
    a = Acct_@I@(5)
    out = []
    for amt in (1, v + 3, 2):
        try:
            out.append(a.draw(amt))
        except HostError as e:
            out.append(e.args[0])
    return out, a.bal
''', 'method_exc_@I@(@A@)'),
    ('coro_manual', '''
class Ready_@I@:
    def __init__(self, v):
        self.v = v

    def __await__(self):
        got = yield ("want", self.v)
        return got


async def co_leaf_@I@(v):
    first = await Ready_@I@(v)
    second = await Ready_@I@(first + 1)
    return first + second


async def co_top_@I@(v):
    trail = []
    try:
        total = await co_leaf_@I@(v)
        trail.append(total)
        if total % 2:
            raise HostError("odd", total)
    except HostError as e:
        trail.append("caught:%s" % (e.args,))
    finally:
        trail.append("fin")
    return trail


def drive_coro_@I@(v):
    c = co_top_@I@(v)
    seen = []
    reply = None
    try:
        while True:
            want = c.send(reply)
            seen.append(want)
            reply = want[1] * 2 + @B@
    except StopIteration as stop:
        seen.append(stop.value)
    abandoned = co_leaf_@I@(v)
    seen.append(abandoned.send(None))
    abandoned.close()
    thrown = co_leaf_@I@(v)
    thrown.send(None)
    try:
        thrown.throw(Boom("into coroutine"))
    except Boom as e:
        seen.append("boom:%s" % e.args[0])
    return seen
''', 'drive_coro_@I@(@A@)'),
    ('asyncio_tasks', '''
class AGuard_@I@:
    def __init__(self, trail):
        self.trail = trail

    async def __aenter__(self):
        await asyncio.sleep(0)
        self.trail.append("enter")
        return self

    async def __aexit__(self, et, ev, tb):
        self.trail.append("exit:%s" % (et.__name__ if et else None))
        return et is HostError


async def aticks_@I@(n):
    try:
        for i in range(n):
            await asyncio.sleep(0)
            yield i * 3
    finally:
        STATE["items"].append("aticks-closed-@I@")


async def aworker_@I@(name, n, trail):
    total = 0
    async for t in aticks_@I@(n):
        total += t
        trail.append((name, t))
        if t >= 6:
            break
    return name, total


async def asleeper_@I@(trail):
    try:
        await asyncio.sleep(3600)
    except asyncio.CancelledError:
        trail.append("cancelled")
        raise


async def afail_@I@(v):
    await asyncio.sleep(0)
    raise Boom("task failed", v)


async def amain_@I@(n):
    trail = []
    res = None
    async with AGuard_@I@(trail):
        sleeper = asyncio.ensure_future(asleeper_@I@(trail))
        res = await asyncio.gather(aworker_@I@("a", n, trail), aworker_@I@("b", n + 2, trail),
                                   afail_@I@(n), return_exceptions=True)
        sleeper.cancel()
        try:
            await sleeper
        except asyncio.CancelledError:
            trail.append("joined")
        raise HostError("swallowed by the guard")
    return trail, [x if not isinstance(x, BaseException) else (type(x).__name__, x.args) for x in res]


def use_asyncio_@I@(n):
    return asyncio.run(amain_@I@(n))
''', 'use_asyncio_@I@(@A@ + 1)'),
    ('pool_map', '''
def pool_job_@I@(v):
    doubled = v * 2
    if v == @B@:
        raise HostError("job failed", v)
    return doubled + 1


def pool_done_@I@(fut, sink):
    err = fut.exception()
    sink.append(("done", type(err).__name__ if err else fut.result()))


def pool_map_@I@(n):
    sink = []
    with concurrent.futures.ThreadPoolExecutor(max_workers=2) as ex:
        futs = [ex.submit(pool_job_@I@, i) for i in range(n + 2)]
        for f in futs:
            f.add_done_callback(lambda fut: pool_done_@I@(fut, sink))
        outs = []
        for f in futs:
            try:
                outs.append(f.result())
            except HostError as e:
                outs.append(("failed", e.args))
    return outs, sorted(sink, key=repr)
''', 'pool_map_@I@(@A@)'),
]
SHAPE_NAMES = [s[0] for s in SHAPES]
# shapes that are only used when a check asks for them by name (too heavy for every program)
EXTRA_SHAPES = [
    ('deep_recursion', '''
def deep_rec_@I@(n):
    if n <= 0:
        return 0
    below = deep_rec_@I@(n - 1)
    return below + 1
''', 'deep_rec_@I@(520 + @A@ * 20)'),
]


class Program:
    def __init__(self, path, shapes, calls, escaping):
        self.path = path
        self.base = os.path.basename(path)
        self.shapes = shapes
        self.calls = calls
        self.escaping = escaping
        self.lines = []       # executable-looking line numbers (for tracepoint placement)
        self.func_lines = {}  # function name -> def line
        self.src = None


def generate(r, dirpath, tag, n_shapes=None, force=None, escaping=None):
    """Write one program; returns Program. `force` = list of shape names that must be included."""
    n = n_shapes or r.randrange(2, 7)
    picks = list(force or [])
    while len(picks) < n:
        picks.append(r.pick(SHAPE_NAMES))
    r.shuffle(picks)
    src = [PRELUDE.replace('@SEED@', str(r.randrange(1000)))]
    calls = []
    table = {s[0]: s for s in SHAPES + EXTRA_SHAPES}
    for i, name in enumerate(picks):
        _, body, call = table[name]
        a, b = r.randrange(0, 5), r.randrange(1, 5)
        rep = lambda t: t.replace('@I@', str(i)).replace('@A@', str(a)).replace('@B@', str(b))  # noqa
        src.append(rep(body))
        calls.append(rep(call))
    esc = r.chance(0.25) if escaping is None else escaping
    main = ['', '', 'def main(log):']
    order = list(range(len(calls)))
    r.shuffle(order)
    for k in order:
        main.append('    log.append(%s)' % calls[k])
    if r.chance(0.5):
        k = r.pick(order)
        main.append('    again = %s' % calls[k])
        main.append('    log.append(again)')
    if esc:
        main.append('    raise HostError("escapes main", len(log))')
    main.append('    return len(log), STATE["calls"]')
    src.append('\n'.join(main) + '\n')
    text = '\n'.join(src)
    path = os.path.join(dirpath, 'prog_%s.py' % tag)
    with open(path, 'w') as f:
        f.write(text)
    p = Program(path, picks, calls, esc)
    p.src = text
    for no, line in enumerate(text.split('\n'), 1):
        st = line.strip()
        m = re.match(r'\s*def (\w+)\(', line)
        if m:
            p.func_lines[m.group(1)] = no
        # (lines marked '# nt' get no tracepoint: reading a frame's locals there would itself be visible to the program)
        if st and not st.endswith('# nt') and not st.startswith(('#', '"""', "'''", '@', 'class ', 'def ', 'else:', 'try:',
                                                                  'finally:', 'except', 'global ', 'nonlocal ')) and no > 20:
            p.lines.append(no)
    return p


def load(path, name=None):
    name = name or ('vfprog_' + os.path.splitext(os.path.basename(path))[0])
    spec = importlib.util.spec_from_file_location(name, path)
    mod = importlib.util.module_from_spec(spec)
    spec.loader.exec_module(mod)
    return mod


def canon_value(v, depth=0):
    """Address-free canonical rendering of an outcome value."""
    if depth > 8:
        return '<deep>'
    if isinstance(v, (str, int, float, bool, type(None), bytes)):
        return repr(v)
    if isinstance(v, (list, tuple)):
        return [type(v).__name__] + [canon_value(x, depth + 1) for x in v]
    if isinstance(v, (set, frozenset)):
        return [type(v).__name__] + sorted(repr(canon_value(x, depth + 1)) for x in v)
    if isinstance(v, dict):
        return ['dict'] + [[canon_value(k, depth + 1), canon_value(x, depth + 1)] for k, x in v.items()]
    if isinstance(v, BaseException):
        return ['exc', type(v).__name__, canon_value(v.args, depth + 1)]
    return '<%s>' % type(v).__name__


def run_outcome(mod):
    """Run mod.main(log) and render the canonical outcome."""
    log = []
    res = exc = None
    try:
        res = mod.main(log)
    except BaseException as e:  # noqa
        exc = e
    # the whole module namespace belongs to the "final data": names that appear, disappear or change value
    names = {k: canon_value(v) for k, v in sorted(vars(mod).items()) if not k.startswith('__')}
    return {'result': canon_value(res), 'exception': canon_value(exc) if exc is not None else None,
            'log': canon_value(log), 'state': canon_value(getattr(mod, 'STATE', None)),
            'flag': canon_value(getattr(mod, 'MODULE_FLAG', None)), 'module_namespace': names}
