"""Switchable clock: rebinding time.time_ns (the module attribute deep.utils.time_ns reads at call time).

modes: real (default) | per-thread frozen (no time passes inside one trace event, so the agent's 100 ms
collection-time budget can never fire because of machine load) | global virtual (C04 histories).
"""
import threading
import time

_real_ns = time.time_ns
_tl = threading.local()
_virtual = [None]
reads = [0]


def time_ns():
    reads[0] += 1
    v = getattr(_tl, 'frozen', None)
    if v is not None:
        return v
    if _virtual[0] is not None:
        return _virtual[0]
    return _real_ns()


def install():
    if time.time_ns is not time_ns:
        time.time_ns = time_ns


def freeze():
    """Freeze for the calling thread at the current (virtual or real) time."""
    _tl.frozen = _virtual[0] if _virtual[0] is not None else _real_ns()


def bump(ns):
    """Let time pass for the calling thread although it is frozen (an object that is slow to print, say)."""
    v = getattr(_tl, 'frozen', None)
    if v is not None:
        _tl.frozen = v + ns
    elif _virtual[0] is not None:
        _virtual[0] += ns


def unfreeze():
    _tl.frozen = None


def set_virtual(ns):
    _virtual[0] = ns


def real_ns():
    return _real_ns()
