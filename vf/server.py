"""Rig E: in-process loopback gRPC server standing in for the DEEP service."""
import threading
import time
from concurrent import futures

import grpc
from deepproto.proto.poll.v1 import poll_pb2_grpc
from deepproto.proto.poll.v1.poll_pb2 import PollResponse, ResponseType
from deepproto.proto.tracepoint.v1 import tracepoint_pb2_grpc
from deepproto.proto.tracepoint.v1.tracepoint_pb2 import SnapshotResponse


class LoopbackServer(poll_pb2_grpc.PollConfigServicer, tracepoint_pb2_grpc.SnapshotServiceServicer):
    """Records every request (with metadata and serving time); poll answers are scripted.

    script entries (consumed one per poll; when empty the 'steady' answer is used):
      ('update', hash, [TracePointConfig...]) | ('nochange',) | ('error', grpc.StatusCode) |
      ('raw', PollResponse) | ('steady',)
    steady answer: UPDATE with (self.hash, self.tps) when request.current_hash != self.hash else NO_CHANGE.
    """

    def __init__(self):
        self.lock = threading.Condition()
        self.polls = []       # (request, metadata dict-list, t)
        self.snapshots = []   # (request, metadata, t)
        self.script = []
        self.hash = 'h0'
        self.tps = []
        self.fail_send = None  # None | grpc.StatusCode | callable(request)->StatusCode|None
        self.send_gate = None  # optional threading.Event the send handler waits on
        self.poll_delay = 0    # seconds every poll answer is delayed
        self.send_delay = 0    # seconds every successful send is held before it is recorded and answered
        self.polls_in_flight = 0
        self._server = grpc.server(futures.ThreadPoolExecutor(max_workers=8))
        poll_pb2_grpc.add_PollConfigServicer_to_server(self, self._server)
        tracepoint_pb2_grpc.add_SnapshotServiceServicer_to_server(self, self._server)
        self.port = self._server.add_insecure_port('127.0.0.1:0')
        self._server.start()

    # --- servicers -------------------------------------------------------
    def poll(self, request, context):
        md = [(k, v) for k, v in context.invocation_metadata()]
        with self.lock:
            self.polls.append((request, md, time.monotonic()))
            step = self.script.pop(0) if self.script else ('steady',)
            self.lock.notify_all()
        if self.poll_delay:
            with self.lock:
                self.polls_in_flight += 1
                self.lock.notify_all()
            time.sleep(self.poll_delay)
            with self.lock:
                self.polls_in_flight -= 1
        kind = step[0]
        if kind == 'error':
            context.abort(step[1], 'scripted failure')
        if kind == 'raw':
            return step[1]
        if kind == 'nochange':
            return PollResponse(ts_nanos=request.ts_nanos, current_hash=request.current_hash,
                                response_type=ResponseType.NO_CHANGE)
        if kind == 'update':
            with self.lock:
                self.hash, self.tps = step[1], list(step[2])
            return PollResponse(ts_nanos=request.ts_nanos, current_hash=step[1], response=step[2],
                                response_type=ResponseType.UPDATE)
        with self.lock:
            hsh, tps = self.hash, list(self.tps)
        if request.current_hash == hsh:
            return PollResponse(ts_nanos=request.ts_nanos, current_hash=hsh, response_type=ResponseType.NO_CHANGE)
        return PollResponse(ts_nanos=request.ts_nanos, current_hash=hsh, response=tps,
                            response_type=ResponseType.UPDATE)

    def send(self, request, context):
        md = [(k, v) for k, v in context.invocation_metadata()]
        gate = self.send_gate
        if gate is not None:
            gate.wait(20)
        fail = self.fail_send
        code = fail(request) if callable(fail) else fail
        if code is None and self.send_delay:
            time.sleep(self.send_delay)
        with self.lock:
            self.snapshots.append((request, md, time.monotonic(), code))
            self.lock.notify_all()
        if code is not None:
            context.abort(code, 'scripted send failure')
        return SnapshotResponse()

    # --- helpers -----------------------------------------------------------
    @property
    def url(self):
        return '127.0.0.1:%d' % self.port

    def config(self, custom=None):
        c = dict(custom or {})
        c.setdefault('SERVICE_URL', self.url)
        c.setdefault('SERVICE_SECURE', 'False')
        return c

    def set_config(self, hsh, tps):
        with self.lock:
            self.hash, self.tps = hsh, list(tps)

    def wait_polls(self, n, timeout=15):
        """Wait until at least n polls were served. Returns True/False (False = watchdog, inconclusive)."""
        end = time.monotonic() + timeout
        with self.lock:
            while len(self.polls) < n:
                left = end - time.monotonic()
                if left <= 0:
                    return False
                self.lock.wait(left)
        return True

    def wait_snapshots(self, n, timeout=15):
        end = time.monotonic() + timeout
        with self.lock:
            while len(self.snapshots) < n:
                left = end - time.monotonic()
                if left <= 0:
                    return False
                self.lock.wait(left)
        return True

    def stop(self):
        self._server.stop(0)
