"""Orchestrator: shards, merging, known findings, evidence, verdict lines.

Exit codes: 0 held on what was observed (possibly with KNOWN-FINDING lines),
1 violation (with VIOLATION lines), 2 inconclusive (INCONCLUSIVE lines, never a
VIOLATION line).
"""
import hashlib
import importlib
import json
import os
import subprocess
import sys
import tempfile
import time

VERIF = os.path.dirname(os.path.dirname(os.path.abspath(__file__)))
REPO = os.environ.get('VERIF_REPO', '/repo')
PY = os.environ.get('VERIF_PY', '/venv/bin/python')
NCPU = int(os.environ.get('VERIF_JOBS', '16'))


def canon(obj):
    return json.dumps(obj, sort_keys=True, default=repr, ensure_ascii=True)


def h16(obj):
    return hashlib.sha256(canon(obj).encode('utf-8', 'replace')).hexdigest()[:16]


class ShardOut:
    """Accumulates what one shard observed. JSON-serialisable via .dump()."""

    MAX_VIOL = 40
    MAX_SAMPLES = 3

    def __init__(self):
        self.evaluations = 0
        self.nontrivial = set()
        self.samples = []
        self.violations = []
        self.counters = {}
        self.distincts = {}
        self.inconclusive = []
        self.notes = []

    def case(self, case, nontrivial=True, sample=None):
        """Count one evaluated case; `case` is its canonical (JSON-able) form."""
        self.evaluations += 1
        if nontrivial:
            k = h16(case)
            if k not in self.nontrivial:
                self.nontrivial.add(k)
                if len(self.samples) < self.MAX_SAMPLES:
                    self.samples.append(sample if sample is not None else case)

    def count(self, name, n=1):
        self.counters[name] = self.counters.get(name, 0) + n

    def distinct(self, name, value):
        self.distincts.setdefault(name, set()).add(h16(value))

    def violation(self, mechanism, what, witness=None, replay=None):
        """Record a violation. `mechanism` is the classifier key (never a seed/hash)."""
        self.count('violations_raw')
        if len(self.violations) < self.MAX_VIOL:
            self.violations.append({'mechanism': mechanism, 'what': what, 'witness': witness, 'replay': replay})

    def inconc(self, why):
        if len(self.inconclusive) < 20:
            self.inconclusive.append(why)

    def note(self, text):
        if len(self.notes) < 20:
            self.notes.append(text)

    def dump(self):
        return {'evaluations': self.evaluations, 'nontrivial': sorted(self.nontrivial), 'samples': self.samples,
                'violations': self.violations, 'counters': self.counters,
                'distincts': {k: sorted(v) for k, v in self.distincts.items()},
                'inconclusive': self.inconclusive, 'notes': self.notes}


def shard_env():
    env = dict(os.environ)
    env['PYTHONPATH'] = os.pathsep.join([os.path.join(REPO, 'src'), VERIF, os.path.join(VERIF, '.deps')])
    env['PYTHONHASHSEED'] = '0'
    env['VERIF_REPO'] = REPO
    env['PYTHONDONTWRITEBYTECODE'] = '1'
    # the repo's own switches must not leak in from the caller's environment
    for k in list(env):
        if k.startswith('DEEP_'):
            del env[k]
    return env


def run_shards(prop_id, specs, timeout_s):
    """Run shard specs in subprocesses (<= NCPU at a time). Returns list of (spec, result|None, err)."""
    tmpdir = tempfile.mkdtemp(prefix='vf_%s_' % prop_id)
    pending = list(enumerate(specs))
    running = []
    results = [None] * len(specs)
    env = shard_env()
    try:
        while pending or running:
            while pending and len(running) < NCPU:
                idx, spec = pending.pop(0)
                sp = os.path.join(tmpdir, 'spec_%d.json' % idx)
                op = os.path.join(tmpdir, 'out_%d.json' % idx)
                ep = os.path.join(tmpdir, 'err_%d.txt' % idx)
                with open(sp, 'w') as f:
                    json.dump(spec, f)
                errf = open(ep, 'wb')
                p = subprocess.Popen([PY, '-X', 'faulthandler', '-m', 'vf.shard', prop_id, sp, op], env=env,
                                     cwd=tmpdir, stdout=errf, stderr=errf)
                running.append((idx, spec, p, op, ep, errf, time.time()))
            still = []
            for item in running:
                idx, spec, p, op, ep, errf, t0 = item
                rc = p.poll()
                if rc is None:
                    if time.time() - t0 > timeout_s:
                        p.kill()
                        p.wait()
                        errf.close()
                        results[idx] = (spec, None, 'watchdog: shard exceeded %ds' % timeout_s)
                    else:
                        still.append(item)
                    continue
                errf.close()
                res = None
                err = None
                if os.path.exists(op):
                    try:
                        with open(op) as f:
                            res = json.load(f)
                    except Exception as e:  # noqa
                        err = 'unreadable shard output: %r' % (e,)
                if res is None and err is None:
                    with open(ep, 'rb') as f:
                        tail = f.read()[-1500:].decode('utf-8', 'replace')
                    err = 'shard exited rc=%s without output: %s' % (rc, tail)
                results[idx] = (spec, res, err)
                if os.environ.get('VERIF_TIMING'):
                    print('  shard %d %.1fs %s' % (idx, time.time() - t0, json.dumps(spec)[:120]))
            running = still
            if running:
                time.sleep(0.02)
    finally:
        import shutil
        shutil.rmtree(tmpdir, ignore_errors=True)
    return results


def emit(text):
    try:
        print(text)
        sys.stdout.flush()
    except BrokenPipeError:
        pass


def load_known():
    p = os.path.join(VERIF, 'known_findings.json')
    if not os.path.exists(p):
        return {}
    with open(p) as f:
        data = json.load(f)
    out = {}
    for e in data.get('findings', []):
        out[(e['property'], e['key'])] = e
    return out


def main(prop_id, tier, seed, replay=None):
    t0 = time.time()
    mod = importlib.import_module('vf.props.%s' % prop_id.lower())
    if replay:
        with open(replay) as f:
            rp = json.load(f)
        specs = [rp['spec']]
    else:
        specs = mod.plan(tier, seed)
    timeout_s = getattr(mod, 'SHARD_TIMEOUT', {'quick': 240, 'thorough': 1500})[tier]
    results = run_shards(prop_id, specs, timeout_s)

    evaluations = 0
    nontrivial = set()
    samples = []
    sample_lists = []
    counters = {}
    distincts = {}
    violations = []
    inconclusive = []
    notes = []
    for spec, res, err in results:
        if res is None:
            inconclusive.append(err)
            continue
        evaluations += res['evaluations']
        nontrivial.update(res['nontrivial'])
        sample_lists.append((spec.get('kind', ''), res['samples']))
        for k, v in res['counters'].items():
            counters[k] = counters.get(k, 0) + v
        for k, v in res['distincts'].items():
            distincts.setdefault(k, set()).update(v)
        for v in res['violations']:
            v = dict(v)
            v['spec'] = v.get('replay') or spec
            violations.append(v)
        inconclusive.extend(res['inconclusive'])
        notes.extend(res['notes'])

    # samples: one per kind of shard first, then fill up
    seen_kinds = set()
    for kind, lst in sample_lists:
        if lst and kind not in seen_kinds and len(samples) < 8:
            seen_kinds.add(kind)
            samples.append(lst[0])
    for kind, lst in sample_lists:
        for x in lst[1:]:
            if len(samples) < 8:
                samples.append(x)

    # requirements: the deciding monitors must actually have observed something
    require = getattr(mod, 'REQUIRE', {})
    if isinstance(require, dict) and tier in require:
        require = require[tier]
    for name, minimum in (require or {}).items():
        have = counters.get(name, len(distincts.get(name, ())))
        if have < minimum and not replay:
            inconclusive.append('monitor counter %s=%s below required %s' % (name, have, minimum))
    if len(nontrivial) < 2 and not replay:
        inconclusive.append('fewer than 2 distinct non-trivial cases observed')

    known = load_known()
    known_hits = {}
    new_viol = []
    for v in violations:
        k = (prop_id, v['mechanism'])
        if k in known:
            known_hits.setdefault(v['mechanism'], []).append(v)
        else:
            new_viol.append(v)

    os.makedirs(os.path.join(VERIF, 'evidence'), exist_ok=True)
    lines = []
    for mech, vs in sorted(known_hits.items()):
        lines.append('KNOWN-FINDING: property=%s %s [%s] (%d occurrences this run)' % (
            prop_id, known[(prop_id, mech)]['what'], mech, len(vs)))
    seen_mech = {}
    for v in new_viol:
        seen_mech.setdefault(v['mechanism'], []).append(v)
    for mech, vs in sorted(seen_mech.items()):
        v = vs[0]
        rdir = os.path.join(VERIF, 'replays', prop_id)
        os.makedirs(rdir, exist_ok=True)
        rpath = os.path.join(rdir, '%s.json' % h16([mech, v['spec']]))
        with open(rpath, 'w') as f:
            json.dump({'property': prop_id, 'mechanism': mech, 'what': v['what'], 'witness': v['witness'],
                       'spec': v['spec'], 'tier': tier, 'seed': seed, 'occurrences': len(vs)}, f, indent=1,
                      default=repr)
        lines.append('VIOLATION property=%s replay=%s' % (prop_id, rpath))
        lines.append('  mechanism=%s occurrences=%d what=%s' % (mech, len(vs), str(v['what'])[:400]))

    verdict = 'violated' if new_viol else ('inconclusive' if inconclusive else 'held')
    cov = {
        'evaluations': evaluations,
        'distinct_nontrivial': len(nontrivial),
        'rule': getattr(mod, 'RULE', ''),
        'samples': samples or [{'note': 'no sample recorded'}],
        'counters': counters,
        'distinct_observed': {k: len(v) for k, v in distincts.items()},
        'shards': len(specs),
        'verdict': verdict,
        'known_findings_hit': {m: len(v) for m, v in known_hits.items()},
        'inconclusive_reasons': inconclusive[:10],
        'notes': notes[:10],
        'repo': REPO,
    }
    if getattr(mod, 'EXHAUSTIVE', None):
        cov['exhaustive_parts'] = mod.EXHAUSTIVE
    ev = {
        'property_id': prop_id,
        'tier': tier,
        'seed': seed,
        'level': mod.LEVEL,
        'coverage': cov,
        'assumptions': getattr(mod, 'ASSUMPTIONS', []),
        'wall_s': round(time.time() - t0, 2),
        'violations': len(new_viol),
    }
    if not replay and os.path.realpath(REPO) == '/repo':
        with open(os.path.join(VERIF, 'evidence', '%s.json' % prop_id), 'w') as f:
            json.dump(ev, f, indent=1, default=repr)

    emit('%s tier=%s seed=%s verdict=%s evaluations=%d distinct_nontrivial=%d wall=%.1fs' % (
        prop_id, tier, seed, verdict, evaluations, len(nontrivial), time.time() - t0))
    emit('  counters: %s' % json.dumps(counters, sort_keys=True))
    if distincts:
        emit('  distinct: %s' % json.dumps({k: len(v) for k, v in distincts.items()}, sort_keys=True))
    for ln in lines:
        emit(ln)
    if new_viol:
        return 1
    if inconclusive:
        for r in inconclusive[:10]:
            emit('INCONCLUSIVE property=%s reason=%s' % (prop_id, str(r)[:600]))
        return 2
    return 0
