"""Regenerate MANIFEST.json from the property modules (python -m vf.manifest)."""
import importlib
import json
import os

VERIF = os.path.dirname(os.path.dirname(os.path.abspath(__file__)))
ALL = ['C%02d' % i for i in range(1, 21)]
BASELINE_OFF = ("cd /repo && env -u DEEP_VERIF /venv/bin/python -m pytest -ra -q -p no:cacheprovider --timeout=900 "
                "--continue-on-collection-errors")


def main():
    checks = []
    na = []
    for pid in ALL:
        path = os.path.join(VERIF, 'vf', 'props', pid.lower() + '.py')
        if not os.path.exists(path):
            na.append({'property_id': pid, 'reason': 'check not built yet (work in progress; see DESIGN.md section 3 %s)' % pid})
            continue
        src = open(path).read()
        meta = {}
        # metadata is read without importing deep (manifest generation must work anywhere)
        import ast
        tree = ast.parse(src)
        for node in tree.body:
            if isinstance(node, ast.Assign) and len(node.targets) == 1 and isinstance(node.targets[0], ast.Name):
                name = node.targets[0].id
                if name in ('ID', 'LEVEL', 'RULE', 'ASSUMPTIONS', 'TECHNIQUE', 'LEVEL_TEXT', 'LEVEL_NOTE', 'DESIGN_REF'):
                    try:
                        meta[name] = ast.literal_eval(node.value)
                    except ValueError:
                        pass
        checks.append({
            'property_id': pid,
            'quick_cmd': './check %s quick' % pid,
            'thorough_cmd': './check %s thorough' % pid,
            'evidence_file': '/verif/evidence/%s.json' % pid,
            'replay_cmd_template': './check %s quick --replay {path}' % pid,
            'engine': 'vf',
            'level_claimed': {
                'category': meta.get('LEVEL', 'exploration'),
                'text': meta.get('LEVEL_TEXT', 'runtime monitoring: ' + meta.get('RULE', '')),
                'design_ref': meta.get('DESIGN_REF', 'DESIGN.md section 3 ' + pid),
            },
            'level_note': meta.get('LEVEL_NOTE', '; '.join(meta.get('ASSUMPTIONS', [])) or
                                   'trusted base: CPython 3.12 tracing, the monitors and reference models in /verif/vf'),
            'technique': meta.get('TECHNIQUE', 'runtime monitoring with reference-model oracle over seeded workloads'),
        })
    manifest = {
        'version': 1,
        'setup_cmd': ('/venv/bin/pip install -q --no-index --find-links /opt/veriftools/wheels --target /verif/.deps '
                      'icontract >/dev/null 2>&1 || true; /venv/bin/python -c "import deep, grpc"'),
        'hooks': {
            'guard': 'DEEP_VERIF',
            'enable': 'none needed: no hook commits exist; checks import /repo/src directly (PYTHONPATH) and observe '
                      'from outside (fakes, plugins, sys.settrace, sys.monitoring, time rebinding)',
            'baseline_off_cmd': BASELINE_OFF,
            'source_commits': [],
            'add_only': True,
        },
        'engines': [{'name': 'vf', 'path': '/verif/vf', 'serves_properties': [c['property_id'] for c in checks],
                     'kind_free_text': 'Python runtime-monitoring harness: rigs, reference recorder, reference models, '
                                       'history checkers, fault/schedule injection; one subprocess per shard'}],
        'checks': checks,
        'not_applicable': na,
        'notes': 'Every check: ./check <ID> quick|thorough; exit 0 held, 1 VIOLATION, 2 INCONCLUSIVE (never folded). '
                 'VERIF_SEED / VERIF_TIER honoured. Known findings: /verif/known_findings.json (keyed by mechanism).',
    }
    with open(os.path.join(VERIF, 'MANIFEST.json'), 'w') as f:
        json.dump(manifest, f, indent=1)
    print('claimed', [c['property_id'] for c in checks])


if __name__ == '__main__':
    main()
