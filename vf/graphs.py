"""Seeded object-graph generator: friendly and hostile value classes, sharing and cycles."""
import collections
import dataclasses
import datetime
import decimal
import enum
import fractions
import types
import weakref


class Plain:
    def __init__(self, **kw):
        self.__dict__.update(kw)

    def __str__(self):
        return 'Plain(%s)' % ','.join(sorted(self.__dict__))


class Person:
    species = 'h'

    def __init__(self, name, age, friend=None):
        self.name = name
        self._age = age
        self.__secret = 'pw-' + str(name)
        self.friend = friend

    def __str__(self):
        return 'Person<%s>' % (self.name,)


class Node:
    """Protected attributes whose names happen to begin with the class name (only '_Node__x' is a mangled name)."""

    def __init__(self, n):
        self._Nodes = ['n%d' % i for i in range(n % 3)]
        self._Node_count = n
        self._Node = 'self-named'
        self.__hidden = 'really private'


class Registry:
    """Holds a nested class: its instances are of type 'Entry' (qualified name Registry.Entry)."""

    class Entry:
        def __init__(self, key):
            self.key = key


def make_local_class_instance(n):
    class Point:              # a class defined inside a function: type name 'Point'
        def __init__(self, x):
            self.x = x
    return Point(n)


class Child(Person):
    def __init__(self, name, age):
        super().__init__(name, age)
        self.__mine = 1
        self.toys = ['t1', 't2']


class Slotted:
    __slots__ = ('a', 'b')

    def __init__(self, a, b):
        self.a, self.b = a, b

    def __str__(self):
        return 'Slotted(%r)' % (self.a,)


class Color(enum.Enum):
    RED = 1
    GREEN = 2


class Flag(enum.IntFlag):
    A = 1
    B = 2


Point = collections.namedtuple('Point', 'x y')


@dataclasses.dataclass
class Data:
    n: int
    tags: list


@dataclasses.dataclass(frozen=True)
class FrozenData:
    n: int


class Boom(Exception):
    pass


class RaisesStr:
    def __init__(self):
        self.ok = 1

    def __str__(self):
        raise Boom('str')


class RaisesRepr:
    def __init__(self):
        self.ok = 2

    def __repr__(self):
        raise Boom('repr')


class RaisesBaseStr:
    def __str__(self):
        raise KeyboardInterrupt('str')

    __repr__ = __str__


class RaisesLen:
    def __len__(self):
        raise Boom('len')


class RaisesGetattr:
    def __init__(self):
        self.present = 'p'

    def __getattr__(self, item):
        raise Boom('getattr ' + item)


class RaisesGetattribute:
    def __getattribute__(self, item):
        raise Boom('getattribute ' + item)


class RaisesEqHash:
    def __eq__(self, other):
        raise Boom('eq')

    def __hash__(self):
        raise Boom('hash')


class RaisesBool:
    def __bool__(self):
        raise Boom('bool')


class RaisesIter:
    def __iter__(self):
        raise Boom('iter')


class LyingClass:
    @property
    def __class__(self):
        raise Boom('class')


class DictProp:
    __slots__ = ()

    @property
    def __dict__(self):
        raise Boom('dict')


class StrNotStr:
    def __str__(self):
        return 5


class NonStrAttrs:
    def __init__(self):
        self.__dict__[7] = 'seven'
        self.__dict__[('t', 1)] = 'tuple'
        self.normal = 'n'


class CountingIter:
    def __init__(self, n):
        self.n = n
        self.i = 0

    def __iter__(self):
        return self

    def __next__(self):
        if self.i >= self.n:
            raise StopIteration
        self.i += 1
        return self.i


class ListSub(list):
    pass


class DictSub(dict):
    pass


def _gen():
    yield 1
    yield 2


def _func(a, b=1):
    return a


SCALARS = [
    lambda r: r.randrange(-1000, 1000),
    lambda r: r.pick([0, 1, -1, 2 ** 70, -2 ** 64, 10 ** 400]),
    lambda r: r.pick([0.0, 1.5, -2.25e10, float('inf'), float('nan'), 1e-320]),
    lambda r: r.pick([True, False]),
    lambda r: None,
    lambda r: r.pick(['', 'a', 'hello world', 'x' * r.randrange(2, 60), 'line\nbreak\ttab', 'quote\'"\\']),
    lambda r: r.pick(['ünïcödé', '日本語テキスト', '\U0001F600 emoji', 'a\u0000nul', '‮RTL']),
    lambda r: 'L' * r.pick([1023, 1024, 1025, 3000]),
]


def friendly_scalar(r):
    return r.pick(SCALARS)(r)


class SlowToPrint:
    """Takes 150 ms to render (on the checks' switchable clock, so the run itself stays fast and deterministic)."""

    def __init__(self):
        self.inner = 'payload'

    def __str__(self):
        from vf import clock
        clock.bump(150_000_000)
        return 'slow-to-print'

    __repr__ = __str__


def _named_like_builtin(name):
    """A user class that merely shares its name with a built-in type (a domain 'set', a legacy 'long' ...)."""
    def __init__(self):
        self.members = ['m1', 'm2']
        self.label = 'user-' + name
    return type(name, (), {'__init__': __init__, '__module__': __name__})()


class _OddStr(str):
    def __len__(self):
        raise Boom('len of the text')


class StrReturnsOddText:
    """__str__ answers with a str subclass whose len() raises."""

    def __str__(self):
        return _OddStr('odd text')


class _LyingStr(str):
    """Text (markup-safe strings, lazy translations are str subclasses) whose own len() and slicing answer otherwise."""

    def __str__(self):
        return self

    def __len__(self):
        return 3

    def __getitem__(self, item):
        return self


class _ListSlicedStr(str):
    """A str subclass whose slices are lists of words."""

    def __str__(self):
        return self

    def __getitem__(self, item):
        return str.split(self)


class StrReturnsLyingText:
    """__str__ answers with a long str subclass that claims to be three characters long."""

    def __init__(self, kind):
        self.kind = kind

    def __str__(self):
        if self.kind == 'lying':
            return _LyingStr('long text ' * 400)
        return _ListSlicedStr('one two three')


class KeyStr(str):
    """A dictionary key that is a str subclass with opinions (case-insensitive header names and the like)."""

    def __str__(self):
        return self

    def startswith(self, *args):
        raise Boom('startswith of a key')

    def encode(self, *args, **kwargs):
        raise Boom('encode of a key')


class _NamelessMeta(type):
    @property
    def __name__(cls):
        raise Boom('no name')


class NamelessType(metaclass=_NamelessMeta):
    """An instance of a class whose __name__ cannot be read."""

    def __init__(self):
        self.v = 1


class _Unformattable(str):
    """Text that refuses to be formatted (a str subclass with a __format__ of its own)."""

    def __str__(self):
        return self

    def __format__(self, spec):
        raise Boom('format of the text')


class StrReturnsUnformattableText:
    def __str__(self):
        return _Unformattable('plain enough')


class _NoTextAtAll:
    def __str__(self):
        raise Boom('no text for the name')

    __repr__ = __str__


def _class_name_is_not_text():
    """An instance of a class whose __name__ was replaced (class decorators, mocks do that) by something that is not
    text and cannot be turned into text either."""
    class Renamed:
        def __init__(self):
            self.v = 2

    class _Meta(type):
        @property
        def __name__(cls):
            return _NoTextAtAll()

    return _Meta('Renamed', (), {'__init__': Renamed.__init__, '__module__': __name__})()


HOSTILE = [
    ('str_returns_odd_text', lambda r: StrReturnsOddText()),
    ('str_returns_unformattable_text', lambda r: r.pick([StrReturnsUnformattableText(), _Unformattable('as it is')])),
    ('class_name_is_not_text', lambda r: _class_name_is_not_text()),
    ('type_without_readable_name', lambda r: NamelessType()),
    ('str_returns_lying_text', lambda r: StrReturnsLyingText(r.pick(['lying', 'lying', 'list_sliced']))),
    ('text_of_a_str_subclass', lambda r: r.pick([_LyingStr('long text ' * 400), _ListSlicedStr('one two three')])),
    ('dict_with_str_subclass_keys', lambda r: {KeyStr('first'): 1, 'plain': [2], KeyStr('_second'): 'b'}),
    ('slow_to_print', lambda r: SlowToPrint()),
    ('user_class_named_like_builtin', lambda r: _named_like_builtin(r.pick(['set', 'list', 'tuple', 'frozenset', 'long', 'str',
                                                                         'dict', 'int', 'generator', 'NoneType']))),
    ('bytes', lambda r: r.pick([b'', b'abc', b'\xff\xfe\x00', bytes(range(256))])),
    ('bytearray', lambda r: bytearray(b'ba\x00\xff')),
    ('datetime', lambda r: r.pick([datetime.datetime(2024, 1, 2, 3, 4, 5), datetime.date(2020, 2, 29),
                                   datetime.timedelta(seconds=5), datetime.time(1, 2)])),
    ('deque', lambda r: collections.deque([1, 'two', 3.0], maxlen=r.pick([None, 5]))),
    ('enum', lambda r: r.pick([Color.RED, Color.GREEN, Flag.A | Flag.B])),
    ('slotted', lambda r: Slotted(1, 'b')),
    ('int_key_dict', lambda r: {1: 'one', 2: [2], -3: None}),
    ('tuple_key_dict', lambda r: {(1, 2): 'pair', ('a',): 1, None: 0, 2.5: 'f', b'k': 'b', frozenset([1]): 's'}),
    ('mixed_key_dict', lambda r: {'s': 1, 2: 'two', Color.RED: 'enum'}),
    ('raises_str', lambda r: RaisesStr()),
    ('raises_repr', lambda r: RaisesRepr()),
    ('raises_base_str', lambda r: RaisesBaseStr()),
    ('raises_len', lambda r: RaisesLen()),
    ('raises_getattr', lambda r: RaisesGetattr()),
    ('raises_getattribute', lambda r: RaisesGetattribute()),
    ('raises_eq_hash', lambda r: RaisesEqHash()),
    ('raises_bool', lambda r: RaisesBool()),
    ('raises_iter', lambda r: RaisesIter()),
    ('lying_class', lambda r: LyingClass()),
    ('dict_prop', lambda r: DictProp()),
    ('str_not_str', lambda r: StrNotStr()),
    ('non_str_attrs', lambda r: NonStrAttrs()),
    ('generator', lambda r: _gen()),
    ('list_iterator', lambda r: iter([1, 2, 3])),
    ('dict_iterators', lambda r: r.pick([iter({'a': 1}), iter({'a': 1}.items()), {'a': 1}.keys(), {'a': 1}.values(),
                                         {'a': 1}.items()])),
    ('range', lambda r: r.pick([range(5), iter(range(3)), reversed([1, 2]), enumerate('ab'), zip('ab', 'cd'),
                                map(str, [1]), filter(None, [0, 1])])),
    ('custom_iter', lambda r: CountingIter(3)),
    ('module', lambda r: r.pick([collections, types])),
    ('type', lambda r: r.pick([int, Person, type, Color, Boom])),
    ('function', lambda r: r.pick([_func, lambda x: x, len, str.upper, Person('m', 1).__str__, print])),
    ('lone_surrogate', lambda r: r.pick(['\ud800', 'ok\udfffend', '\udc80' * 3])),
    ('huge_int', lambda r: 10 ** 5000),
    ('nan', lambda r: float('nan')),
    ('ordered_dict', lambda r: collections.OrderedDict([('a', 1), ('b', [2])])),
    ('default_dict', lambda r: collections.defaultdict(list, {'k': [1]})),
    ('counter', lambda r: collections.Counter('abca')),
    ('chainmap', lambda r: collections.ChainMap({'a': 1}, {'b': 2})),
    ('memoryview', lambda r: memoryview(b'mem')),
    ('complex', lambda r: 3 + 4j),
    ('decimal', lambda r: r.pick([decimal.Decimal('1.10'), fractions.Fraction(1, 3)])),
    ('singletons', lambda r: r.pick([Ellipsis, NotImplemented])),
    ('namedtuple', lambda r: Point(1, 'y')),
    ('dataclass', lambda r: r.pick([Data(1, ['t']), FrozenData(2)])),
    ('list_sub', lambda r: r.pick([ListSub([1, 2]), DictSub(a=1)])),
    ('exception', lambda r: r.pick([ValueError('bad', 3), KeyError('k'), Boom(), OSError(2, 'nf'),
                                    StopIteration(5), SystemExit(3), KeyboardInterrupt()])),
    ('exception_weird_args', lambda r: _exc_with_args(r)),
    ('weakref', lambda r: weakref.ref(Person)),
    ('property', lambda r: r.pick([property(lambda s: 1), staticmethod(len), classmethod(len), slice(1, 2),
                                   types.SimpleNamespace(a=1), types.MappingProxyType({'a': 1})])),
    ('code_frame', lambda r: r.pick([_func.__code__, _func.__globals__['__builtins__']])),
    ('object', lambda r: object()),
]
HOSTILE_NAMES = [n for n, _ in HOSTILE]


def _exc_with_args(r):
    e = ValueError('v')
    e.args = (RaisesStr(), b'bytes', {1: 2})
    return e


def hostile(r, kind=None):
    if kind is None:
        kind, fn = r.pick(HOSTILE)
    else:
        fn = dict(HOSTILE)[kind]
    return kind, fn(r)


class GraphGen:
    """Builds one value; keeps a pool for sharing and records which classes were used."""

    def __init__(self, r, hostile_p=0.0, max_depth=4, width=4):
        self.r = r
        self.hostile_p = hostile_p
        self.max_depth = max_depth
        self.width = width
        self.pool = []
        self.kinds = set()

    def value(self, depth=0):
        r = self.r
        if self.pool and r.chance(0.12):
            self.kinds.add('shared')
            return r.pick(self.pool)
        if self.hostile_p and r.chance(self.hostile_p):
            k, v = hostile(r)
            self.kinds.add(k)
            return v
        if depth >= self.max_depth or r.chance(0.35):
            return friendly_scalar(r)
        c = r.randrange(9)
        n = r.randrange(0, self.width + 1)
        if c == 0:
            v = [self.value(depth + 1) for _ in range(n)]
            self.kinds.add('list')
        elif c == 1:
            v = tuple(self.value(depth + 1) for _ in range(n))
            self.kinds.add('tuple')
        elif c == 2:
            v = {('k%d' % i): self.value(depth + 1) for i in range(n)}
            self.kinds.add('dict')
            if r.chance(0.15):
                # keys of different types with the same text: still one entry each
                v[1], v['1'] = self.value(depth + 1), self.value(depth + 1)
                if r.chance(0.5):
                    v[2.5], v['2.5'] = 'float key', 'text key'
                self.kinds.add('dict_keys_with_equal_text')
        elif c == 3:
            v = set(self._hashable() for _ in range(n))
            self.kinds.add('set')
        elif c == 4:
            v = frozenset(self._hashable() for _ in range(n))
            self.kinds.add('frozenset')
        elif c == 5:
            v = Plain(**{('attr%d' % i): self.value(depth + 1) for i in range(n)})
            self.kinds.add('object')
        elif c == 6:
            v = Person('p%d' % r.randrange(9), r.randrange(90), self.value(depth + 1) if r.chance(0.5) else None)
            self.kinds.add('object_private')
        elif c == 7:
            if r.chance(0.3):
                v = Registry.Entry('k%d' % r.randrange(9)) if r.chance(0.5) else make_local_class_instance(r.randrange(9))
                self.kinds.add('object_of_nested_or_local_class')
            elif r.chance(0.4):
                v = Node(r.randrange(9))
                self.kinds.add('object_attrs_named_after_class')
            else:
                v = Child('c%d' % r.randrange(9), r.randrange(12))
                self.kinds.add('object_inherited_private')
        else:
            v = ValueError('msg', self.value(depth + 1))
            self.kinds.add('exception')
        if c != 1 and c != 4:
            self.pool.append(v)
        # cycles
        if r.chance(0.1):
            if isinstance(v, list):
                v.append(v)
                self.kinds.add('cycle_self')
            elif type(v) is dict:
                v['me'] = v
                self.kinds.add('cycle_self')
            elif isinstance(v, Plain):
                v.me = v
                self.kinds.add('cycle_self')
        elif r.chance(0.08) and self.pool:
            other = r.pick(self.pool)
            if isinstance(v, list) and isinstance(other, list) and other is not v:
                v.append(other)
                other.append(v)
                self.kinds.add('cycle_mutual')
        return v

    def _hashable(self):
        r = self.r
        return r.pick([r.randrange(100), 's%d' % r.randrange(100), (1, 2), None, 2.5, True, frozenset([1])])
