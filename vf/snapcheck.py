"""Independent reading of a paused frame and comparison of a snapshot against it.

Shares no code with deep: the stack is read from f_back, locals from f_locals, children by the documented kinds
(dict keys, sequence indexes / set members, exception args, object attributes with private-name demangling).
"""
import os
import re

BUILTIN_SEQ = (list, tuple, set, frozenset)
ANY = ('<any-name>',)


def default_limits():
    """The documented default limits, read from the public constants (a changed default is not a defect)."""
    lim = {'max_vars': 1000, 'max_str': 1024, 'max_coll': 10, 'max_depth': 5}
    try:
        from deep.processor.variable_set_processor import VariableProcessorConfig as C
        lim = {'max_vars': int(C.DEFAULT_MAX_VARIABLES), 'max_str': int(C.DEFAULT_MAX_STRING_LENGTH),
               'max_coll': int(C.DEFAULT_MAX_COLLECTION_SIZE), 'max_depth': int(C.DEFAULT_MAX_VAR_DEPTH)}
    except BaseException:  # noqa
        pass
    return lim


class FrameRead:
    """One frame of the real stack at the event."""
    __slots__ = ('file', 'func', 'line', 'cls', 'locals')

    def __init__(self, frame):
        co = frame.f_code
        self.file, self.func, self.line = co.co_filename, co.co_name, frame.f_lineno
        loc = frame.f_locals
        self.locals = dict(loc)  # strong refs, names as bound now
        s = self.locals.get('self', None)
        self.cls = None
        if s is not None:
            try:
                self.cls = type(s).__name__ if not hasattr(s, '__class__') else s.__class__.__name__
            except BaseException:  # noqa
                try:
                    self.cls = type(s).__name__
                except BaseException:  # noqa - a type that does not tell its name: whatever is reported is accepted
                    self.cls = ANY
            if self.cls is not ANY and type(self.cls) is not str:
                # a class whose name is not text: any text (or none) is accepted, a snapshot is due all the same
                self.cls = ANY


def read_stack(frame):
    out = []
    while frame is not None:
        out.append(FrameRead(frame))
        frame = frame.f_back
    return out


def safe_str(o):
    """str(o), or None when the object cannot be rendered as usable text (str() raises, or answers with something whose
    length cannot even be taken): then any placeholder is acceptable."""
    try:
        s = str(o)
        if not isinstance(s, str):
            return None
        len(s)
        return s if type(s) is str else str.__str__(s)
    except BaseException:  # noqa
        return None


def type_name(o):
    """type(o).__name__, or 'unknown' when the type does not tell its name."""
    try:
        n = type(o).__name__
        return n if type(n) is str else str.__str__(str(n))   # (a name that is not text: its text form, if it has one)
    except BaseException:  # noqa
        return 'unknown'


def safe_len(o):
    try:
        return len(o)
    except BaseException:  # noqa
        return None


def obj_dict(o):
    """Instance attribute dictionary, read without running user hooks where possible."""
    try:
        d = object.__getattribute__(o, '__dict__')
        if isinstance(d, dict):
            return d
    except BaseException:  # noqa
        pass
    return None


def demangled(o, name):
    """Names under which attribute `name` of o may legitimately be shown."""
    names = {name}
    if isinstance(name, str) and name.startswith('_'):
        try:
            for k in type(o).__mro__:
                p = '_' + k.__name__.lstrip('_')
                if name.startswith(p + '__'):
                    names.add(name[len(p):])
                p2 = '_' + k.__name__
                if name.startswith(p2 + '__'):
                    names.add(name[len(p2):])
        except BaseException:  # noqa
            pass
    return names


def ref_children(o):
    """[(accepted names set, child)] for the documented child kinds; None = kind without documented children."""
    t = type(o)
    if t is dict:
        out = []
        for k, v in list(o.items()):
            names = {k, safe_str(k), _safe_repr(k)}
            if safe_str(k) is None:
                names.add(ANY)  # a key that cannot be rendered may be shown under any placeholder
            out.append((names, v))
        return out
    if t in BUILTIN_SEQ:
        return [({str(i), i}, v) for i, v in enumerate(tuple(o))]
    if issubclass(t, BaseException):   # (isinstance would ask the object for __class__, which may raise)
        try:
            return [({str(i), i}, v) for i, v in enumerate(tuple(o.args))]
        except BaseException:  # noqa
            return None
    d = obj_dict(o)
    if d is not None:
        return [(demangled(o, k) | {safe_str(k)}, v) for k, v in list(d.items())]
    return None


def _safe_repr(o):
    try:
        return repr(o)
    except BaseException:  # noqa
        return None


ITER_NAMES = ('iterator', 'generator', 'coroutine')


def is_iter_like(o):
    n = type_name(o)
    return any(x in n for x in ITER_NAMES) or (hasattr(type(o), '__next__'))


def value_problem(o, var, max_str):
    """None if the table entry `var` truthfully describes object o, else text."""
    tn = type_name(o)
    if var.type != tn:
        return 'type %r reported for a %s' % (var.type, tn)
    val = var.value
    if type(val) is not str:
        # (a str subclass handed through from the application would run application code wherever the text is used)
        return 'value is not plain text: %r' % (type(val).__name__,)
    if max_str is not None and len(val) > max_str:
        return 'value of length %d exceeds the string limit %d' % (len(val), max_str)
    if type(o) is dict or type(o) in BUILTIN_SEQ:
        n = len(o)
        if not re.search(r'(?<!\d)%d(?!\d)' % n, val):
            if max_str is not None and len(val) >= max_str and var.truncated:
                return None  # the rendering itself was cut by the string limit (and says so)
            # a full rendering is also truthful
            s = safe_str(o)
            if s is None or val != s[:max_str]:
                return 'container of %d elements rendered as %r' % (n, val[:80])
        return None
    if is_iter_like(o):
        return None if val else 'empty value for iterator'
    s = safe_str(o)
    if s is None:
        return None  # str() fails: any placeholder is acceptable
    exp = s if max_str is None else s[:max_str]
    if val != exp:
        return 'value %r is not str(obj)=%r' % (val[:80], exp[:80])
    cut = max_str is not None and len(s) > max_str
    if bool(var.truncated) != cut:
        return 'truncated flag %r but text %s cut (len %d, limit %s)' % (var.truncated, 'was' if cut else 'was not',
                                                                        len(s), max_str)
    return None


class Problems(list):
    def add(self, mech, what):
        if len(self) < 12:
            self.append((mech, what))


def check_table(snap_lookup, roots, max_str, probs, strict_children=None, max_coll=None):
    """Walk the reported structure from `roots` [(VariableId, real object)] and compare with the real objects.

    strict_children: levels (1 = a root) up to which documented children must be complete.
    Returns dict vid -> object for every entry reached.
    """
    reached = {}
    work = [(vid, obj, 1, vid.name if hasattr(vid, 'name') else '?') for vid, obj in roots]
    steps = 0
    while work and steps < 20000:
        steps += 1
        vid, obj, level, path = work.pop()
        v = getattr(vid, 'vid', None)
        if v is None or v not in snap_lookup:
            probs.add('closure:dangling-reference', 'reference %r -> id %r is not in the variable table' % (path, v))
            continue
        var = snap_lookup[v]
        if v in reached:
            if reached[v] is not obj:
                probs.add('identity:id-shared-by-different-objects',
                          'id %s used for %s and for a different %s at %s' % (
                              v, type_name(reached[v]), type_name(obj), path))
            continue
        reached[v] = obj
        if var.hash != str(id(obj)):
            probs.add('fidelity:wrong-object', '%s: entry %s has identity %s, the object there has %s (%s)' % (
                path, v, var.hash, id(obj), type_name(obj)))
            continue
        p = value_problem(obj, var, max_str)
        if p:
            probs.add('fidelity:value', '%s: %s' % (path, p))
        kids = ref_children(obj)
        reported = list(var.children)
        if kids is None:
            continue
        if max_coll is not None and type(obj) in BUILTIN_SEQ and len(reported) > max_coll:
            probs.add('bounds:collection-size', '%s: %d children reported, collection limit %d' % (
                path, len(reported), max_coll))
        used = set()
        for ch in reported:
            cname = getattr(ch, 'name', None)
            cands = [i for i, (names, _) in enumerate(kids) if i not in used and (cname in names or ANY in names)]
            if not cands and type(obj) in (set, frozenset):
                # sets have no intrinsic order: accept the member whose identity the entry claims
                centry = snap_lookup.get(getattr(ch, 'vid', None))
                if centry is not None:
                    cands = [i for i, (_, c) in enumerate(kids) if i not in used and str(id(c)) == centry.hash]
            if not cands:
                probs.add('fidelity:child-not-real', '%s: child named %r is not a real child of the %s' % (
                    path, cname, type_name(obj)))
                continue
            # prefer the candidate whose identity matches
            centry = snap_lookup.get(getattr(ch, 'vid', None))
            pick = cands[0]
            if centry is not None:
                for i in cands:
                    if str(id(kids[i][1])) == centry.hash:
                        pick = i
                        break
            used.add(pick)
            work.append((ch, kids[pick][1], level + 1, '%s.%s' % (path, cname)))
        if strict_children is not None and level <= strict_children and type(obj) is not type:
            want = len(kids)
            if type(obj) in BUILTIN_SEQ:
                want = min(want, max_coll if max_coll is not None else default_limits()['max_coll'])
            if len(used) < want and not _no_child_kind(obj):
                probs.add('fidelity:children-missing', '%s: %d of %d children of the %s reported' % (
                    path, len(used), want, type_name(obj)))
    return reached


def _no_child_kind(o):
    # kinds for which the documentation does not promise children
    import types
    return issubclass(type(o), (str, int, float, bool, type(None), bytes, bytearray, types.ModuleType, type,
                                types.FunctionType, types.BuiltinFunctionType, types.MethodType, types.TracebackType,
                                types.FrameType, types.CodeType)) or is_iter_like(o)


def check_frames(snapshot, stack, probs, app_rule=None):
    """frames[i] <-> i-th frame of the real f_back chain."""
    frames = snapshot.frames
    if len(frames) != len(stack):
        probs.add('fidelity:stack-length', 'snapshot has %d frames, the real stack %d' % (len(frames), len(stack)))
    for i, (fr, real) in enumerate(zip(frames, stack)):
        if fr.file_name != real.file or fr.method_name != real.func or fr.line_number != real.line:
            probs.add('fidelity:frame', 'frame %d is %s:%s:%s, real %s:%s:%s' % (
                i, os.path.basename(str(fr.file_name)), fr.method_name, fr.line_number,
                os.path.basename(real.file), real.func, real.line))
        if fr.class_name != real.cls and real.cls is not ANY:
            probs.add('fidelity:frame-class', 'frame %d class %r, real class of self %r' % (i, fr.class_name, real.cls))
        if app_rule is not None:
            app, short = app_rule(real.file)
            if bool(fr.app_frame) != app:
                probs.add('fidelity:app-flag', 'frame %d (%s) app_frame=%r, rule says %r' % (
                    i, real.file, fr.app_frame, app))
            if fr.short_path != short:
                probs.add('fidelity:short-path', 'frame %d short path %r, rule says %r' % (i, fr.short_path, short))


def check_frame_vars(snapshot, stack, frame_type, limits, probs, strict_children=2, budget_hit=None,
                     content_for=None):
    """Top-frame variables are exactly the frame's locals; frame_type decides which frames carry variables."""
    lookup = snapshot.var_lookup
    reached = {}
    for i, (fr, real) in enumerate(zip(snapshot.frames, stack)):
        wants = (frame_type == 'all_frame') or (frame_type not in ('no_frame', 'all_frame') and i == 0)
        names = [getattr(v, 'name', None) for v in fr.variables]
        if not wants:
            if names:
                probs.add('fidelity:frame-type', 'frame %d carries variables %s under frame_type=%s' % (
                    i, names[:5], frame_type))
            continue
        if content_for is not None and not content_for(real.file):
            continue  # harness / threading frames: their locals are the monitor's own moving state
        real_names = set(real.locals.keys())
        if set(names) - real_names:
            probs.add('fidelity:unknown-local', 'frame %d reports %s which are not locals of %s' % (
                i, sorted(set(names) - real_names, key=str)[:5], real.func))
        if len(names) != len(set(names)):
            probs.add('fidelity:duplicate-local', 'frame %d lists a local twice: %s' % (i, names[:8]))
        missing = real_names - set(names)
        if missing and not (budget_hit and budget_hit()):
            probs.add('fidelity:missing-local', 'frame %d (%s) lacks locals %s (has %d of %d)' % (
                i, real.func, sorted(missing, key=str)[:5], len(names), len(real_names)))
        roots = [(v, real.locals[v.name]) for v in fr.variables if getattr(v, 'name', None) in real.locals]
        reached.update(check_table(lookup, roots, limits.get('max_str'), probs,
                                   strict_children=None if (budget_hit and budget_hit()) else strict_children,
                                   max_coll=limits.get('max_coll')))
    return reached


def check_closed(snapshot, probs):
    """Every reference resolves; ids and identities are in bijection."""
    lookup = snapshot.var_lookup
    by_hash = {}
    for vid, var in lookup.items():
        if var.hash in by_hash and by_hash[var.hash] != vid:
            probs.add('identity:object-recorded-twice', 'identity %s recorded under ids %s and %s' % (
                var.hash, by_hash[var.hash], vid))
        by_hash[var.hash] = vid
        for ch in var.children:
            if getattr(ch, 'vid', None) not in lookup:
                probs.add('closure:dangling-reference', 'child %r of entry %s -> id %r not in the table' % (
                    getattr(ch, 'name', None), vid, getattr(ch, 'vid', None)))
    for i, fr in enumerate(snapshot.frames):
        for v in fr.variables:
            if getattr(v, 'vid', None) not in lookup:
                probs.add('closure:dangling-reference', 'frame %d variable %r -> id %r not in the table' % (
                    i, getattr(v, 'name', None), getattr(v, 'vid', None)))
    for w in snapshot.watches:
        if w.error is None or w.result is not None:
            r = w.result
            if r is None or getattr(r, 'vid', None) not in lookup:
                probs.add('closure:dangling-reference', 'watch %r result -> id %r not in the table' % (
                    w.expression, getattr(r, 'vid', None)))


def eval_in_frame(expr, frame):
    """Reference meaning of "the expression evaluated in the paused frame": as if it were written at that place - also
    the parts of it that open a scope of their own (generator expressions, lambdas) see the frame's variables.
    Built independently of eval()'s two-dictionary form: a function whose parameters are the frame's locals."""
    loc = {k: v for k, v in frame.f_locals.items() if k.isidentifier()}
    try:
        src = 'def __vf_expr(%s):\n    return (%s\n)' % (', '.join(loc), expr.strip())
        code = compile(src, '<frame expression>', 'exec')
    except SyntaxError:
        return eval(expr, frame.f_globals, frame.f_locals)
    ns = dict(frame.f_globals)
    exec(code, ns)
    return ns['__vf_expr'](**loc)
