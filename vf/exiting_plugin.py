"""A plugin module that guards a missing dependency the blunt way: it ends the interpreter at import.

Imported by name through the agent's plugin loader only (C20 loader cases); never import it from the harness."""
import sys

sys.exit('vf.exiting_plugin: package "nonexistent_dependency" is required')


class Exporter:  # pragma: no cover - never reached
    pass
