"""Fake gRPC channel / service object for PushService and LongPoll (records method, request, metadata, thread)."""
import threading
import time


class FakeRpcError(Exception):
    pass


class FakeChannel:
    def __init__(self):
        self.calls = []     # (method, request, metadata, thread ident, t)
        self.lock = threading.Lock()
        self.on_call = None  # callable(method, request) -> response | raises

    def _make(self, method):
        def call(request, timeout=None, metadata=None, **kw):
            with self.lock:
                self.calls.append((method, request, metadata, threading.get_ident(), time.monotonic()))
            if self.on_call is not None:
                return self.on_call(method, request)
            return None
        return call

    def unary_unary(self, method, *a, **kw):
        return self._make(method)

    unary_stream = stream_unary = stream_stream = unary_unary

    def close(self):
        pass


class FakeGrpc:
    """Stands in for deep.grpc.GRPCService (attributes the push/poll services use)."""

    def __init__(self, metadata=None):
        self.channel = FakeChannel()
        self._md = metadata if metadata is not None else []
        self.metadata_calls = 0

    def metadata(self):
        self.metadata_calls += 1
        return self._md
