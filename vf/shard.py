"""Shard entry: python -m vf.shard <PROP> <spec.json> <out.json>."""
import faulthandler
import importlib
import json
import logging
import os
import sys
import traceback


def main():
    prop_id, spec_path, out_path = sys.argv[1:4]
    faulthandler.enable()
    # agent logging must not flood stderr (lastResort handler) - give both loggers a sink
    logging.getLogger().addHandler(logging.NullHandler())
    logging.getLogger('deep').addHandler(logging.NullHandler())
    from vf import core
    with open(spec_path) as f:
        spec = json.load(f)
    out = core.ShardOut()
    import deep
    repo = os.environ.get('VERIF_REPO', '/repo')
    if not os.path.abspath(deep.__file__).startswith(os.path.abspath(repo) + os.sep):
        out.inconc('deep imported from %s, not from %s' % (deep.__file__, repo))
    else:
        mod = importlib.import_module('vf.props.%s' % prop_id.lower())
        try:
            mod.run_shard(spec, out)
        except BaseException:  # harness failure is never a verdict on the repo
            out.inconc('harness error in shard %s: %s' % (json.dumps(spec)[:200], traceback.format_exc()[-1500:]))
    with open(out_path + '.tmp', 'w') as f:
        json.dump(out.dump(), f, default=repr)
    os.replace(out_path + '.tmp', out_path)
    sys.stdout.flush()
    sys.stderr.flush()
    os._exit(0)  # do not wait for agent daemon threads / atexit joins


if __name__ == '__main__':
    main()
