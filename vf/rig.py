"""Rig U: the agent's TriggerHandler installed as the live trace function, with an independent recorder.

Only constructions the repository's own tests use are relied upon: ConfigService(custom), config.plugins = [...],
config.resource = ..., TriggerHandler(config, push), handler.new_config([...]), handler.trace_call(frame, event, arg),
build_trigger(...), Trigger/LineLocation/FunctionLocation/LocationAction.
"""
import logging
import os
import sys
import threading
import traceback

from vf import clock


class _Capture(logging.Handler):
    def __init__(self, sink):
        super().__init__(level=logging.WARNING)
        self.sink = sink

    def emit(self, record):
        if len(self.sink) < 30:
            try:
                txt = record.getMessage()
            except BaseException:  # noqa
                txt = str(record.msg)
            if record.exc_info and record.exc_info[1] is not None:
                tb = traceback.format_exception(*record.exc_info)
                txt += ' | ' + ''.join(tb[-3:])[-400:]
            self.sink.append(txt)


class Ev:
    __slots__ = ('seq', 'tid', 'kind', 'base', 'file', 'line', 'func', 'fid', 'escaped', 'ret_none', 'host',
                 'opted_out', 'cfg_empty_at_call')

    def __init__(self, seq, tid, kind, frame, host):
        co = frame.f_code
        self.seq, self.tid, self.kind = seq, tid, kind
        self.file = co.co_filename
        self.base = os.path.basename(co.co_filename)
        self.line = frame.f_lineno
        self.func = co.co_name
        self.fid = id(frame)
        self.escaped = None
        self.ret_none = False
        self.host = host
        self.opted_out = False            # event of a frame the agent declined to trace (it returned None at its call)
        self.cfg_empty_at_call = False    # ... and whether it had no tracepoints at all at that moment

    def key(self):
        return (self.kind, self.base, self.line, self.func)


class PushRec:
    __slots__ = ('snapshot', 'tid', 'ev')

    def __init__(self, snapshot, tid, ev):
        self.snapshot, self.tid, self.ev = snapshot, tid, ev


class RecordingPush:
    """Stands in for PushService (same single method the handler uses)."""

    def __init__(self, rig):
        self.rig = rig
        self.pushed = []
        self.fail = None  # optional callable raising

    def push_snapshot(self, snapshot):
        self.pushed.append(PushRec(snapshot, threading.get_ident(), self.rig.current_event() if self.rig else None))
        if self.fail is not None:
            self.fail(snapshot)


class MonitorError(Exception):
    """The checking code itself failed inside a trace callback (the shard runner reports it as inconclusive)."""


class Rig:
    def __init__(self, custom=None, plugins=(), resource=None, host_dir=None, push=None, agent=None, parts=None):
        from deep.config import ConfigService
        from deep.api.resource import Resource
        from deep.processor.trigger_handler import TriggerHandler
        if parts is not None:
            # pre-assembled (config, handler, recording push or None)
            self.config, self.handler, self.push = parts
            if self.push is None:
                self.push = RecordingPush(self)
        elif agent is not None:
            # drive an assembled (not started) Deep instance: its own config and handler, deliveries recorded
            self.config = agent.config
            self.config.plugins = list(plugins)
            self.config.resource = resource if resource is not None else Resource.create()
            self.push = RecordingPush(self)
            agent.push.push_snapshot = self.push.push_snapshot
            self.handler = agent.trigger_handler
        else:
            self.config = ConfigService(dict(custom or {}))
            self.config.plugins = list(plugins)
            self.config.resource = resource if resource is not None else Resource.create()
            self.push = push if push is not None else RecordingPush(self)
            self.handler = TriggerHandler(self.config, self.push)
        self.host_dir = os.path.realpath(host_dir) if host_dir else None
        self.events = []          # host-file events only (Ev)
        self.all_events = 0
        self.escapes = []         # (Ev, exc type name, traceback text)
        self.monitor_errors = []  # failures of the checking code's own pre/post callbacks (any thread)
        self.record_opted_out = False   # also record (flagged) the events of frames the agent declined to trace
        self.pre = None           # callable(ev, frame, arg) before the agent sees the event
        self.post = None          # callable(ev, frame, arg) after it
        self.keep_events = True
        self.freeze = True
        clock.install()
        self._seq = 0
        self._lock = threading.Lock()
        self._cur = threading.local()
        self.logs = []            # agent error log records (diagnosis only, never a verdict)
        self._log_handler = _Capture(self.logs)
        logging.getLogger('deep').addHandler(self._log_handler)
        logging.getLogger().addHandler(self._log_handler)
        self.thread_end_trace = {}   # tid -> sys.gettrace() observed at the end of the thread's work (raw mode)

    # ------------------------------------------------------------------ install
    def install(self, triggers):
        self.handler.new_config(list(triggers))

    def current_event(self):
        return getattr(self._cur, 'ev', None)

    def is_host(self, filename):
        return self.host_dir is not None and filename.startswith(self.host_dir)

    def _wrapper(self):
        """The tracer handed to sys.settrace: records, lets the agent see the event, records again.

        CPython semantics are kept: the function given to settrace sees 'call' events; whatever it returns becomes the
        frame's local trace function and sees that frame's later events; a non-None return of the local function
        replaces it, None keeps it.
        """
        rig = self
        handler_call = self.handler.trace_call

        def invoke(fn, frame, event, arg):
            host = rig.is_host(frame.f_code.co_filename)
            with rig._lock:
                rig._seq += 1
                seq = rig._seq
                rig.all_events += 1
            ev = Ev(seq, threading.get_ident(), event, frame, host)
            if host and rig.keep_events:
                rig.events.append(ev)
            prev = getattr(rig._cur, 'ev', None)
            rig._cur.ev = ev
            try:
                if rig.pre is not None and host:
                    try:
                        rig.pre(ev, frame, arg)
                    except BaseException:  # noqa - the monitor's own failure: reported by cleanup(), never silent
                        rig.monitor_errors.append(traceback.format_exc()[-1500:])
                if rig.freeze:
                    clock.freeze()
                try:
                    r = fn(frame, event, arg)
                except BaseException as e:  # an escape: CPython would raise this in the host and drop the tracer
                    ev.escaped = e
                    rig.escapes.append((ev, type(e).__name__, traceback.format_exc()[-1800:]))
                    r = fn
                finally:
                    if rig.freeze:
                        clock.unfreeze()
                ev.ret_none = r is None
                if rig.post is not None and host:
                    try:
                        rig.post(ev, frame, arg)
                    except BaseException:  # noqa
                        rig.monitor_errors.append(traceback.format_exc()[-1500:])
            finally:
                rig._cur.ev = prev
            return r

        def local(fn):
            def L(frame, event, arg):
                r = invoke(fn, frame, event, arg)
                if r is not None and r is not fn and r != fn:
                    return local(r)
                return L
            return L

        def recorder_only(cfg_empty):
            # the agent declined this frame: CPython delivers none of its events to it. They are still recorded (flagged)
            # for checks that want to know what the program did there; the agent is not called.
            def R(frame, event, arg):
                host = rig.is_host(frame.f_code.co_filename)
                with rig._lock:
                    rig._seq += 1
                    seq = rig._seq
                ev = Ev(seq, threading.get_ident(), event, frame, host)
                ev.opted_out, ev.cfg_empty_at_call = True, cfg_empty
                if host and rig.keep_events:
                    rig.events.append(ev)
                if rig.pre is not None and host:
                    try:
                        rig.pre(ev, frame, arg)
                    except BaseException:  # noqa
                        rig.monitor_errors.append(traceback.format_exc()[-1500:])
                return R
            return R

        def W(frame, event, arg):
            cfg_empty = rig.record_opted_out and len(getattr(rig.handler, '_tp_config', ())) == 0
            r = invoke(handler_call, frame, event, arg)
            if r is not None:
                return local(r)
            return recorder_only(cfg_empty) if rig.record_opted_out else None

        return W

    def run(self, fn, *args, raw=False):
        """Run fn(*args) with the agent live. raw=True installs the agent's own bound method unwrapped."""
        tracer = self.handler.trace_call if raw else self._wrapper()
        old_sys = sys.gettrace()
        old_thr = threading.gettrace()
        result = exc = None
        threading.settrace(tracer)
        sys.settrace(tracer)
        try:
            result = _call(fn, args)
        except BaseException as e:  # noqa
            exc = e
        finally:
            self.end_trace = sys.gettrace()
            sys.settrace(old_sys)
            threading.settrace(old_thr)
        self.tracer = tracer
        return result, exc

    def cleanup(self):
        logging.getLogger('deep').removeHandler(self._log_handler)
        logging.getLogger().removeHandler(self._log_handler)
        """Isolation between cases: drop any per-thread pending work the agent kept (class-level store)."""
        try:
            self.handler._callbacks.clear()
        except BaseException:  # noqa
            pass
        try:
            from deep import thread_local
            store = getattr(thread_local.ThreadLocal, '_ThreadLocal__store', None)
            if isinstance(store, dict):
                store.clear()
        except BaseException:  # noqa
            pass
        if self.monitor_errors:
            errs, self.monitor_errors = self.monitor_errors, []
            raise MonitorError('%d monitor callback failure(s), first: %s' % (len(errs), errs[0]))


def _call(fn, args):
    return fn(*args)


# ---------------------------------------------------------------------- trigger builders
def line_trigger(tp_id, base, line, args=None, watches=(), metrics=()):
    from deep.api.tracepoint.trigger import build_trigger
    return build_trigger(tp_id, base, line, dict(args or {}), list(watches), list(metrics))


def direct_trigger(tp_id, base, line, action_type, config, condition=None, function=None):
    """Direct construction (as the unit tests do) for knobs the wire format cannot express."""
    from deep.api.tracepoint.trigger import Trigger, LineLocation, FunctionLocation, LocationAction, Location
    at = getattr(LocationAction.ActionType, action_type)
    if function is not None:
        loc = FunctionLocation(base, function, Location.Position.START)
    else:
        loc = LineLocation(base, line, Location.Position.START)
    return Trigger(loc, [LocationAction(tp_id, condition, dict(config), at)])
