"""CLI: python -m vf.check C01 [--tier quick|thorough] [--replay path]."""
import argparse
import os
import sys

from vf import core


def main():
    ap = argparse.ArgumentParser()
    ap.add_argument('prop')
    ap.add_argument('--tier', default=os.environ.get('VERIF_TIER', 'quick'))
    ap.add_argument('--replay', default=None)
    a = ap.parse_args()
    tier = a.tier if a.tier in ('quick', 'thorough') else 'quick'
    try:
        seed = int(os.environ.get('VERIF_SEED', '0'))
    except ValueError:
        seed = 0
    sys.exit(core.main(a.prop.upper(), tier, seed, a.replay))


if __name__ == '__main__':
    main()
