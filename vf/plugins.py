"""Recording / fault-injecting plugins. Importable by name ('vf.plugins.<ClassName>') for the PLUGINS config."""
import sys
import threading

from deep.api.attributes import BoundedAttributes
from deep.api.plugin import ResourceProvider, SnapshotDecorator, TracepointLogger, Plugin
from deep.api.plugin.metric import MetricProcessor
from deep.api.plugin.span import SpanProcessor, Span
from deep.api.resource import Resource

_lock = threading.Lock()
EVENTS = []       # (seq, thread_ident, plugin_name, callback, payload)
FAULTS = {}       # (plugin_name, callback) -> set of call indexes | '*'
CALLS = {}        # (plugin_name, callback) -> number of calls so far
INSTANCES = {}    # plugin_name -> [instances]
KEPT_LABELS = []  # (labels object as handed to a metric processor, copy taken at that moment)
HOOK = [None]     # optional callable(plugin_name, callback, payload) run at every record (for rigs)
BARE_FAULTS = [False]   # True: every injected fault is an exception without arguments
_tls = threading.local()   # .idx = call index of the record the hook is running for (per thread)


class PluginFault(Exception):
    """The injected plugin failure."""


class PluginCancelled(BaseException):
    """The injected plugin failure in the shape of asyncio.CancelledError: not an Exception subclass."""


FAULT_CLASS = [PluginFault]


def reset():
    with _lock:
        del EVENTS[:]
        FAULTS.clear()
        CALLS.clear()
        INSTANCES.clear()
        del KEPT_LABELS[:]
        BARE_FAULTS[0] = False
        FAULT_CLASS[0] = PluginFault
        HOOK[0] = None


def _rec(name, callback, payload=None):
    with _lock:
        k = (name, callback)
        idx = CALLS.get(k, 0)
        CALLS[k] = idx + 1
        EVENTS.append((len(EVENTS), threading.get_ident(), name, callback, payload))
        plan = FAULTS.get(k)
    hook = HOOK[0]
    if hook is not None:
        _tls.idx = idx
        hook(name, callback, payload)
    if plan is not None and (plan == '*' or idx in plan):
        if idx % 3 == 2 or BARE_FAULTS[0]:
            raise FAULT_CLASS[0]()       # failures do not always come with a message
        raise FAULT_CLASS[0]('%s.%s call %d' % (name, callback, idx))
    return idx


def hook_call_index():
    """Inside a HOOK callback: the per-(plugin, callback) index of the call being recorded (thread safe)."""
    return _tls.idx


def events(name=None, callback=None):
    with _lock:
        return [e for e in EVENTS if (name is None or e[2] == name) and (callback is None or e[3] == callback)]


class RecSpan(Span):
    def __init__(self, owner, name, ctx_id, tp_id, idx):
        self.owner, self._name, self.ctx_id, self.tp_id, self.idx = owner, name, ctx_id, tp_id, idx

    @property
    def name(self):
        return self._name

    @property
    def trace_id(self):
        return 't%s' % self.idx

    @property
    def span_id(self):
        return 's%s' % self.idx

    def add_attribute(self, key, value):
        pass

    def add_event(self, name, attributes=None):
        pass

    def close(self):
        _rec(self.owner, 'span_close', {'span': self.idx, 'name': self._name, 'tp': self.tp_id, 'ctx': self.ctx_id})


class _Rec(Plugin):
    ORDER = 0
    NAME = None       # display name (plugins of different modules may well share one)
    ATTRS = None      # resource attributes / decoration attributes
    FAIL_CTOR = False
    DEREGISTER = False

    def __init__(self, config=None):
        if self.FAIL_CTOR:
            raise FAULT_CLASS[0]('%s constructor' % type(self).__name__)
        super().__init__(self.NAME or type(self).__name__, config)
        self.class_name = type(self).__name__
        with _lock:
            INSTANCES.setdefault(self.name, []).append(self)

    def order(self):
        return self.ORDER

    def shutdown(self):
        _rec(self.class_name, 'shutdown', {'instance': id(self)})
        if self.DEREGISTER and self.config is not None:
            # a plugin that takes itself off the agent's plugin list when it is told to stop
            try:
                self.config.plugins.remove(self)
            except ValueError:
                pass


class _ResMixin(ResourceProvider):
    def resource(self):
        _rec(self.name, 'resource')
        return Resource(dict(self.ATTRS or {'plugin.%s' % self.name: 'r'}))


class _DecMixin(SnapshotDecorator):
    def decorate(self, snapshot_id, context):
        _rec(self.name, 'decorate', {'snapshot': snapshot_id})
        return BoundedAttributes(attributes={'dec.%s' % self.name: self.name})


class _LogMixin(TracepointLogger):
    def log_tracepoint(self, log_msg, tp_id, ctx_id):
        _rec(self.name, 'log', {'msg': log_msg, 'tp_id': tp_id, 'ctx_id': ctx_id})


class _LogMixinOwnNames(TracepointLogger):
    """A logger written against the positional contract, with parameter names of its own."""

    def log_tracepoint(self, message, tracepoint, context):
        _rec(self.name, 'log', {'msg': message, 'tp_id': tracepoint, 'ctx_id': context})


class _MetMixin(MetricProcessor):
    def counter(self, name, labels, namespace, help_string, unit, value):
        KEPT_LABELS.append((labels, dict(labels)))
        _rec(self.name, 'metric', ('counter', name, dict(labels), namespace, help_string, unit, value))

    def gauge(self, name, labels, namespace, help_string, unit, value):
        KEPT_LABELS.append((labels, dict(labels)))
        _rec(self.name, 'metric', ('gauge', name, dict(labels), namespace, help_string, unit, value))

    def histogram(self, name, labels, namespace, help_string, unit, value):
        KEPT_LABELS.append((labels, dict(labels)))
        _rec(self.name, 'metric', ('histogram', name, dict(labels), namespace, help_string, unit, value))

    def summary(self, name, labels, namespace, help_string, unit, value):
        KEPT_LABELS.append((labels, dict(labels)))
        _rec(self.name, 'metric', ('summary', name, dict(labels), namespace, help_string, unit, value))


class _MetMixinAddsLabel(MetricProcessor):
    """An exporter that puts a label of its own into the label set it was handed (it treats it as its own copy)."""

    def _take(self, kind, name, labels, namespace, help_string, unit, value):
        _rec(self.name, 'metric', (kind, name, dict(labels), namespace, help_string, unit, value))
        labels['exporter'] = self.name
        KEPT_LABELS.append((labels, dict(labels)))

    def counter(self, name, labels, namespace, help_string, unit, value):
        self._take('counter', name, labels, namespace, help_string, unit, value)

    def gauge(self, name, labels, namespace, help_string, unit, value):
        self._take('gauge', name, labels, namespace, help_string, unit, value)

    def histogram(self, name, labels, namespace, help_string, unit, value):
        self._take('histogram', name, labels, namespace, help_string, unit, value)

    def summary(self, name, labels, namespace, help_string, unit, value):
        self._take('summary', name, labels, namespace, help_string, unit, value)


class _SpanMixin(SpanProcessor):
    def create_span(self, name, context_id, tracepoint_id):
        idx = _rec(self.name, 'span_open', {'name': name, 'tp': tracepoint_id, 'ctx': context_id})
        return RecSpan(self.name, name, context_id, tracepoint_id, idx)

    def current_span(self):
        return None


class Utf8StreamLogger(TracepointLogger):
    """A tracepoint logger as an application would write it: one UTF-8 encoded line per message (so it fails, as a
    file or socket stream would, on text that cannot be encoded)."""

    def __init__(self, config=None):
        super().__init__('Utf8StreamLogger', config)
        self.lines = []
        self.rejected = 0

    def log_tracepoint(self, log_msg, tp_id, ctx_id):
        _rec(self.name, 'log', {'msg': log_msg, 'tp_id': tp_id, 'ctx_id': ctx_id})
        try:
            self.lines.append(('%s %s %s\n' % (tp_id, ctx_id, log_msg)).encode('utf-8'))
        except UnicodeEncodeError:
            self.rejected += 1
            raise


class RecSpanSized(RecSpan):
    """A span that has a length (the number of events added to it so far): empty, so falsy, when it is new."""

    def __len__(self):
        return 0


class _SpanMixinSized(_SpanMixin):
    def create_span(self, name, context_id, tracepoint_id):
        idx = _rec(self.name, 'span_open', {'name': name, 'tp': tracepoint_id, 'ctx': context_id})
        return RecSpanSized(self.name, name, context_id, tracepoint_id, idx)


class _SpanMixinSampling(_SpanMixin):
    """A span processor that declines some spans (returns None for them), as a sampling tracer does."""

    def create_span(self, name, context_id, tracepoint_id):
        idx = _rec(self.name, 'span_declined_or_open', {'name': name, 'tp': tracepoint_id})
        if idx % 2 == 0:
            return None
        return super().create_span(name, context_id, tracepoint_id)


_KINDS = {'span_sized': _SpanMixinSized, 'met_adds_label': _MetMixinAddsLabel, 'res': _ResMixin, 'dec': _DecMixin, 'log': _LogMixin, 'logp': _LogMixinOwnNames, 'met': _MetMixin, 'span': _SpanMixin, 'span_sampling': _SpanMixinSampling}


def make(name, kinds, order=0, attrs=None, fail_ctor=False, falsy=None, display_name=None, deregister=False):
    """Create (or replace) an importable plugin class vf.plugins.<name>.

    falsy: 'len' / 'bool' make the instances falsy (e.g. a registry-like plugin that is empty so far)."""
    bases = tuple([_Rec] + [_KINDS[k] for k in kinds])
    ns = {'ORDER': order, 'ATTRS': attrs, 'FAIL_CTOR': fail_ctor, '__module__': __name__, 'NAME': display_name,
          'DEREGISTER': deregister}
    if falsy == 'len':
        ns['__len__'] = lambda self: 0
    elif falsy == 'bool':
        ns['__bool__'] = lambda self: False
    cls = type(name, bases, ns)
    setattr(sys.modules[__name__], name, cls)
    return cls


# a few fixed ones for convenience
RecLogger = make('RecLogger', ['log'])
RecMetrics = make('RecMetrics', ['met'])
RecMetrics2 = make('RecMetrics2', ['met'], order=1)
RecSpans = make('RecSpans', ['span'])
RecSpans2 = make('RecSpans2', ['span'], order=1)
RecDecorator = make('RecDecorator', ['dec'])
RecResource = make('RecResource', ['res'])
