"""Scratch host modules whose frame at a marked line holds generated locals."""
import importlib.util
import os
import re
import sys

_counter = [0]


def write_host(dirpath, names, depth=1, method=False, caller_locals=False, tag='', kind=None):
    """Write a host module. names: parameter names (declaration order = order of the locals).

    kind (plain-function hosts only): None | 'closure' (the frame also holds two free variables) | 'generator' |
    'coroutine' | 'nested_class' (a function of a class defined inside a function)."""
    _counter[0] += 1
    fname = 'host_%s%d.py' % (tag, _counter[0])
    params = ', '.join(names)
    mparams = ', '.join(n if n != 'self' else 'self_' for n in names)
    lines = ['"""generated host"""', '']
    # module-level names that the parameters shadow: an expression naming a local must see the local
    lines += ['%s = "module-level %s"' % (n, n) for n in names if n not in ('self', 'marker')] + ['', '']
    if kind == 'closure':
        lines += ['def make_leaf(captured_note):',
                  '    shared_cell = ["cell", captured_note]', '',
                  '    def leaf(%s):' % params,
                  '        marker = 0  # @hit',
                  '        return marker, captured_note, shared_cell', '',
                  '    return leaf', '', '',
                  'leaf = make_leaf("captured")', '', '']
    elif kind == 'generator':
        lines += ['def leaf_gen(%s):' % params,
                  '    marker = 0  # @hit',
                  '    yield marker',
                  '    yield "never reached"', '', '',
                  'def leaf(*args):',
                  '    return next(leaf_gen(*args))', '', '']
    elif kind == 'coroutine':
        lines += ['async def leaf_co(%s):' % params,
                  '    marker = 0  # @hit',
                  '    return marker', '', '',
                  'def leaf(*args):',
                  '    co = leaf_co(*args)',
                  '    try:',
                  '        co.send(None)',
                  '    except StopIteration as stop:',
                  '        return stop.value', '', '']
    elif kind == 'nested_class':
        lines += ['def make_obj():',
                  '    class Local:',
                  '        def run(self%s):' % (', ' + mparams if mparams else ''),
                  '            marker = 0  # @hit',
                  '            return marker', '',
                  '    return Local()', '', '',
                  'def leaf(*args):',
                  '    return make_obj().run(*args)', '', '']
    elif kind == 'module':
        # top-level code: the paused frame is a <module> frame whose locals are its globals (built-ins included)
        lines += ["TOP_SRC = '''\\"]
        first = len(lines) + 1    # file line of the first line of the embedded source
        lines += ['[%s] = ARGS' % params,
                  'marker = 0  # @hit',
                  "'''", '', '',
                  'def leaf(*args):',
                  '    ns = {"__name__": "top_level_host", "ARGS": args}',
                  '    exec(compile("\\n" * %d + TOP_SRC, __file__, "exec"), ns)' % (first - 1),
                  '    return ns["marker"]', '', '']
    else:
        lines += ['def leaf(%s):' % params,
                  '    marker = 0  # @hit',
                  '    return marker', '', '']
    lines += ['class Holder:',
              '    kind = "holder"', '',
              '    def __init__(self):',
              '        self.tag = "h"', '']
    if method == 'falsy_len':
        lines += ['    def __len__(self):', '        return 0', '']
    if method == 'falsy_bool':
        lines += ['    def __bool__(self):', '        return False', '']
    lines += [
              '    def meth(self%s):' % (', ' + mparams if mparams else ''),
              '        marker = 0  # @hit_m',
              '        return marker', '', '']
    target = 'Holder().meth' if method else 'leaf'
    prev = target
    for i in range(1, depth):
        lines += ['def level%d(*args):' % i]
        if caller_locals:
            lines += ['    note%d = "caller-%d"' % (i, i), '    nums%d = [%d, %d]' % (i, i, i + 1)]
        lines += ['    return %s(*args)' % prev, '', '']
        prev = 'level%d' % i
    lines += ['def entry(*args):', '    return %s(*args)' % prev, '']
    path = os.path.join(dirpath, fname)
    with open(path, 'w') as f:
        f.write('\n'.join(lines))
    return path


def load(path):
    name = 'vfhost_' + os.path.splitext(os.path.basename(path))[0]
    spec = importlib.util.spec_from_file_location(name, path)
    mod = importlib.util.module_from_spec(spec)
    spec.loader.exec_module(mod)
    return mod


def markers(path):
    out = {}
    with open(path) as f:
        for i, line in enumerate(f, 1):
            m = re.search(r'#\s*@(\w+)', line)
            if m:
                out[m.group(1)] = i
    return out
