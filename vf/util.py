"""Small shared helpers."""
import random


class Rng(random.Random):
    """Seeded RNG; one per case so cases are independent of each other and replayable."""

    def __init__(self, *parts):
        super().__init__('|'.join(str(p) for p in parts))

    def chance(self, p):
        return self.random() < p

    def pick(self, seq):
        return seq[self.randrange(len(seq))]

    def subset(self, seq, p=0.5):
        return [x for x in seq if self.random() < p]


def split_seeds(base, n_cases, n_shards, kind, **params):
    """Plan helper: n_cases seeds split into n_shards specs."""
    n_shards = max(1, min(n_shards, n_cases))
    out = []
    per = (n_cases + n_shards - 1) // n_shards
    for i in range(n_shards):
        lo = i * per
        hi = min(n_cases, lo + per)
        if lo >= hi:
            break
        spec = {'kind': kind, 'base': base, 'lo': lo, 'hi': hi}
        spec.update(params)
        out.append(spec)
    return out


def spec_seeds(spec):
    """Case seeds of a shard spec (or the explicit replay list)."""
    if 'seeds' in spec:
        return list(spec['seeds'])
    return ['%s:%d' % (spec['base'], i) for i in range(spec['lo'], spec['hi'])]


def replay_spec(spec, seed, **extra):
    r = {k: v for k, v in spec.items() if k not in ('lo', 'hi', 'seeds')}
    r['seeds'] = [seed]
    r.update(extra)
    return r


def short(o, n=300):
    try:
        s = repr(o)
    except BaseException as e:  # noqa
        s = '<repr failed %s>' % type(e).__name__
    return s if len(s) <= n else s[:n] + '...'
