"""Helpers for end-to-end (rig E) sessions, run one per subprocess."""
import importlib
import json
import os
import re
import subprocess
import sys

from vf import core

TARGET = os.path.join(os.path.dirname(os.path.abspath(__file__)), 'targets', 'e2e_target.py')


def marker_lines(path=TARGET):
    out = {}
    with open(path) as f:
        for i, line in enumerate(f, 1):
            m = re.search(r'#\s*@(\w+)', line)
            if m:
                out[m.group(1)] = i
    return out


def call_child(module, func, arg, env=None, timeout=90):
    """Run module.func(arg) in a fresh interpreter; returns its JSON result or {'inconclusive': why}."""
    e = core.shard_env()
    e.update(env or {})
    try:
        p = subprocess.run([core.PY, '-X', 'faulthandler', '-m', 'vf.e2e', module, func], input=json.dumps(arg),
                           env=e, capture_output=True, text=True, timeout=timeout)
    except subprocess.TimeoutExpired:
        return {'inconclusive': 'child %s.%s watchdog after %ss' % (module, func, timeout)}
    for line in reversed(p.stdout.splitlines()):
        if line.startswith('@@RESULT@@'):
            try:
                return json.loads(line[len('@@RESULT@@'):])
            except ValueError:
                break
    return {'child_failed': True, 'rc': p.returncode, 'stderr': p.stderr[-2500:], 'stdout': p.stdout[-500:]}


def _child_main():
    import faulthandler
    import logging
    faulthandler.enable()
    logging.getLogger().addHandler(logging.NullHandler())
    logging.getLogger('deep').addHandler(logging.NullHandler())
    module, func = sys.argv[1:3]
    arg = json.loads(sys.stdin.read())
    mod = importlib.import_module(module)
    try:
        res = getattr(mod, func)(arg)
    except BaseException:  # noqa
        import traceback
        res = {'child_failed': True, 'rc': None, 'stderr': traceback.format_exc()[-2500:], 'stdout': ''}
    sys.stdout.write('\n@@RESULT@@' + json.dumps(res, default=repr) + '\n')
    sys.stdout.flush()
    os._exit(0)


def attrs_of(kvs):
    """KeyValue list -> plain dict (python values)."""
    out = {}
    for kv in kvs:
        out[kv.key] = any_value(kv.value)
    return out


def any_value(v):
    which = v.WhichOneof('value')
    if which is None:
        return None
    if which == 'array_value':
        return [any_value(x) for x in v.array_value.values]
    if which == 'kvlist_value':
        return {kv.key: any_value(kv.value) for kv in v.kvlist_value.values}
    return getattr(v, which)


if __name__ == '__main__':
    _child_main()
