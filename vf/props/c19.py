"""C19 Configuration resolves with documented precedence and works from the environment.

Monitors: (a) precedence table - in a fresh interpreter per environment, ConfigService(custom).<KEY> for every
documented key and for unknown keys under every combination of {given in code (value / callable / None), given as
DEEP_<KEY>, neither}, compared with the stated order code > environment-backed default > DEEP_ variable > absent;
(b) behavioural equivalence - the assembled agent is started with each documented setting given once in code and once
as its DEEP_ variable (text) and the observable behaviour must be the same (poll cadence and timer liveness, channel
target, auth metadata, logging configuration, frame classification); (c) is_app_frame / short path against an
independent statement of the rule for generated paths and include / exclude / app-root combinations.
"""
import os
import sys

from vf import e2e
from vf.snaprig import app_rule_for
from vf.util import Rng, split_seeds, spec_seeds, replay_spec, short

ID = 'C19'
LEVEL = 'exploration'
TECHNIQUE = 'runtime monitor: precedence/equivalence tables checked in fresh interpreters + reference classification rule'
RULE = ('precedence: for each of 12 keys (9 documented, 3 unknown) a seeded choice of code source (absent / value / '
        'callable (lambda, partial, bound method, callable object, a function answering differently each time) / None) x environment '
        'source (absent / text), plus a second configuration object after the environment changed; behaviour: each documented setting in {code, env} '
        'form (roots also with a trailing slash / not normalised), two argument-less deep.start() calls in one process; classification: 6000 generated (path, include, exclude, app root) tuples with overlapping prefixes, '
        'exclusion inside inclusion, lists and comma-separated text of 0-3 items; non-trivial = two sources competed, '
        'or a prefix matched; distinct by canonical case')
ASSUMPTIONS = ['prefix items are non-empty and contain no comma', 'equality of poll cadence is judged in logical terms '
               '(timer thread alive and >= 3 polls within a generous watchdog), not by wall-clock period']
RULE += "; the shortened file name as the collector's frames carry it (parse_short_name) for every classified path, paths in which the text of the prefix comes up again further down"
REQUIRE = {'frame_short_names_compared': 1000, 'two_start_sessions': 5, 'late_environment_reads': 30, 'function_settings_read_twice': 4, 'precedence_reads': 400, 'behaviour_sessions': 20, 'classifications': 5000, 'classified_after_other_files': 1500, 'prefix_matched': 1500,
           'exclusion_won': 200, 'reclassified_snapshots': 40, 'hosts_with_unnormalised_file_names': 1}
SHARD_TIMEOUT = {'quick': 400, 'thorough': 2400}

DOCUMENTED = {   # key -> (module default when no env, kind)
    'SERVICE_URL': 'deep:43315', 'SERVICE_SECURE': 'True', 'LOGGING_CONF': None, 'POLL_TIMER': 10,
    'SERVICE_AUTH_PROVIDER': None, 'APP_ROOT': '', 'PLUGINS': [],
}
UNKNOWN = ['SERVICE_USERNAME', 'SERVICE_PASSWORD', 'MY_CUSTOM_KEY', 'NO_TRACE', 'tenant_Id']


def plan(tier, seed):
    n = {'quick': 1, 'thorough': 12}[tier]
    return (split_seeds('p%s' % seed, 48 * n, 8, 'precedence') + split_seeds('b%s' % seed, 16 * n, 8, 'behaviour') +
            split_seeds('c%s' % seed, 6000 * n, 4, 'classify') + split_seeds('r%s' % seed, 24 * n, 2, 'reclassify') +
            split_seeds('s%s' % seed, 5 * n, 5, 'twostarts'))


# ---------------------------------------------------------------- (a) precedence
def case_precedence(seed, out, spec):
    r = Rng('c19p', seed)
    env = {}
    code = {}
    expect = {}
    keys = list(DOCUMENTED) + UNKNOWN
    for k in keys:
        ev = r.pick([None, None, 'env-%s' % k.lower(), '7'])
        cv = r.pick(['absent', 'absent', 'value', 'callable', 'none', 'falsy'])
        if ev is not None:
            env['DEEP_' + k] = ev
        if cv == 'value':
            code[k] = {'v': 'code-%s' % k.lower()}
        elif cv == 'callable':
            code[k] = {'call': 'called-%s' % k.lower(), 'how': r.pick(['lambda', 'partial', 'method', 'object', 'counter'])}
        elif cv == 'none':
            code[k] = {'v': None}
        elif cv == 'falsy':
            code[k] = {'v': r.pick([0, '', False])}
        # expectation
        if cv in ('value', 'falsy'):
            expect[k] = code[k]['v']
        elif cv == 'callable':
            # (a function is asked every time the setting is read: 'counter' answers differently each time)
            expect[k] = code[k]['call'] + ('#1' if code[k]['how'] == 'counter' else '')
        elif k in DOCUMENTED:
            # environment-backed default: module reads DEEP_<KEY> at import, else the documented default
            if k in ('APP_ROOT', 'PLUGINS'):
                expect[k] = DOCUMENTED[k]          # not environment backed in the module
            else:
                expect[k] = ev if ev is not None else DOCUMENTED[k]
        else:
            expect[k] = ev
    res = e2e.call_child('vf.props.c19', 'child_precedence', {'code': code, 'keys': keys, 'unknown': UNKNOWN}, env=env,
                         timeout=60)
    replay = replay_spec(spec, seed)
    witness = {'env': env, 'code': code}
    if res.get('child_failed') or res.get('inconclusive'):
        out.violation('precedence:read-raised', 'reading the configuration failed: %s' % (
            res.get('stderr') or res.get('inconclusive'))[-500:], witness, replay)
        return
    competed = False
    for k in keys:
        got = res['values'].get(k)
        if isinstance(got, dict) and 'raised' in got:
            out.violation('precedence:read-raised', 'config.%s raised %s' % (k, got['raised']), witness, replay)
            return
        if got != expect[k] or type(got) is not type(expect[k]):
            src = 'code' if k in code else ('environment' if ('DEEP_' + k) in env else 'default')
            out.violation('precedence:wrong-source', 'config.%s resolved to %r, expected %r (code=%r env=%r)' % (
                k, got, expect[k], code.get(k), env.get('DEEP_' + k)), witness, replay)
            return
        out.count('precedence_reads')
        if code.get(k, {}).get('how') == 'counter':
            again = res['again'].get(k)
            if again != code[k]['call'] + '#2':
                out.violation('precedence:function-not-asked-again', 'config.%s is given as a function that answers %r then '
                                                                     '%r; the second read gave %r' % (
                                                                         k, expect[k], code[k]['call'] + '#2', again),
                              witness, replay)
                return
            out.count('function_settings_read_twice')
        if k in code and ('DEEP_' + k) in env:
            competed = True
    for k in UNKNOWN:
        if k in code:
            continue
        want = None if ('DEEP_' + k) in env else 'late-%s' % k.lower()
        got = res['late'].get(k)
        if got != want:
            out.violation('precedence:environment-change-not-seen',
                          'a configuration object made after DEEP_%s was %s resolves %s to %r, expected %r' % (
                              k, 'removed' if want is None else 'set', k, got, want), witness, replay)
            return
        out.count('late_environment_reads')
    out.case({'env': env, 'code': code}, nontrivial=competed,
             sample={'env': env, 'code': {k: v for k, v in list(code.items())[:5]},
                     'resolved': {k: res['values'][k] for k in keys[:6]}})


class _Provider:
    def __init__(self, x):
        self.x = x

    def get(self):
        return self.x

    def __call__(self):
        return self.x


def _callable(x, how):
    """A setting given in code as something to call: any of the usual spellings."""
    import functools
    if how == 'partial':
        return functools.partial(lambda y: y, x)
    if how == 'method':
        return _Provider(x).get
    if how == 'object':
        return _Provider(x)
    if how == 'counter':
        n = [0]

        def counting():
            n[0] += 1
            return '%s#%d' % (x, n[0])
        return counting
    return lambda: x


def child_precedence(arg):
    from deep.config import ConfigService
    custom = {}
    for k, v in arg['code'].items():
        if 'call' in v:
            custom[k] = _callable(v['call'], v.get('how', 'lambda'))
        else:
            custom[k] = v['v']
    cfg = ConfigService(custom)
    values = {}
    for k in arg['keys']:
        try:
            values[k] = getattr(cfg, k)
        except BaseException as e:  # noqa
            values[k] = {'raised': repr(e)}
    again = {}
    for k, v in arg['code'].items():
        if v.get('how') == 'counter':
            try:
                again[k] = getattr(cfg, k)
            except BaseException as e:  # noqa
                again[k] = {'raised': repr(e)}
    # later in the same process the environment has changed and another configuration object is made: keys without a
    # default are looked up in the environment of that moment
    import os
    late = {}
    for k in arg.get('unknown', []):
        if k in arg['code']:
            continue
        if ('DEEP_' + k) in os.environ:
            del os.environ['DEEP_' + k]
        else:
            os.environ['DEEP_' + k] = 'late-%s' % k.lower()
    cfg2 = ConfigService(custom)
    for k in arg.get('unknown', []):
        if k in arg['code']:
            continue
        try:
            late[k] = getattr(cfg2, k)
        except BaseException as e:  # noqa
            late[k] = {'raised': repr(e)}
    return {'values': values, 'again': again, 'late': late}


# ---------------------------------------------------------------- (b) behaviour
SETTINGS = ['POLL_TIMER', 'SERVICE_URL', 'AUTH', 'LOGGING_CONF', 'IN_APP_INCLUDE', 'IN_APP_EXCLUDE', 'APP_ROOT',
            'IN_APP_INCLUDE_LIST', 'IN_APP_EXCLUDE_LIST']


def case_behaviour(seed, out, spec):
    r = Rng('c19b', seed)
    idx = int(str(seed).split(':')[-1])
    setting = SETTINGS[idx % len(SETTINGS)]
    variant = r.randrange(3)
    variant5 = [3, 4, 0, 1, 2][(idx // len(SETTINGS)) % 5]
    replay = replay_spec(spec, seed)
    results = {}
    for form in ('code', 'env'):
        res = e2e.call_child('vf.props.c19', 'child_behaviour', {'setting': setting, 'form': form, 'variant': variant,
                                                                 'variant5': variant5}, timeout=90)
        if res.get('inconclusive'):
            out.inconc('C19 behaviour %s/%s: %s' % (setting, form, res['inconclusive']))
            return
        results[form] = res
    witness = {'setting': setting, 'variant': variant, 'code_form': _trim(results['code']),
               'env_form': _trim(results['env'])}
    for form in ('code', 'env'):
        res = results[form]
        if res.get('child_failed'):
            out.violation('environment:%s-session-failed' % setting.lower(),
                          '%s given in %s form: the agent session failed: %s' % (setting, form,
                                                                               res.get('stderr', '')[-400:]),
                          witness, replay)
            return
        if not res.get('ok'):
            out.violation('environment:%s-not-honoured' % setting.lower(),
                          '%s given in %s form (%r): %s' % (setting, form, res.get('given'), res.get('why')),
                          witness, replay)
            return
    if setting == 'POLL_TIMER':
        pc, pe = results['code']['behaviour']['polls_continue'], results['env']['behaviour']['polls_continue']
        if not pc and not pe:
            out.inconc('C19 POLL_TIMER: timer alive but silent within the watchdog in both forms')
            return
    if results['code'].get('behaviour') != results['env'].get('behaviour'):
        out.violation('environment:%s-differs' % setting.lower(),
                      '%s behaves differently in code (%r) and as DEEP_ variable (%r)' % (
                          setting, results['code'].get('behaviour'), results['env'].get('behaviour')), witness, replay)
        return
    out.count('behaviour_sessions', 2)
    out.case({'setting': setting, 'variant': variant}, nontrivial=True, sample=witness)


def case_twostarts(seed, out, spec):
    """deep.start() twice in one process without arguments: each start resolves the application root afresh (from the
    DEEP_APP_ROOT of that moment, else from its caller), nothing is carried over from the first start."""
    r = Rng('c19s', seed)
    # ('' = the variable is set but empty: like an unset one, the caller's directory is used)
    combos = [(None, '/second/root'), ('/first/root', '/second/root'), ('/first/root', None), ('', '/second/root'),
              ('/first/root', '')]
    first_env, second_env = combos[int(str(seed).split(':')[-1]) % 5]
    res = e2e.call_child('vf.props.c19', 'child_twostarts', {'first': first_env, 'second': second_env}, timeout=90)
    replay = replay_spec(spec, seed)
    witness = {'DEEP_APP_ROOT_at_first_start': first_env, 'DEEP_APP_ROOT_at_second_start': second_env, 'result': _trim(res)}
    if res.get('inconclusive'):
        out.inconc('C19 two starts: ' + res['inconclusive'])
        return
    if res.get('child_failed'):
        out.violation('environment:app_root-session-failed', 'two argument-less starts failed: %s' % res.get('stderr', '')[-400:],
                      witness, replay)
        return
    for which, env_v, got in (('first', first_env, res['roots'][0]), ('second', second_env, res['roots'][1])):
        want = env_v if env_v else res['caller_root']
        if got != want:
            out.violation('environment:app_root-not-honoured',
                          'the %s argument-less start resolved APP_ROOT to %r, expected %r (DEEP_APP_ROOT=%r, caller '
                          'directory %r)' % (which, got, want, env_v, res['caller_root']), witness, replay)
            return
    out.count('two_start_sessions')
    out.case({'first': first_env, 'second': second_env}, nontrivial=True, sample=witness)


def child_twostarts(arg):
    import os
    os.environ['DEEP_SERVICE_URL'] = '127.0.0.1:1'
    os.environ['DEEP_POLL_TIMER'] = '3600'
    import deep
    roots = []
    for v in (arg['first'], arg['second']):
        if v is None:
            os.environ.pop('DEEP_APP_ROOT', None)
        else:
            os.environ['DEEP_APP_ROOT'] = v
        agent = deep.start()
        roots.append(agent.config.APP_ROOT)
        try:
            agent.shutdown()
        except BaseException:  # noqa
            pass
    return {'roots': roots, 'caller_root': os.path.dirname(os.path.dirname(os.path.abspath(__file__)))}


def _trim(res):
    return {k: (v if k != 'stderr' else v[-300:]) for k, v in res.items()}


def child_behaviour(arg):
    """Fresh interpreter: configure one documented setting in code or via DEEP_ text; report observable behaviour."""
    import logging
    import threading
    import time
    import tempfile
    from vf.server import LoopbackServer
    from deepproto.proto.tracepoint.v1.tracepoint_pb2 import TracePointConfig
    setting, form, variant = arg['setting'], arg['form'], arg['variant']
    srv = LoopbackServer()
    line = e2e.marker_lines()['deposit_mid']
    srv.set_config('c', [TracePointConfig(ID='tp', path='e2e_target.py', line_number=line,
                                          args={'fire_count': '-1', 'fire_period': '0', 'frame_type': 'all_frame'})])
    target_dir = os.path.dirname(e2e.TARGET)
    verif_dir = os.path.dirname(os.path.dirname(target_dir))
    code = {'SERVICE_URL': srv.url, 'SERVICE_SECURE': 'False', 'POLL_TIMER': 0.1}
    env = {}
    given = None

    def give(key, text, code_value=None):
        nonlocal given
        given = text
        if form == 'env':
            env['DEEP_' + key] = text
            code.pop(key, None)
        else:
            code[key] = text if code_value is None else code_value

    if setting == 'POLL_TIMER':
        give('POLL_TIMER', ['0.1', '1', '0.25'][variant], [0.1, 1, 0.25][variant])
    elif setting == 'SERVICE_URL':
        give('SERVICE_URL', srv.url)
        empty = arg.get('variant5', 0) == 3      # set, but empty: not one of the words that mean yes, in either form
        if form == 'env':
            env['DEEP_SERVICE_SECURE'] = '' if empty else ['False', 'false', 'no'][variant]
            code.pop('SERVICE_SECURE')
        else:
            # (in code the natural spelling is the boolean itself)
            # ... or a number
            code['SERVICE_SECURE'] = '' if empty else (0 if arg.get('variant5', 0) == 4 else [False, 'false', 0][variant])
    elif setting == 'AUTH':
        give('SERVICE_AUTH_PROVIDER', 'deep.api.auth.BasicAuthProvider')
        for k, v in (('SERVICE_USERNAME', 'user%d' % variant), ('SERVICE_PASSWORD', 'pw-%d' % variant)):
            if form == 'env':
                env['DEEP_' + k] = v
            else:
                code[k] = v
    elif setting == 'LOGGING_CONF':
        fd, path = tempfile.mkstemp(suffix='.conf')
        os.write(fd, b"[loggers]\nkeys=root,vfmarker\n[handlers]\nkeys=h\n[formatters]\nkeys=f\n[logger_root]\n"
                     b"level=WARNING\nhandlers=h\n[logger_vfmarker]\nlevel=DEBUG\nhandlers=h\nqualname=vfmarker%d\n"
                     b"[handler_h]\nclass=NullHandler\nlevel=DEBUG\nformatter=f\nargs=()\n[formatter_f]\nformat=%%(message)s\n"
                 % variant)
        os.close(fd)
        give('LOGGING_CONF', path)
    elif setting in ('IN_APP_INCLUDE', 'IN_APP_EXCLUDE', 'IN_APP_INCLUDE_LIST', 'IN_APP_EXCLUDE_LIST'):
        key = setting.replace('_LIST', '')
        items = [[target_dir], ['/nonexistent/a', target_dir], ['/nonexistent/a', target_dir, '/nonexistent/b']][variant]
        if arg.get('variant5', 0) in (3, 4) and not setting.endswith('_LIST'):
            # a trailing comma (an empty item) names no prefix, in either form: the target file stays unmatched
            items = ['/nonexistent/a']
        text = ','.join(items)
        if arg.get('variant5', 0) in (3, 4) and not setting.endswith('_LIST'):
            text += ','
        if setting.endswith('_LIST') and form == 'code':
            give(key, text, list(items))
        else:
            give(key, text)
        code['APP_ROOT'] = verif_dir if 'EXCLUDE' in key else '/nonexistent/root'
    elif setting == 'APP_ROOT':
        # (also spelled with a trailing slash, or not normalised: text is taken as it is given, in both forms)
        give('APP_ROOT', [target_dir, verif_dir, '/nonexistent/root', target_dir + '/',
                          os.path.dirname(target_dir) + '/./' + os.path.basename(target_dir)][arg.get('variant5', variant)])
        if form == 'code':
            # the environment names another root at the same time: the value given in code wins
            env['DEEP_APP_ROOT'] = '/nonexistent/root-of-the-environment'
    os.environ.update(env)
    import deep
    from vf.targets import e2e_target
    try:
        agent = deep.start(dict(code))
    except BaseException as e:  # noqa
        srv.stop()
        return {'ok': False, 'given': given, 'why': 'deep.start raised %r' % (e,), 'behaviour': None}
    out = {'given': given, 'ok': True, 'why': None, 'behaviour': None}
    try:
        if not srv.wait_polls(1, 10):
            return {'ok': False, 'given': given, 'why': 'the service saw no poll', 'behaviour': None}
        if setting == 'POLL_TIMER':
            interval = float(given)
            want = 3
            ok = srv.wait_polls(1 + want, timeout=interval * want * 10 + 5)
            named = [t for t in threading.enumerate() if t.name == 'Tracepoint Long Poll']
            timer = getattr(getattr(agent, 'poll', None), 'timer', None)
            thread = getattr(timer, 'thread', None)
            alive = (any(t.is_alive() for t in named) if named else (thread.is_alive() if thread is not None else None))
            out['behaviour'] = {'timer_alive': alive, 'polls_continue': ok}
            if alive is False:
                out.update(ok=False, why='the poll timer thread is dead')
            # whether polls keep coming is judged by comparing the two forms (same machine, same watchdog), never by
            # wall-clock gaps: see case_behaviour
        elif setting == 'SERVICE_URL':
            out['behaviour'] = {'polled': True}
        elif setting == 'AUTH':
            md = dict(srv.polls[0][1])
            import base64
            want = 'Basic%20' + base64.b64encode(('user%d:pw-%d' % (variant, variant)).encode()).decode()
            out['behaviour'] = {'authorization': md.get('authorization')}
            if md.get('authorization') != want:
                out.update(ok=False, why='poll metadata authorization=%r, expected %r' % (md.get('authorization'), want))
        elif setting == 'LOGGING_CONF':
            lg = logging.getLogger('vfmarker%d' % variant)
            out['behaviour'] = {'marker_level': lg.level}
            if lg.level != logging.DEBUG:
                out.update(ok=False, why='the logging configuration file was not loaded (marker logger level %s)' % lg.level)
        else:
            end = time.monotonic() + 15
            while not srv.snapshots and time.monotonic() < end:
                e2e_target.run(1)
                srv.wait_snapshots(1, 0.3)
            if not srv.snapshots:
                return {'ok': False, 'given': given, 'why': 'no snapshot delivered', 'behaviour': None}
            fr = [f for f in srv.snapshots[0][0].frames if f.file_name == e2e.TARGET][0]
            out['behaviour'] = {'app_frame': fr.app_frame, 'short_path': fr.short_path}
            key = setting.replace('_LIST', '')
            if key == 'APP_ROOT':
                rule = app_rule_for(given, [], [sys.exec_prefix])
            elif key == 'IN_APP_INCLUDE':
                rule = app_rule_for('/nonexistent/root', [x for x in given.split(',') if x], [sys.exec_prefix])
            else:
                rule = app_rule_for(verif_dir, [], [x for x in given.split(',') if x] + ([sys.exec_prefix] if form == 'env' else []))
            app, shorts = rule(e2e.TARGET)
            if bool(fr.app_frame) != app or fr.short_path not in shorts:
                out.update(ok=False, why='frame %s classified app=%r short=%r, the rule gives app=%r short in %r' % (
                    e2e.TARGET, fr.app_frame, fr.short_path, app, sorted(shorts)))
    finally:
        try:
            agent.shutdown()
        except BaseException:  # noqa
            pass
        srv.stop()
    return out


# ---------------------------------------------------------------- (c) classification
ROOTS = ['/srv/app', '/srv/app/pkg', '/srv/app/pkg/sub', '/srv/other', '/opt/lib/site-packages', '/srv/app2',
         '/srv/ap', '/home/u/proj', '/srv/app/pkg/mo']     # (a prefix is text: it may end inside a file name)
FILES = ['main.py', 'pkg/mod.py', 'pkg/sub/deep.py', 'x.py', 'site-packages/lib/a.py', 'pkg/other.py',
         # (the text of a prefix can come up again further down the path: only the leading occurrence is cut)
         'srv/app/tool.py', 'vendor/srv/app/pkg/mod.py', 'home/u/proj/home/u/proj/m.py']


def case_classify(seed, out, spec):
    from deep.config import ConfigService
    r = Rng('c19c', seed)
    root = r.pick(ROOTS)
    path = root + '/' + r.pick(FILES)
    inc = r.sample(ROOTS, r.randrange(0, 4))
    exc = r.sample(ROOTS, r.randrange(0, 4))
    app_root = r.pick(ROOTS + ['/nonexistent', ''])   # '' = no root worked out: every path starts with it
    form = r.pick(['list', 'list', 'text', 'callable'])
    custom = {'APP_ROOT': app_root}
    if form == 'list':
        custom['IN_APP_INCLUDE'], custom['IN_APP_EXCLUDE'] = list(inc), list(exc)
    elif form == 'text':
        if inc:
            custom['IN_APP_INCLUDE'] = ','.join(inc)
        else:
            custom['IN_APP_INCLUDE'] = r.pick([[], ''])     # (empty text names no prefix, like an empty list)
        if exc:
            custom['IN_APP_EXCLUDE'] = ','.join(exc)
        else:
            custom['IN_APP_EXCLUDE'] = r.pick([[], ''])
    else:
        custom['IN_APP_INCLUDE'] = (lambda v: (lambda: list(v)))(inc)
        custom['IN_APP_EXCLUDE'] = (lambda v: (lambda: list(v)))(exc)
    replay = replay_spec(spec, seed)
    witness = {'path': path, 'include': inc, 'exclude': exc, 'app_root': app_root, 'form': form}
    service = ConfigService(custom)
    if r.chance(0.4):
        # the same configuration has classified other files before (of the same directory, among others)
        earlier = [root + '/' + r.pick(FILES) for _ in range(r.randrange(1, 3))]
        witness['classified_before'] = earlier
        try:
            for p_ in earlier:
                service.is_app_frame(p_)
        except BaseException:  # noqa
            pass
        out.count('classified_after_other_files')
    app, shorts = app_rule_for(app_root, inc, exc)(path)
    try:
        got_app, match = service.is_app_frame(path)
    except BaseException as e:  # noqa
        out.violation('classify:raised', 'is_app_frame(%r) raised %r' % (path, e), witness, replay)
        return
    if form == 'list' and (custom['IN_APP_INCLUDE'] != inc or custom['IN_APP_EXCLUDE'] != exc):
        out.violation('classify:caller-list-changed', 'classifying a file changed the lists given in code: include %r '
                                                      '(was %r), exclude %r (was %r)' % (
                                                          custom['IN_APP_INCLUDE'], inc, custom['IN_APP_EXCLUDE'], exc),
                      witness, replay)
        return
    got_short = path[len(match):] if match is not None else path
    if bool(got_app) != app:
        mech = 'classify:exclusion-did-not-win' if (not app and any(path.startswith(p) for p in exc)) else \
            'classify:app-flag'
        out.violation(mech, '%s classified app=%r, the rule says %r' % (path, got_app, app), witness, replay)
        return
    if got_short not in shorts:
        out.violation('classify:short-path', '%s shortened to %r, the rule allows %r' % (path, got_short, sorted(shorts)),
                      witness, replay)
        return
    # the shortened name as the snapshot's frames carry it (the collector's own reading of the same classification)
    try:
        from deep.processor.frame_collector import FrameCollector

        class _Source:
            def is_app_frame(self, filename):
                return service.is_app_frame(filename)

        reader = FrameCollector(_Source(), None)
    except BaseException:  # noqa - constructed differently on this tree: the frames are still compared by C02
        reader = None
    if reader is not None:
        try:
            frame_short, frame_app = reader.parse_short_name(path)
        except BaseException as e:  # noqa
            out.violation('classify:raised', 'parse_short_name(%r) raised %r' % (path, e), witness, replay)
            return
        out.count('frame_short_names_compared')
        if frame_short not in shorts or bool(frame_app) != app:
            out.violation('classify:short-path', '%s: a frame of this file is shortened to %r (app=%r), the rule allows %r '
                          '(app=%r)' % (path, frame_short, frame_app, sorted(shorts), app), witness, replay)
            return
    out.count('classifications')
    if any(path.startswith(p) for p in inc + exc + [app_root]):
        out.count('prefix_matched')
    if any(path.startswith(p) for p in exc) and any(path.startswith(p) for p in inc + [app_root]):
        out.count('exclusion_won')
    out.case(witness, nontrivial=any(path.startswith(p) for p in inc + exc + [app_root]), sample=dict(
        witness, app_frame=got_app, short_path=got_short))


def case_reclassify(seed, out, spec):
    """The same source file classified under several configurations in one process (agent restarted with another
    app root / include / exclude): every snapshot must follow the configuration it was taken under."""
    import os
    from vf import hostframe
    from vf.rig import Rig, line_trigger
    from vf.snaprig import Workdir
    r = Rng('c19r', seed)
    wd = Workdir('c19')
    try:
        via_dots = r.chance(0.4)
        if via_dots:
            # a module found through a path entry like 'src/../lib': its code objects keep the '..' in their file
            # name. Whether a prefix is compared with the name as it stands or with its normal form is not spelled out;
            # either reading is accepted, as long as flag and short path follow the same one.
            os.makedirs(os.path.join(wd.path, 'src'))
            os.makedirs(os.path.join(wd.path, 'lib'))
            real = hostframe.write_host(os.path.join(wd.path, 'lib'), ['a'], depth=2, tag='rc')
            path = os.path.join(wd.path, 'src', '..', 'lib', os.path.basename(real))
            out.count('hosts_with_unnormalised_file_names')
        else:
            path = hostframe.write_host(wd.path, ['a'], depth=2, tag='rc')
        base = os.path.basename(path)
        mod = hostframe.load(path)
        line = hostframe.markers(path)['hit']
        parent = os.path.dirname(wd.path)
        seen = []
        for k in range(r.randrange(3, 6)):
            mode = r.pick(['root', 'parent', 'include', 'exclude', 'none', 'exclude_in_root'] +
                          (['libroot', 'libroot', 'lib_excluded'] if via_dots else []))
            app_root, inc, exc = '/nonexistent', [], []
            if mode == 'libroot':
                app_root = os.path.join(wd.path, 'lib')
            elif mode == 'lib_excluded':
                app_root, exc = wd.path, [os.path.join(wd.path, 'lib')]
            if mode == 'root':
                app_root = wd.path
            elif mode == 'parent':
                app_root = parent
            elif mode == 'include':
                inc = [wd.path + os.sep]
            elif mode == 'exclude':
                exc = [wd.path]
            elif mode == 'exclude_in_root':
                app_root, exc = parent, [wd.path]
            rig = Rig(custom={'APP_ROOT': app_root, 'IN_APP_INCLUDE': list(inc), 'IN_APP_EXCLUDE': list(exc)},
                      host_dir=wd.path)
            rig.install([line_trigger('t%d' % k, base, line, {}, [])])
            rig.run(mod.entry, 1)
            snaps = [p.snapshot for p in rig.push.pushed]
            rig.cleanup()
            if not snaps:
                out.violation('classify:no-snapshot', 'no snapshot under configuration %d (%s)' % (k, mode),
                              {'sequence': seen + [mode]}, replay_spec(spec, seed))
                return
            fr = snaps[0].frames[0]
            app, shorts = app_rule_for(app_root, inc, exc)(path)
            seen.append(mode)
            ok = bool(fr.app_frame) == app and fr.short_path in shorts
            if not ok and via_dots:
                app, shorts = app_rule_for(app_root, inc, exc)(os.path.normpath(path))
                ok = bool(fr.app_frame) == app and fr.short_path in shorts
            if not ok:
                out.violation('classify:unnormalised-file-name' if via_dots and mode in ('libroot', 'lib_excluded')
                              else 'classify:stale-across-configurations',
                              'configuration %d (%s) after %s: frame flagged app=%r short=%r, its configuration says '
                              'app=%r short in %r' % (k, mode, seen[:-1], fr.app_frame, fr.short_path, app,
                                                      sorted(shorts)), {'sequence': seen}, replay_spec(spec, seed))
                return
            out.count('reclassified_snapshots')
        out.case({'seq': seen}, nontrivial=len(set(seen)) > 1, sample={'configurations_in_one_process': seen})
    finally:
        wd.close()


def run_shard(spec, out):
    for seed in spec_seeds(spec):
        if spec['kind'] == 'precedence':
            case_precedence(seed, out, spec)
        elif spec['kind'] == 'behaviour':
            case_behaviour(seed, out, spec)
        elif spec['kind'] == 'reclassify':
            case_reclassify(seed, out, spec)
        elif spec['kind'] == 'twostarts':
            case_twostarts(seed, out, spec)
        else:
            case_classify(seed, out, spec)
