"""C08 Wire fidelity: the service receives every snapshot field intact, with auth.

Monitor: an independent field-by-field walker compares each source EventSnapshot with the protobuf message produced
by convert_snapshot, with the message parsed back from its bytes, and with the request as recorded at a fake channel
behind the real PushService (thorough: as received by the loopback gRPC server). Sources are (a) snapshots the real
collector produced for generated frames incl. hostile values and (b) synthetic snapshots stressing every optional
field and text class. A second monitor reads the metadata of every poll / send request for each auth configuration.
"""
import os
import re
import threading
import time

from vf import clock, fakegrpc, graphs, snapcheck
from vf.rig import line_trigger
from vf.snaprig import FrameCase, Workdir
from vf.util import Rng, split_seeds, spec_seeds, replay_spec, short

ID = 'C08'
LEVEL = 'exploration'
TECHNIQUE = 'runtime monitor: independent field walker (source snapshot vs converted / re-parsed / received message) + request metadata recorder'
RULE = ('(a) collector-produced snapshots of generated frames (friendly + hostile values, watches, log messages, all '
        'frame types); (b) synthetic snapshots: text from ascii / non-BMP / control / lone-surrogate classes in every '
        'string field, tables of 0..5000 entries, children with modifiers and original names, error and good watches '
        'of all four sources, optional fields unset, attribute and resource values of str/bool/int/float/bytes/'
        'sequence kinds, int subclasses; (c) auth none / basic (credentials over the whole base64 alphabet) / basic without password / custom provider (repeated metadata keys), metadata on first and '
        'later poll and send calls; non-trivial = message compared field by field; distinct by canonical case')
ASSUMPTIONS = ['integers in attributes stay within int64', 'code points that UTF-8 cannot encode may be replaced by a '
               'short placeholder; every other character must arrive unchanged']
RULE += "; tracepoint arguments given as None; attribute values that are equal to one another but differ in type (True / 1 / 1.0), falsy values (0, 0.0, False, '')"
REQUIRE = {'tracepoint_arguments_given_as_none': 10, 'clock_set_back_cases': 10, 'tracepoint_arguments_given_as_numbers': 30, 'messages_compared': 800, 'fields_compared': 20000, 'collector_snapshots': 300, 'surrogate_cases': 40,
           'sequence_attribute_cases': 40, 'auth_sessions': 30, 'requests_with_metadata_checked': 100,
           'hostile_provider_sessions': 5}
import enum  # noqa: E402


class HttpStatus(enum.IntEnum):
    OK = 200
    NOT_FOUND = 404


SURR = re.compile('[\ud800-\udfff]')


def plan(tier, seed):
    n = {'quick': 1, 'thorough': 15}[tier]
    specs = split_seeds('k%s' % seed, 480 * n, 6, 'collector') + split_seeds('y%s' % seed, 640 * n, 8, 'synthetic') + \
        split_seeds('a%s' % seed, 48 * n, 2, 'auth')
    if tier == 'thorough':
        specs += split_seeds('w%s' % seed, 24, 8, 'wire')
    return specs


# ------------------------------------------------------------------ walker
class Cmp:
    def __init__(self):
        self.problems = []
        self.fields = 0

    def eq(self, what, got, want):
        self.fields += 1
        if got != want and len(self.problems) < 8:
            self.problems.append(('wire:field-changed', '%s: sent %r, collected %r' % (what, _s(got), _s(want))))

    def text(self, what, got, want):
        """Text equality, tolerating a placeholder for code points UTF-8 cannot carry."""
        self.fields += 1
        if want is None:
            want = ''
        if got == want:
            return
        if SURR.search(want):
            parts = SURR.split(want)
            rx = '.{0,12}?'.join(re.escape(p) for p in parts)
            if re.fullmatch(rx, got, re.DOTALL):
                return
        if len(self.problems) < 8:
            self.problems.append(('wire:field-changed', '%s: sent %r, collected %r' % (what, _s(got), _s(want))))


def _s(v):
    s = repr(v)
    return s if len(s) < 90 else s[:90] + '...'


def any_value(v):
    which = v.WhichOneof('value')
    if which is None:
        return ('unset', None)
    if which == 'array_value':
        return ('array', [any_value(x) for x in v.array_value.values])
    if which == 'kvlist_value':
        return ('kv', {kv.key: any_value(kv.value) for kv in v.kvlist_value.values})
    return (which, getattr(v, which))


def expect_value(v):
    if isinstance(v, bool):
        return ('bool_value', v)
    if isinstance(v, str):
        return ('string_value', v)
    if isinstance(v, int):
        return ('int_value', v)
    if isinstance(v, float):
        return ('double_value', v)
    if isinstance(v, bytes):
        return ('bytes_value', v)
    if isinstance(v, (list, tuple)):
        return ('array', [expect_value(x) for x in v])
    if isinstance(v, dict):
        return ('kv', {k: expect_value(x) for k, x in v.items()})
    return ('unset', None)


def walk(snap, msg, c):
    """Compare message `msg` with source snapshot `snap` field by field (does not use the repo's converters)."""
    c.eq('ID', msg.ID, snap.id.to_bytes(16, 'big'))
    tp = snap.tracepoint
    c.text('tracepoint.ID', msg.tracepoint.ID, tp.id)
    c.text('tracepoint.path', msg.tracepoint.path, tp.path)
    c.eq('tracepoint.line_number', msg.tracepoint.line_number, tp.line_no)
    # (the wire's argument map is text to text: values given as numbers in code travel in their text form)
    c.eq('tracepoint.args', dict(msg.tracepoint.args), {k: v if type(v) is str else str(v) for k, v in tp.args.items()})
    c.eq('tracepoint.watches', list(msg.tracepoint.watches), list(tp.watches))
    c.eq('ts_nanos', msg.ts_nanos, snap.ts_nanos)
    c.eq('duration_nanos', msg.duration_nanos, snap.duration_nanos)
    c.eq('len(frames)', len(msg.frames), len(snap.frames))
    for i, (mf, sf) in enumerate(zip(msg.frames, snap.frames)):
        c.text('frame[%d].file_name' % i, mf.file_name, sf.file_name)
        c.text('frame[%d].short_path' % i, mf.short_path, sf.short_path)
        c.text('frame[%d].method_name' % i, mf.method_name, sf.method_name)
        c.eq('frame[%d].line_number' % i, mf.line_number, sf.line_number)
        c.text('frame[%d].class_name' % i, mf.class_name,
               sf.class_name if sf.class_name is None or type(sf.class_name) is str else str(sf.class_name))
        c.eq('frame[%d].app_frame' % i, mf.app_frame, bool(sf.app_frame))
        c.eq('frame[%d].is_async' % i, mf.is_async, bool(sf.is_async))
        c.eq('frame[%d].column_number' % i, mf.column_number, sf.column_number or 0)
        c.text('frame[%d].transpiled_file_name' % i, mf.transpiled_file_name, sf.transpiled_file_name)
        c.eq('frame[%d].transpiled_line_number' % i, mf.transpiled_line_number, sf.transpiled_line_number or 0)
        var_ids(c, 'frame[%d].variables' % i, mf.variables, sf.variables)
    c.eq('var_lookup keys', sorted(msg.var_lookup.keys()), sorted(snap.var_lookup.keys()))
    for k, sv in snap.var_lookup.items():
        if k not in msg.var_lookup:
            continue
        mv = msg.var_lookup[k]
        c.text('var[%s].type' % k, mv.type, sv.type)
        c.text('var[%s].value' % k, mv.value, sv.value)
        c.text('var[%s].hash' % k, mv.hash, sv.hash)
        c.eq('var[%s].truncated' % k, mv.truncated, bool(sv.truncated))
        var_ids(c, 'var[%s].children' % k, mv.children, sv.children)
    c.eq('len(watches)', len(msg.watches), len(snap.watches))
    from deepproto.proto.tracepoint.v1.tracepoint_pb2 import WatchSource
    for i, (mw, sw) in enumerate(zip(msg.watches, snap.watches)):
        c.text('watch[%d].expression' % i, mw.expression, sw.expression)
        c.eq('watch[%d].source' % i, WatchSource.Name(mw.source), sw.source)
        which = mw.WhichOneof('result')
        if sw.error is not None and sw.result is None:
            c.eq('watch[%d] carries an error' % i, which, 'error_result')
            c.text('watch[%d].error' % i, mw.error_result, sw.error)
        elif sw.result is not None:
            c.eq('watch[%d] carries a result' % i, which, 'good_result')
            var_ids(c, 'watch[%d].result' % i, [mw.good_result], [sw.result])
    kv(c, 'attributes', msg.attributes, dict(snap.attributes.items()))
    kv(c, 'resource', msg.resource, dict(snap.resource.attributes.items()))
    if snap.log_msg is None:
        c.eq('log_msg unset', msg.HasField('log_msg') and msg.log_msg != '', False)
    else:
        c.text('log_msg', msg.log_msg, snap.log_msg)


def var_ids(c, what, got, want):
    c.eq('len(%s)' % what, len(got), len(want))
    for j, (g, w) in enumerate(zip(got, want)):
        c.text('%s[%d].ID' % (what, j), g.ID, w.vid)
        c.text('%s[%d].name' % (what, j), g.name, w.name)
        c.eq('%s[%d].modifiers' % (what, j), list(g.modifiers), list(w.modifiers or []))
        c.text('%s[%d].original_name' % (what, j), g.original_name, w.original_name)


def value_matches(c, got, v):
    """got = any_value(...) of the message; v = the python value. Text that UTF-8 cannot carry may arrive with a
    placeholder, an integer protobuf's 64 bits cannot hold may arrive as its decimal text, None inside a sequence as an
    unset value - but the entry has to arrive."""
    if isinstance(v, str) and not isinstance(v, bool):
        if got[0] != 'string_value':
            return False
        probe = Cmp()
        probe.text('x', got[1], v)
        return not probe.problems
    if isinstance(v, int) and not isinstance(v, bool) and not (-2 ** 63 <= v < 2 ** 63):
        return got in (('string_value', str(v)), ('double_value', float(v)))
    if v is None:
        return got[0] == 'unset'
    if isinstance(v, (list, tuple)):
        return got[0] == 'array' and len(got[1]) == len(v) and all(value_matches(c, g_, v_) for g_, v_ in zip(got[1], v))
    return got == expect_value(v)


def kv(c, what, got, want):
    g = {}
    for x in got:
        g[x.key] = any_value(x.value)
    want_keys = {}
    for k, v in want.items():
        want_keys[k] = v
    c.fields += 1
    if len(g) != len(want_keys) and len(c.problems) < 8:
        c.problems.append(('wire:field-changed', '%s: %d entries sent, %d collected' % (what, len(g), len(want_keys))))
    for k, v in want.items():
        probe = Cmp()
        hit = [gk for gk in g if gk == k or (SURR.search(k) and not probe.text('k', gk, k) and not probe.problems)]
        c.fields += 1
        if not hit:
            if len(c.problems) < 8:
                c.problems.append(('wire:field-changed', '%s[%s] was collected but not sent' % (what, _s(k))))
            continue
        if not value_matches(c, g[hit[0]], v) and len(c.problems) < 8:
            c.problems.append(('wire:field-changed', '%s[%s]: sent %r, collected %r' % (what, _s(k), _s(g[hit[0]]), _s(v))))


def check_message(snap, out, witness, replay, via_channel=None):
    """convert -> compare; bytes round trip -> compare. Returns number of fields compared (0 on failure)."""
    from deep.push import convert_snapshot
    try:
        msg = convert_snapshot(snap)
    except BaseException as e:  # noqa
        out.violation('wire:conversion-raised', 'convert_snapshot raised %r' % (e,), witness, replay)
        return 0
    if msg is None:
        out.violation('wire:snapshot-dropped', 'convert_snapshot returned None: the snapshot is never sent', witness, replay)
        return 0
    c = Cmp()
    walk(snap, msg, c)
    try:
        data = msg.SerializeToString()
        back = type(msg).FromString(data)
    except BaseException as e:  # noqa
        out.violation('wire:not-serialisable', 'message does not survive serialisation: %r' % (e,), witness, replay)
        return 0
    if back != msg:
        c.problems.append(('wire:round-trip', 'message parsed back from its bytes differs'))
    walk(snap, back, c)
    for mech, what in c.problems[:4]:
        out.violation(mech, what, witness, replay)
    return c.fields


# ------------------------------------------------------------------ (a) collector snapshots
def case_collector(seed, out, spec, wd):
    r = Rng('c08k', seed)
    nloc = r.randrange(1, 6)
    names = r.sample(['alpha', 'beta', '_prot', 'items', 'cfg', 'obj'], nloc)
    gg = graphs.GraphGen(r, hostile_p=0.25, max_depth=3, width=3)
    values = [gg.value() for _ in names]
    args = {'frame_type': r.pick(['single_frame', 'all_frame', 'no_frame'])}
    if r.chance(0.4):
        args['log_msg'] = 'msg {%s} ünï' % names[0]
    if r.chance(0.3):
        # limits as an application registering the tracepoint in code writes them: numbers
        args['fire_count'] = r.pick([3, -1, 1])
        args['fire_period'] = r.pick([0, 0, 1000])
        out.count('tracepoint_arguments_given_as_numbers')
    elif r.chance(0.2):
        # "use the default", as code that passes an optional setting through writes it: None (the limiter reads it as
        # its default; on the wire, where a map value cannot be unset, it travels in its text form like the numbers)
        args[r.pick(['fire_count', 'fire_period', 'stack_type'])] = None
        out.count('tracepoint_arguments_given_as_none')
    watches = r.sample(['%s' % names[0], 'len(str(%s))' % names[-1], '1/0', 'nope', '"\\ud800x"', '[%s]' % names[0]],
                       r.randrange(0, 4))
    case = FrameCase(wd, names, values, depth=r.pick([1, 2, 4]), method=r.chance(0.3))
    trig = line_trigger('tp-%d' % r.randrange(999), case.base, case.line, args, watches)
    hung, _ = case.run([trig], lambda ev, frame, stack, new: None)
    replay = replay_spec(spec, seed)
    witness = {'locals': [snapcheck.type_name(v) for v in values], 'kinds': sorted(gg.kinds), 'args': args,
               'watches': watches}
    if hung:
        out.inconc('C08 host hung')
        return
    total = 0
    for rec in case.rig.push.pushed:
        total += check_message(rec.snapshot, out, witness, replay)
        out.count('collector_snapshots')
        out.count('messages_compared')
    out.count('fields_compared', total)
    out.case({'n': names, 't': witness['locals'], 'k': witness['kinds'], 'a': args, 'w': watches},
             nontrivial=total > 0, sample=dict(witness, fields_compared=total))


# ------------------------------------------------------------------ (b) synthetic snapshots
TEXTS = ['', 'plain', 'with space', 'ünïcödé', '日本語', '\U0001F600\U0001F680', 'nul\x00byte', 'tab\tnl\n', '\ud800',
         'lead\udfff', '\udc80\udc81mid\ud800', 'x' * 2000, '{"json": 1}', '%s %d', '‮rtl', 'á']


def gen_text(r, surrogate_ok=True):
    t = r.pick(TEXTS)
    while not surrogate_ok and SURR.search(t):
        t = r.pick(TEXTS)
    return t


def synth(r):
    from deep.api.resource import Resource
    from deep.api.tracepoint import TracePointConfig, EventSnapshot, StackFrame, Variable, VariableId, WatchResult
    flags = set()
    nvars = r.pick([0, 1, 3, 10, 50, 5000 if r.chance(0.03) else 20])
    lookup = {}
    for i in range(nvars):
        kids = []
        for j in range(r.pick([0, 0, 1, 3])):
            kids.append(VariableId(str(r.randrange(1, nvars + 1)), gen_text(r), r.pick([None, [], ['private'],
                                                                                        ['protected']]),
                                   r.pick([None, None, '_Cls' + gen_text(r, False)])))
        val = gen_text(r)
        lookup[str(i + 1)] = Variable(r.pick(['str', 'int', 'list', 'Ünï']), val, str(r.randrange(10 ** 12)), kids,
                                      r.pick([False, False, True]))
        if SURR.search(val):
            flags.add('surrogate')
    frames = []
    for i in range(r.pick([0, 1, 2, 6])):
        vids = [VariableId(str(r.randrange(1, max(2, nvars + 1))), gen_text(r, False)) for _ in range(r.randrange(0, 4))]
        frames.append(StackFrame('/app/%s.py' % gen_text(r)[:10], r.pick(['/s.py', '', '\udcfe/s.py']), gen_text(r),
                                 r.randrange(0, 5000), vids, r.pick([None, 'Cls', 'Ünï', 'C\udc80', 'Cls', 5]),
                                 is_async=r.chance(0.2), column_number=r.pick([0, 0, 7]),
                                 transpiled_file_name=r.pick([None, None, 't.ts']),
                                 transpiled_line_number=r.pick([0, 3]), app_frame=r.chance(0.5)))
    args = {gen_text(r, False)[:8] or 'k': r.pick([gen_text(r, False), gen_text(r, False), 3, -1, 2.5, True])
            for _ in range(r.randrange(0, 3))}
    tp = TracePointConfig('tp-' + gen_text(r, False)[:6], r.pick(['f.py', 'dir/ünï.py']), r.pick([1, 42, 0, -1]), args,
                          [gen_text(r, False) for _ in range(r.randrange(0, 3))], [])
    res_attrs = {'service.name': gen_text(r) or 's', 'n': r.pick([r.randrange(100), 2 ** 65, 2 ** 63, 2 ** 63 - 1, -2 ** 63, 2 ** 64 - 1]), 'f': 1.5, 'b': r.chance(0.5)}
    if r.chance(0.4):
        res_attrs['seq'] = r.pick([['a', 'b'], (1, 2, 3), [True, False], [1.5]])
        flags.add('sequence')
    # (a start stamp ahead of the completion time: the wall clock was set back while the snapshot was being taken)
    ts = r.randrange(1, 1_700_000_000_000_000_000) if r.chance(0.9) else clock.real_ns() + r.randrange(1, 10 ** 10)
    if ts > clock.real_ns():
        flags.add('clock_set_back')
    snap = EventSnapshot(tp, ts, Resource(res_attrs), frames, lookup)
    for _ in range(r.randrange(0, 5)):
        src = r.pick(['WATCH', 'LOG', 'METRIC', 'CAPTURE'])
        if r.chance(0.4):
            err = gen_text(r)
            snap.add_watch_result(WatchResult(src, gen_text(r, False), None, err))
            if SURR.search(err):
                flags.add('surrogate')
        else:
            snap.add_watch_result(WatchResult(src, gen_text(r, False), VariableId(str(r.randrange(1, 9)), gen_text(r))))
    for _ in range(r.randrange(0, 5)):
        key = r.pick(['context', 'tracepoint', 'thread_name', 'k1', 'ünï'])
        val = r.pick([gen_text(r, False), r.randrange(-2 ** 62, 2 ** 62), True, 2.5, b'raw-bytes', ['x', 'y'], (1, 2),
                      [0.5, 1.5], [True], HttpStatus.NOT_FOUND, HttpStatus.OK, False, 0,
                      # values that are equal to one another and differ in type (each keeps its own wire type), and
                      # values that are falsy (they are values all the same)
                      1, 1.0, 0.0, True, '', [1.0, 0.0], [1, 0],
                      # values the attribute container accepts and the wire format has no direct place for
                      gen_text(r), ('a', None, 'b'), 2 ** 64, -2 ** 70, [gen_text(r), 'z'],
                      # either side of what a 64 bit signed field can hold
                      r.pick([2 ** 63 - 1, 2 ** 63, -2 ** 63, -2 ** 63 - 1, 2 ** 64 - 1, -2 ** 64 + 1]),
                      [1, r.pick([2 ** 63, 2 ** 64 - 1, -2 ** 63 - 1])]])
        if isinstance(val, str) and SURR.search(val):
            flags.add('surrogate')
        if isinstance(val, (list, tuple)):
            flags.add('sequence')
        snap.attributes[key] = val
    if r.chance(0.5):
        snap.log_msg = '[deep] ' + gen_text(r)
        if SURR.search(snap.log_msg):
            flags.add('surrogate')
    if r.chance(0.8):
        snap.complete()
    return snap, flags


def case_synthetic(seed, out, spec):
    r = Rng('c08y', seed)
    snap, flags = synth(r)
    replay = replay_spec(spec, seed)
    witness = {'vars': len(snap.var_lookup), 'frames': len(snap.frames), 'watches': len(snap.watches),
               'attributes': short(dict(snap.attributes.items()), 300), 'flags': sorted(flags),
               'log_msg': short(snap.log_msg, 60)}
    n = check_message(snap, out, witness, replay)
    # and through the real delivery path over a fake channel
    if r.chance(0.3) and n:
        from deep.push import PushService
        from deep.task import TaskHandler
        grpc = fakegrpc.FakeGrpc()
        th = TaskHandler()
        PushService(grpc, th).push_snapshot(snap)
        try:
            th.flush()
        except BaseException:  # noqa
            pass
        try:
            th._pool.shutdown(wait=False)
        except BaseException:  # noqa
            pass
        sent = [c_ for c_ in grpc.channel.calls if c_[0].endswith('/send')]
        if len(sent) != 1:
            out.violation('wire:snapshot-dropped', 'handed to PushService: %d send requests at the channel' % len(sent),
                          witness, replay)
        else:
            c = Cmp()
            walk(snap, sent[0][1], c)
            for mech, what in c.problems[:3]:
                out.violation(mech, 'at the channel: ' + what, witness, replay)
            n += c.fields
    out.count('messages_compared')
    out.count('fields_compared', n)
    if 'surrogate' in flags:
        out.count('surrogate_cases')
    if 'sequence' in flags:
        out.count('sequence_attribute_cases')
    if 'clock_set_back' in flags:
        out.count('clock_set_back_cases')
    out.case({'seed': seed, 'w': witness}, nontrivial=n > 0, sample=witness)


# ------------------------------------------------------------------ (c) auth metadata
class CustomProvider:
    """Becomes deep.api.auth.AuthProvider subclass lazily (imported by name from the config)."""


def _custom_provider_class():
    from deep.api.auth import AuthProvider

    class VfProvider(AuthProvider):
        calls = 0

        def provide(self):
            type(self).calls += 1
            return [('x-api-key', 'key-%s' % self._config.MY_TENANT), ('x-tenant', str(self._config.MY_TENANT)),
                    ('x-scope', 'team-a'), ('x-scope', 'team-b')]

    return VfProvider


PROVIDER_PLAN = {'fail_first': 0, 'gate': None, 'entered': None}


def _flaky_provider_class():
    from deep.api.auth import AuthProvider

    class VfFlakyProvider(AuthProvider):
        """Fails its first N calls (a token endpoint that is briefly down), may be slow on a call."""
        calls = 0

        def provide(self):
            cls = type(self)
            cls.calls += 1
            n = cls.calls
            if PROVIDER_PLAN['entered'] is not None:
                PROVIDER_PLAN['entered'].set()
            if PROVIDER_PLAN['gate'] is not None and n == 1:
                PROVIDER_PLAN['gate'].wait(3)
            if n <= PROVIDER_PLAN['fail_first']:
                raise RuntimeError('token endpoint unavailable (call %d)' % n)
            return [('x-api-key', 'key-%s' % self._config.MY_TENANT), ('x-tenant', str(self._config.MY_TENANT)),
                    ('x-scope', 'team-a'), ('x-scope', 'team-b')]

    return VfFlakyProvider


def __getattr__(name):
    if name == 'VfProvider':
        cls = _custom_provider_class()
        globals()['VfProvider'] = cls
        return cls
    if name == 'VfFlakyProvider':
        cls = _flaky_provider_class()
        globals()['VfFlakyProvider'] = cls
        return cls
    raise AttributeError(name)


def expected_metadata(mode, cfg):
    import base64
    if mode == 'none':
        return []
    if mode == 'basic':
        token = base64.b64encode((cfg['SERVICE_USERNAME'] + ':' + cfg['SERVICE_PASSWORD']).encode('utf-8')).decode('utf-8')
        return [('authorization', 'Basic%20' + token)]
    if mode == 'basic_nopass':
        return []
    return [('x-api-key', 'key-%s' % cfg['MY_TENANT']), ('x-tenant', str(cfg['MY_TENANT'])), ('x-scope', 'team-a'),
            ('x-scope', 'team-b')]


def case_auth(seed, out, spec):
    from deep.api.resource import Resource
    from deep.config import ConfigService
    from deep.grpc import GRPCService
    from deep.poll import LongPoll
    from deep.push import PushService
    from deep.task import TaskHandler
    from deepproto.proto.poll.v1.poll_pb2 import PollResponse, ResponseType
    r = Rng('c08a', seed)
    mode = r.pick(['none', 'basic', 'basic', 'basic_nopass', 'custom', 'empty', 'flaky', 'flaky', 'slow'])
    if mode in ('flaky', 'slow'):
        return case_auth_hostile(seed, out, spec, r, mode)
    cfg = {'SERVICE_URL': '127.0.0.1:1', 'SERVICE_SECURE': 'False'}
    if mode in ('basic', 'basic_nopass'):
        cfg['SERVICE_AUTH_PROVIDER'] = 'deep.api.auth.BasicAuthProvider'
        idx = int(str(seed).split(':')[-1])
        cfg['SERVICE_USERNAME'] = ['bob', 'ünï', 'a:b', 'user@example.com', ''][idx % 5]
        if mode == 'basic':
            cfg['SERVICE_PASSWORD'] = ['pw', '', 'p w', 'päss', 'p?ss>word~', '>>>???'][(idx // 5) % 6]
            if r.chance(0.4):
                # any text: the token's base64 form then uses its whole alphabet (+ and / included)
                alphabet = 'abcXYZ019 ?>~<|:;/+-_=.,!"$%&ÿü€'
                cfg['SERVICE_PASSWORD'] = ''.join(r.pick(alphabet) for _ in range(r.randrange(0, 14)))
                if r.chance(0.5):
                    cfg['SERVICE_USERNAME'] = ''.join(r.pick(alphabet.replace(':', '')) for _ in range(r.randrange(1, 9)))
    elif mode == 'custom':
        cfg['SERVICE_AUTH_PROVIDER'] = 'vf.props.c08.VfProvider'
        cfg['MY_TENANT'] = r.randrange(1000)
    elif mode == 'empty':
        cfg['SERVICE_AUTH_PROVIDER'] = ''
    config = ConfigService(cfg)
    config.resource = Resource.create()
    replay = replay_spec(spec, seed)
    witness = {'mode': mode, 'config': {k: v for k, v in cfg.items() if k.startswith(('SERVICE_A', 'SERVICE_U', 'SERVICE_P', 'MY_'))}}
    try:
        grpc = GRPCService(config)
        grpc.channel = fakegrpc.FakeChannel()
    except BaseException as e:  # noqa
        out.violation('auth:service-construction-raised', 'GRPCService raised %r' % (e,), witness, replay)
        return
    grpc.channel.on_call = lambda method, request: PollResponse(
        ts_nanos=1, current_hash='', response_type=ResponseType.NO_CHANGE) if method.endswith('/poll') else None
    th = TaskHandler()
    config.set_task_handler(th)
    poll = LongPoll(config, grpc)
    push = PushService(grpc, th)
    want = expected_metadata('none' if mode == 'empty' else mode, cfg)
    nreq = 0
    try:
        order = [r.pick(['poll', 'send']) for _ in range(r.randrange(2, 7))]
        for op in order:
            if op == 'poll':
                poll.poll()
            else:
                snap, _ = synth(Rng('a', seed, nreq))
                push.push_snapshot(snap)
            nreq += 1
        th.flush()
    except BaseException as e:  # noqa
        out.violation('auth:request-raised', '%s session raised %r' % (mode, e), witness, replay)
        _close(th)
        return
    _close(th)
    calls = grpc.channel.calls
    polls = order.count('poll')
    seen_polls = sum(1 for c_ in calls if c_[0].endswith('/poll'))
    if seen_polls != polls:
        out.violation('auth:request-missing', '%d polls issued, %d seen at the channel' % (polls, seen_polls), witness, replay)
    for i, (method, request, md, tid, t) in enumerate(calls):
        got = [tuple(x) for x in (md or [])]
        if sorted(got) != sorted(want):
            out.violation('auth:metadata-missing' if not got else 'auth:metadata-wrong',
                          'request %d (%s) carried metadata %r, the provider supplies %r' % (
                              i, method.rsplit('/', 1)[-1], got, want), witness, replay)
            break
        out.count('requests_with_metadata_checked')
    out.count('auth_sessions')
    out.case({'mode': mode, 'cfg': witness['config'], 'order': order}, nontrivial=True,
             sample={'mode': mode, 'requests': order, 'metadata_expected': want})


def case_auth_hostile(seed, out, spec, r, mode):
    """The provider fails its first calls, or two threads need the metadata while the first provide() is running."""
    import sys
    from deep.api.resource import Resource
    from deep.config import ConfigService
    from deep.grpc import GRPCService
    from deep.poll import LongPoll
    from deepproto.proto.poll.v1.poll_pb2 import PollResponse, ResponseType
    mod = sys.modules[__name__]
    mod.__dict__.pop('VfFlakyProvider', None)   # fresh class (call counter) per case
    tenant = r.randrange(1000)
    cfg = {'SERVICE_URL': '127.0.0.1:1', 'SERVICE_SECURE': 'False', 'MY_TENANT': tenant,
           'SERVICE_AUTH_PROVIDER': 'vf.props.c08.VfFlakyProvider'}
    config = ConfigService(cfg)
    config.resource = Resource.create()
    grpc = GRPCService(config)
    grpc.channel = fakegrpc.FakeChannel()
    grpc.channel.on_call = lambda method, request: PollResponse(ts_nanos=1, current_hash='',
                                                                response_type=ResponseType.NO_CHANGE)
    poll = LongPoll(config, grpc)
    want = [('x-api-key', 'key-%s' % tenant), ('x-tenant', str(tenant)), ('x-scope', 'team-a'), ('x-scope', 'team-b')]
    replay = replay_spec(spec, seed)
    raised = 0
    if mode == 'flaky':
        PROVIDER_PLAN.update(fail_first=r.randrange(1, 3), gate=None, entered=None)
        for i in range(PROVIDER_PLAN['fail_first'] + 3):
            try:
                poll.poll()
            except RuntimeError:
                raised += 1      # the request was not sent: nothing left the process
    else:
        gate, entered = threading.Event(), threading.Event()
        PROVIDER_PLAN.update(fail_first=0, gate=gate, entered=entered)
        t1 = threading.Thread(target=poll.poll)
        t1.start()
        entered.wait(5)          # thread 1 is inside provide()
        t2 = threading.Thread(target=poll.poll)
        t2.start()
        t2.join(0.3)             # thread 2 either waits for the provider too, or has already sent
        gate.set()
        t1.join(10)
        t2.join(10)
        poll.poll()
    PROVIDER_PLAN.update(fail_first=0, gate=None, entered=None)
    witness = {'mode': mode, 'provider_failures': raised, 'requests_sent': len(grpc.channel.calls)}
    for i, (method, request, md, tid, t) in enumerate(grpc.channel.calls):
        got = [tuple(x) for x in (md or [])]
        if sorted(got) != sorted(want):
            out.violation('auth:metadata-missing' if not got else 'auth:metadata-wrong',
                          '%s provider: request %d left without the provider\'s metadata: %r' % (mode, i, got),
                          witness, replay)
            break
        out.count('requests_with_metadata_checked')
    if not grpc.channel.calls:
        out.violation('auth:request-missing', '%s provider: no request was sent at all' % mode, witness, replay)
    out.count('auth_sessions')
    out.count('hostile_provider_sessions')
    out.case({'mode': mode, 'tenant': tenant, 'fail': raised}, nontrivial=True, sample=witness)


def _close(th):
    try:
        th._pool.shutdown(wait=False)
    except BaseException:  # noqa
        pass


# ------------------------------------------------------------------ (d) thorough: real loopback server
def case_wire(seed, out, spec):
    from vf import e2e
    r = Rng('c08w', seed)
    auth = r.pick(['none', 'basic'])
    res = e2e.call_child('vf.props.c08', 'child_wire', {'auth': auth, 'n': r.randrange(2, 6), 'seed': str(seed)},
                         timeout=120)
    replay = replay_spec(spec, seed)
    if res.get('inconclusive'):
        out.inconc('C08 wire: ' + res['inconclusive'])
        return
    if res.get('child_failed'):
        out.violation('wire:session-failed', res.get('stderr', '')[-600:], {'auth': auth}, replay)
        return
    for mech, what in res['problems']:
        out.violation(mech, what, {'auth': auth}, replay)
    out.count('messages_compared', res['messages'])
    out.count('fields_compared', res['fields'])
    out.count('requests_with_metadata_checked', res['requests'])
    out.case({'wire': str(seed)}, nontrivial=res['messages'] > 0, sample={'rig': 'E', 'auth': auth, 'received': res['messages']})


def child_wire(arg):
    import base64
    from deep.config import ConfigService
    from deep.grpc import GRPCService
    from deep.push import PushService
    from deep.task import TaskHandler
    from vf.server import LoopbackServer
    srv = LoopbackServer()
    cfg = srv.config({})
    want = []
    if arg['auth'] == 'basic':
        cfg.update({'SERVICE_AUTH_PROVIDER': 'deep.api.auth.BasicAuthProvider', 'SERVICE_USERNAME': 'u',
                    'SERVICE_PASSWORD': 'p'})
        want = [('authorization', 'Basic%20' + base64.b64encode(b'u:p').decode())]
    config = ConfigService(cfg)
    grpc = GRPCService(config)
    grpc.start()
    th = TaskHandler()
    push = PushService(grpc, th)
    snaps = []
    for i in range(arg['n']):
        s, _ = synth(Rng('w', arg['seed'], i))
        snaps.append(s)
        push.push_snapshot(s)
    th.flush()
    problems = []
    fields = 0
    if not srv.wait_snapshots(len(snaps), 20):
        srv.stop()
        return {'problems': [('wire:snapshot-dropped', '%d of %d snapshots reached the service' % (
            len(srv.snapshots), len(snaps)))], 'messages': len(srv.snapshots), 'fields': 0, 'requests': 0}
    by_id = {s.id.to_bytes(16, 'big'): s for s in snaps}
    for msg, md, t, code in srv.snapshots:
        c = Cmp()
        walk(by_id[msg.ID], msg, c)
        problems.extend(c.problems[:2])
        fields += c.fields
        for k, v in want:
            if (k, v) not in md:
                problems.append(('auth:metadata-missing', 'received send lacks %s' % k))
    srv.stop()
    return {'problems': problems[:6], 'messages': len(snaps), 'fields': fields, 'requests': len(snaps)}


def run_shard(spec, out):
    wd = Workdir('c08')
    try:
        for seed in spec_seeds(spec):
            if spec['kind'] == 'collector':
                case_collector(seed, out, spec, wd.path)
            elif spec['kind'] == 'synthetic':
                case_synthetic(seed, out, spec)
            elif spec['kind'] == 'auth':
                case_auth(seed, out, spec)
            else:
                case_wire(seed, out, spec)
    finally:
        wd.close()
