"""C18 Resource identity: merge precedence, mandatory keys, bounded attribute store.

Monitors: reference model of the bounded attribute container (capacity, oldest-first eviction, dropped counter,
cleaning rules, frozen rejects), icontract class invariant len<=capacity, conservation under thread stress,
resource merge model (precedence, schema rule, operands untouched), Resource.create mandatory keys and
built-in < env < code precedence, and (rig E) the resource actually carried by PollRequest / Snapshot with
plugin-provided attributes merged in plugin order.
"""
import os
import threading
from collections import OrderedDict

from vf.util import Rng, split_seeds, spec_seeds, replay_spec, short

ID = 'C18'
LEVEL = 'exploration'
RULE = ('seeded operation sequences (set/overwrite/delete/merge_in/update/pop/iterate) on containers with capacity '
        '0-8/None and value limits (values incl. enum members and str subclasses, merge_in of another attribute container), resource merge chains with schema-url mixes, env matrices for Resource.create, '
        'end-to-end resource on the wire with generated plugin resource providers, half of the sessions restarting the agent under a changed environment; non-trivial = the sequence '
        'evicted, rejected, truncated or overwrote at least once / the chain had an overlapping key / the wire '
        'resource was observed; distinct by canonical op sequence')
ASSUMPTIONS = ['values are drawn from the classes _clean_attribute distinguishes; str subclasses and exotic Sequence '
               'implementations are not generated',
               'order after overwriting an existing key may be either refreshed or kept (both accepted, consistently)']
REQUIRE = {'attr_ops_checked': 500, 'evictions_seen': 20, 'merges_checked': 50, 'create_checked': 10, 'wire_sessions': 8, 'wire_restarts': 3}


def plan(tier, seed):
    n = {'quick': 1, 'thorough': 12}[tier]
    specs = []
    specs += split_seeds('a%s' % seed, 2400 * n, 8, 'attrs')
    specs += split_seeds('f%s' % seed, 400 * n, 2, 'frozen')
    specs += split_seeds('m%s' % seed, 1200 * n, 3, 'merge')
    specs += split_seeds('c%s' % seed, 300 * n, 2, 'create')
    specs += split_seeds('t%s' % seed, 6 * n, 2, 'threads')
    specs += split_seeds('w%s' % seed, 16 if n == 1 else 6 * n, 4, 'wire')
    return specs


import enum  # noqa: E402


class Level(enum.IntEnum):
    LOW = 1
    HIGH = 404


class Colour(str, enum.Enum):
    RED = 'red'


class Tag(str):
    pass


# ---------------------------------------------------------------- reference model
VALID = (bool, str, bytes, int, float)


def m_clean_value(v, limit):
    if v is None:
        return None
    if isinstance(v, bytes):
        try:
            v = v.decode()
        except UnicodeDecodeError:
            return None
    if limit is not None and isinstance(v, str):
        v = v[:limit]
    return v


def m_clean(key, value, limit):
    """Reference cleaning. Returns (ok, cleaned)."""
    if not (isinstance(key, str) and key):
        return False, None
    if isinstance(value, VALID):
        c = m_clean_value(value, limit)
        return (c is not None), c
    if isinstance(value, (list, tuple)):
        first = None
        out = []
        for e in value:
            if e is not None and not isinstance(e, VALID):
                return False, None
            c = m_clean_value(e, limit)
            if c is None:
                out.append(None)
                continue
            if first is None:
                first = type(c)
            elif type(c) is not first:
                return False, None
            out.append(c)
        return True, tuple(out)
    return False, None


class Model:
    def __init__(self, cap, limit, refresh):
        self.cap, self.limit, self.refresh = cap, limit, refresh
        self.d = OrderedDict()
        self.dropped = 0
        self.flags = set()

    def set(self, k, v, valid_hint):
        if self.cap == 0:
            self.dropped += 1
            return
        ok, c = m_clean(k, v, self.limit)
        if not ok:
            self.flags.add('rejected')
            return
        if isinstance(c, str) and isinstance(v, (str, bytes)) and self.limit is not None and len(c) == self.limit:
            self.flags.add('truncated')
        if k in self.d:
            self.flags.add('overwrote')
            if self.refresh:
                del self.d[k]
        elif self.cap is not None and len(self.d) == self.cap:
            self.d.popitem(last=False)
            self.dropped += 1
            self.flags.add('evicted')
        self.d[k] = c

    def delete(self, k):
        del self.d[k]

    def state(self):
        return list(self.d.items()), self.dropped


KEYS = ['a', 'b', 'c', 'd', 'e', 'f', 'g', 'h', 'k.1', 'k.2', 'svc', 'x' * 40]
BAD_KEYS = ['', None, 3, ('t',), b'k']


def gen_value(r, valid_only=False):
    c = r.randrange(14 if not valid_only else 8)
    if c == 0:
        return r.pick([True, False])
    if c == 1:
        return r.pick(['', 'v', 'value-%d' % r.randrange(50), 'é' * r.randrange(1, 30), 'z' * r.randrange(0, 300)])
    if c == 2:
        return r.pick([b'', b'bytes', 'üñí'.encode('utf-8') * r.randrange(1, 6), b'q' * r.randrange(0, 200)])
    if c == 3:
        return r.pick([0, 1, -5, 2 ** 40, r.randrange(1000)])
    if c == 4:
        return r.pick([0.0, 1.5, -2.25, 1e300])
    if c == 5:
        t = r.randrange(4)
        n = r.randrange(0, 5)
        if t == 0:
            return [r.pick(['s', 'tt', 'u' * 50]) for _ in range(n)]
        if t == 1:
            return tuple(r.randrange(9) for _ in range(n))
        if t == 2:
            return [r.pick([1.0, 2.5]) for _ in range(n)]
        return [r.pick([True, False]) for _ in range(n)]
    if c == 6:
        return [r.pick(['s', None, b'by']) for _ in range(r.randrange(1, 5))]
    if c == 7:
        # values whose type is a subclass of a primitive one (enum members, str subclasses) are values of that kind
        return r.pick(['plain', 7, 2.5, Level.HIGH, Colour.RED, Tag('tagged-%d' % r.randrange(9)), Tag('t' * 80)])
    # --- invalid / rejected classes
    if c == 8:
        return None
    if c == 9:
        return {'d': 1}
    if c == 10:
        return r.pick([[1, 'a'], [True, 1], ['a', 2.0], (1.0, 1), [1, True], (0, False, 2), [2, 2.5], [b'x', 1]])
    if c == 11:
        return r.pick([b'\xff\xfe', b'\x80abc'])
    if c == 12:
        return r.pick([[{'x': 1}], [[1]], [object]])
    return r.pick([object(), {1, 2}, 3 + 4j])


def case_attrs(seed, out, spec):
    from deep.api.attributes import BoundedAttributes
    r = Rng('attrs', seed)
    cap = r.pick([None, 0, 1, 1, 2, 2, 3, 3, 4, 5, 8])
    limit = r.pick([None, None, 0, 1, 5, 20])
    nops = r.randrange(3, 40)
    init = None
    if r.chance(0.3):
        init = OrderedDict((r.pick(KEYS), gen_value(r)) for _ in range(r.randrange(1, 6)))
    ops = []
    for _ in range(nops):
        c = r.randrange(10)
        if c <= 5:
            k = r.pick(KEYS[:4 + r.randrange(8)]) if not r.chance(0.07) else r.pick(BAD_KEYS)
            ops.append(('set', k, gen_value(r, valid_only=(cap == 0))))
        elif c == 6:
            ops.append(('del', r.pick(KEYS[:8])))
        elif c == 7:
            ops.append(('merge_in', [(r.pick(KEYS), gen_value(r, valid_only=(cap == 0))) for _ in range(r.randrange(0, 4))],
                        r.pick(['dict', 'dict', 'bounded', 'bounded_frozen'])))
        elif c == 8:
            ops.append(('pop', r.pick(KEYS[:8])))
        else:
            ops.append(('iter',))
    try:
        ba = BoundedAttributes(max_length=cap, attributes=init, immutable=False, max_value_len=limit)
    except BaseException as e:  # noqa
        out.violation('attrs:constructor-raised', 'BoundedAttributes(%r, %s) raised %r' % (cap, short(init), e),
                      replay=replay_spec(spec, seed))
        return
    models = [Model(cap, limit, True), Model(cap, limit, False)]
    alive = [True, True]

    def m_apply(fn):
        for i, m in enumerate(models):
            if alive[i]:
                fn(m)

    def ref():
        return models[0] if alive[0] else models[1]

    if init:
        for k, v in init.items():
            m_apply(lambda m: m.set(k, v, True))

    def compare(step):
        nonlocal alive
        try:
            impl = (list(ba.items()), ba.dropped)
            ln = len(ba)
        except BaseException as e:  # noqa
            out.violation('attrs:read-raised', 'reading container raised %r after %s' % (e, short(step)),
                          replay=replay_spec(spec, seed))
            return False
        if cap is not None and ln > cap:
            out.violation('attrs:over-capacity', 'len=%d > capacity=%d after %s' % (ln, cap, short(step)),
                          {'ops': short(ops, 1500)}, replay_spec(spec, seed))
            return False
        now = [alive[i] and _same(models[i].state(), impl) for i in range(2)]
        if not any(now):
            out.violation('attrs:model-mismatch',
                          'after %s container=%s dropped=%s; model(refresh-on-overwrite)=%s model(keep-order)=%s' % (
                              short(step), short(impl[0]), impl[1], short(models[0].state()),
                              short(models[1].state())),
                          {'cap': cap, 'limit': limit, 'init': short(init), 'ops': short(ops, 1500)},
                          replay_spec(spec, seed))
            return False
        alive = now
        return True

    if not compare(('init',)):
        return
    checked = 0
    for op in ops:
        kind = op[0]
        try:
            if kind == 'set':
                expect_raise = None
                try:
                    ba[op[1]] = op[2]
                except TypeError:
                    # unhashable key is a caller error of dict itself, both fine
                    if isinstance(op[1], (str, int, bytes, tuple, type(None))):
                        raise
                m_apply(lambda m: m.set(op[1], op[2], True))
            elif kind == 'del':
                present = op[1] in ref().d
                try:
                    del ba[op[1]]
                    if not present:
                        out.violation('attrs:delete-missing-no-error', 'deleting absent key %r did not raise' % op[1],
                                      replay=replay_spec(spec, seed))
                        return
                    m_apply(lambda m: m.delete(op[1]))
                except KeyError:
                    if present:
                        out.violation('attrs:delete-present-raised', 'deleting present key %r raised KeyError' % op[1],
                                      replay=replay_spec(spec, seed))
                        return
            elif kind == 'merge_in':
                src = OrderedDict(op[1])
                if len(op) > 2 and op[2] != 'dict':
                    # what a decorator plugin hands back: another attribute container (it has cleaned its own content)
                    src = BoundedAttributes(attributes=src, immutable=(op[2] == 'bounded_frozen'))
                    out.count('merges_of_a_bounded_container')
                items = list(src.items())
                ba.merge_in(src)
                for k, v in items:
                    m_apply(lambda m: m.set(k, v, True))
            elif kind == 'pop':
                present = op[1] in ref().d
                got = ba.pop(op[1], '<absent>')
                if present:
                    want = ref().d[op[1]]
                    if not _same(got, want):
                        out.violation('attrs:pop-wrong-value', 'pop(%r) returned %r, stored %r' % (op[1], got, want),
                                      replay=replay_spec(spec, seed))
                        return
                    m_apply(lambda m: m.delete(op[1]))
                elif got != '<absent>':
                    out.violation('attrs:pop-absent', 'pop of absent key returned %r' % (got,),
                                  replay=replay_spec(spec, seed))
                    return
            elif kind == 'iter':
                keys = list(iter(ba))
                if keys != [k for k, _ in ba.items()]:
                    out.violation('attrs:iter-mismatch', 'iteration keys differ from items()',
                                  replay=replay_spec(spec, seed))
                    return
        except BaseException as e:  # noqa
            out.violation('attrs:op-raised', 'operation %s raised %r' % (short(op), e), {'ops': short(ops, 1500)},
                          replay_spec(spec, seed))
            return
        if not compare(op):
            return
        checked += 1
    out.count('attr_ops_checked', checked)
    flags = models[0].flags | models[1].flags
    if 'evicted' in flags:
        out.count('evictions_seen')
    for f in flags:
        out.count('flag_' + f)
    out.case({'cap': cap, 'limit': limit, 'init': short(init), 'ops': short(ops, 4000)}, nontrivial=bool(flags),
             sample={'capacity': cap, 'value_limit': limit, 'ops': [short(o, 80) for o in ops[:12]],
                     'final': short(list(ba.items()), 300), 'dropped': ba.dropped})


def _same(a, b):
    """Equality that distinguishes True from 1 and 1 from 1.0 and keeps order."""
    if type(a) is not type(b):
        return False
    if isinstance(a, (list, tuple)):
        return len(a) == len(b) and all(_same(x, y) for x, y in zip(a, b))
    return a == b


def case_frozen(seed, out, spec):
    from deep.api.attributes import BoundedAttributes
    from deep.api.resource import Resource
    r = Rng('frozen', seed)
    init = OrderedDict((r.pick(KEYS), gen_value(r, valid_only=True)) for _ in range(r.randrange(0, 6)))
    via = r.pick(['ba', 'ba', 'resource', 'merged'])
    if via == 'ba':
        ba = BoundedAttributes(max_length=r.pick([None, 3, 8, 0, 0]), attributes=init)
    elif via == 'resource':
        ba = Resource(init).attributes
    else:
        ba = Resource(init).merge(Resource({'m': 'n'})).attributes
    before = (list(ba.items()), ba.dropped)
    present = [k for k, _ in before[0]]
    muts = [
        ('setitem-new', lambda: ba.__setitem__('new-key', 'v')),
        ('setitem-existing', lambda: ba.__setitem__(present[0], 'v')) if present else None,
        ('delitem', lambda: ba.__delitem__(present[0])) if present else None,
        ('merge_in', lambda: ba.merge_in({'new-key2': 1})),
        ('update', lambda: ba.update({'new-key3': 1})),
        ('pop', lambda: ba.pop(present[-1])) if present else None,
        ('popitem', lambda: ba.popitem()) if present else None,
        ('clear', lambda: ba.clear()) if present else None,
        ('setdefault-new', lambda: ba.setdefault('new-key4', 2)),
    ]
    muts = [m for m in muts if m is not None]
    r.shuffle(muts)
    done = []
    for name, fn in muts[:r.randrange(2, len(muts) + 1)]:
        raised = None
        try:
            fn()
        except TypeError as e:
            raised = e
        except BaseException as e:  # noqa
            raised = e
        after = (list(ba.items()), ba.dropped)
        done.append(name)
        if not _same(after[0], before[0]):
            out.violation('frozen:modified', 'frozen container changed by %s: %s -> %s' % (
                name, short(before[0]), short(after[0])), {'via': via}, replay_spec(spec, seed))
            return
        if raised is None:
            out.violation('frozen:mutation-accepted-silently', 'frozen container accepted %s without raising' % name,
                          {'via': via}, replay_spec(spec, seed))
            return
        out.count('frozen_rejections')
    out.case({'via': via, 'init': short(init), 'muts': done}, nontrivial=True,
             sample={'via': via, 'init': short(init, 120), 'mutations_rejected': done})


SCHEMAS = ['', '', 'http://a', 'http://b']


def gen_attrs(r, prefix=''):
    n = r.randrange(0, 5)
    return OrderedDict((r.pick(['k1', 'k2', 'k3', 'k4', 'service.name', 'telemetry.sdk.name', prefix + 'own']),
                        r.pick(['v%d' % r.randrange(5), r.randrange(5), True, 1.5, ('a', 'b'), ''])) for _ in range(n))


def case_merge(seed, out, spec):
    from deep.api.resource import Resource
    r = Rng('merge', seed)
    n = r.randrange(2, 6)
    parts = [(gen_attrs(r, 'p%d.' % i), r.pick(SCHEMAS)) for i in range(n)]
    resources = [Resource(dict(a), s) for a, s in parts]
    snaps = [(list(x.attributes.items()), x.schema_url) for x in resources]
    # reference fold
    exp_attrs = OrderedDict(snaps[0][0])
    exp_schema = snaps[0][1]
    overlap = False
    try:
        cur = resources[0]
        for i in range(1, n):
            nxt = resources[i]
            cur = cur.merge(nxt)
            a, s = snaps[i]
            if exp_schema and s and exp_schema != s:
                pass  # incompatible: old resource kept
            else:
                for k, v in a:
                    if k in exp_attrs:
                        overlap = True
                    exp_attrs[k] = v
                exp_schema = exp_schema or s
            got = dict(cur.attributes.items())
            if not _same(sorted(got.items(), key=repr), sorted(exp_attrs.items(), key=repr)) or cur.schema_url != exp_schema:
                out.violation('merge:wrong-result', 'merge step %d gave attrs=%s schema=%r, expected attrs=%s schema=%r' % (
                    i, short(got), cur.schema_url, short(dict(exp_attrs)), exp_schema), {'parts': short(parts, 1200)},
                    replay_spec(spec, seed))
                return
            out.count('merges_checked')
        for i, x in enumerate(resources):
            now = (list(x.attributes.items()), x.schema_url)
            if not _same(now[0], snaps[i][0]) or now[1] != snaps[i][1]:
                out.violation('merge:operand-modified', 'operand %d changed by merging: %s -> %s' % (
                    i, short(snaps[i]), short(now)), {'parts': short(parts, 1200)}, replay_spec(spec, seed))
                return
        # result is frozen
        try:
            cur.attributes['zzz'] = 1
            out.violation('frozen:mutation-accepted-silently', 'merged resource attributes accepted a set',
                          replay=replay_spec(spec, seed))
            return
        except TypeError:
            pass
    except BaseException as e:  # noqa
        out.violation('merge:raised', 'merge chain raised %r' % (e,), {'parts': short(parts, 1200)},
                      replay_spec(spec, seed))
        return
    out.case({'parts': short(parts, 3000)}, nontrivial=overlap or any(s for _, s in parts),
             sample={'chain': [[short(dict(a), 100), s] for a, s in parts], 'result': short(dict(exp_attrs), 200),
                     'schema': exp_schema})


SDK_KEYS = ['telemetry.sdk.language', 'telemetry.sdk.name', 'telemetry.sdk.version']


def case_create(seed, out, spec):
    from deep.api.resource import Resource
    import deep.version
    r = Rng('create', seed)
    env_attrs = OrderedDict()
    for _ in range(r.randrange(0, 4)):
        key = r.pick(['e1', 'k1', 'service.name', 'telemetry.sdk.name', 'k2', 'process.executable.name'])
        env_attrs[key] = r.pick(['ev', 'env val', 'a=b', 'x%2Cy'] + ([''] * 2 if key == 'service.name' else []))
    env_service = r.pick([None, None, 'svc-from-env', ''])
    code = OrderedDict()
    for _ in range(r.randrange(0, 4)):
        ckey = r.pick(['c1', 'k1', 'k2', 'service.name', 'telemetry.sdk.language'])
        code[ckey] = r.pick(['cv', 'code val', 7, True] + ([''] * 2 if ckey == 'service.name' else []))
    code_arg = r.pick(['dict', 'dict', 'none']) if code else r.pick(['none', 'empty'])
    saved = {k: os.environ.get(k) for k in ('DEEP_RESOURCE_ATTRIBUTES', 'DEEP_SERVICE_NAME')}
    try:
        from urllib.parse import quote, unquote
        raw = ','.join('%s=%s' % (k, v) for k, v in env_attrs.items())
        malformed = r.chance(0.2)
        if malformed:
            raw = (raw + ',' if raw else '') + 'novalue'
        if raw:
            os.environ['DEEP_RESOURCE_ATTRIBUTES'] = raw
        else:
            os.environ.pop('DEEP_RESOURCE_ATTRIBUTES', None)
        if env_service is not None:
            os.environ['DEEP_SERVICE_NAME'] = env_service
        else:
            os.environ.pop('DEEP_SERVICE_NAME', None)
        try:
            res = Resource.create(dict(code) if code_arg == 'dict' else ({} if code_arg == 'empty' else None))
            got = dict(res.attributes.items())
        except BaseException as e:  # noqa
            out.violation('create:raised', 'Resource.create raised %r' % (e,), {'env': raw, 'svc': env_service,
                                                                                'code': short(code)},
                          replay_spec(spec, seed))
            return
    finally:
        for k, v in saved.items():
            if v is None:
                os.environ.pop(k, None)
            else:
                os.environ[k] = v
    exp = OrderedDict([('telemetry.sdk.language', 'python'), ('telemetry.sdk.name', 'deep'),
                       ('telemetry.sdk.version', deep.version.__version__)])
    for k, v in env_attrs.items():
        exp[k] = unquote(v)
    if env_service:
        exp['service.name'] = env_service
    if code_arg == 'dict':
        for k, v in code.items():
            exp[k] = v
    if not exp.get('service.name'):
        pen = exp.get('process.executable.name')
        exp['service.name'] = 'unknown_service:' + (pen if pen else 'python')
    witness = {'env_attrs': raw, 'env_service': env_service, 'code': short(code), 'got': short(got, 600)}
    for k in SDK_KEYS + ['service.name']:
        if k not in got or got[k] in (None, ''):
            out.violation('create:mandatory-key-missing', 'Resource.create() lacks %s' % k, witness,
                          replay_spec(spec, seed))
            return
    if not _same(sorted(got.items(), key=repr), sorted(exp.items(), key=repr)):
        out.violation('create:precedence', 'Resource.create gave %s, expected (built-in < env < code) %s' % (
            short(got, 500), short(dict(exp), 500)), witness, replay_spec(spec, seed))
        return
    out.count('create_checked')
    overl = bool(set(env_attrs) & set(code)) or bool(set(SDK_KEYS) & (set(env_attrs) | set(code))) or bool(env_service)
    out.case({'env': raw, 'svc': env_service, 'code': short(code), 'arg': code_arg}, nontrivial=overl,
             sample={'DEEP_RESOURCE_ATTRIBUTES': raw, 'DEEP_SERVICE_NAME': env_service, 'code': short(dict(code), 150),
                     'resource': short(got, 300)})


def case_threads(seed, out, spec):
    """Conservation under stress: every accepted new key is either held or counted as dropped; len<=cap always."""
    from deep.api.attributes import BoundedAttributes
    import sys
    r = Rng('threads', seed)
    cap = r.pick([1, 2, 3, 5, 8])
    nthreads = 8
    per = 1500
    ba = BoundedAttributes(max_length=cap, immutable=False)
    over = []
    stop = threading.Event()
    old_switch = sys.getswitchinterval()
    sys.setswitchinterval(1e-6)

    def writer(t):
        for i in range(per):
            ba['t%d-%d' % (t, i)] = i
            if i % 7 == 0:
                try:
                    del ba['t%d-%d' % (t, i)]
                    deleted[t] += 1
                except KeyError:
                    pass

    def reader():
        n = 0
        while not stop.is_set():
            with ba._lock if hasattr(ba, '_lock') else threading.Lock():
                ln = len(ba)
            if ln > cap:
                over.append(ln)
            n += 1
        reads.append(n)

    deleted = [0] * nthreads
    reads = []
    ths = [threading.Thread(target=writer, args=(t,)) for t in range(nthreads)]
    rd = threading.Thread(target=reader)
    try:
        rd.start()
        for t in ths:
            t.start()
        for t in ths:
            t.join(120)
        stop.set()
        rd.join(10)
    finally:
        sys.setswitchinterval(old_switch)
    if any(t.is_alive() for t in ths):
        out.inconc('C18 thread stress did not finish (watchdog)')
        return
    total = nthreads * per
    held = len(ba)
    if over:
        out.violation('attrs:over-capacity', 'reader observed len=%d > capacity=%d under the container lock' % (
            max(over), cap), replay=replay_spec(spec, seed))
        return
    if held + ba.dropped + sum(deleted) != total:
        out.violation('attrs:conservation', 'accepted=%d but held=%d + dropped=%d + deleted=%d' % (
            total, held, ba.dropped, sum(deleted)), {'cap': cap}, replay_spec(spec, seed))
        return
    out.count('stress_sets', total)
    out.count('stress_reads', sum(reads))
    out.case({'threads': seed, 'cap': cap}, nontrivial=True,
             sample={'threads': nthreads, 'sets': total, 'capacity': cap, 'held': held, 'dropped': ba.dropped,
                     'deleted': sum(deleted), 'reader_observations': sum(reads)})


def case_wire(seed, out, spec):
    """Rig E: the resource carried by PollRequest and Snapshot for generated env/code/plugin sources."""
    from vf import plugins, e2e
    r = Rng('wire', seed)
    plugins.reset()
    nplug = r.randrange(0, 4)
    tie = int(str(seed).split(':')[-1]) % 4 == 0
    if tie:
        nplug = max(nplug, 2)     # two providers of equal order that both set 'shared': the later configured one wins
    names = []
    pl_attrs = []
    for i in range(nplug):
        name = 'WireRes%d' % i
        attrs = OrderedDict()
        if tie and i < 2:
            attrs['shared'] = 'tie%d' % i
        for _ in range(r.randrange(1, 4)):
            attrs[r.pick(['shared', 'k1', 'service.name', 'p%d' % i, 'telemetry.sdk.name'])] = 'plug%d-%d' % (i, r.randrange(9))
        if r.chance(0.5):
            # a number, at either side of what the wire's 64 bit signed field holds (beyond it travels as text)
            attrs['n%d' % i] = r.pick([7, 2 ** 63 - 1, 2 ** 63, -2 ** 63, -2 ** 63 - 1, 2 ** 64 - 1])
            out.count('numeric_plugin_attributes')
        order = r.pick([0, 1, 2, -1, -2])    # (a negative order puts the provider ahead of the built-in ones)
        if tie and i == 1:
            order = pl_attrs[0][0]
        plugins.make(name, ['res'], order=order, attrs=dict(attrs))
        names.append('vf.plugins.' + name)
        pl_attrs.append((order, i, attrs))
    # the names the plugins give themselves are in no particular order (ties in order() keep the configured sequence)
    displays = r.sample(['zeta', 'Alpha', 'mid', 'beta', 'Omega'], nplug)
    if tie:
        displays[:2] = sorted(displays[:2], reverse=True)
        out.count('wire_sessions_with_equal_orders')
    env_attrs = OrderedDict()
    for _ in range(r.randrange(0, 3)):
        env_attrs[r.pick(['shared', 'k1', 'e1'])] = 'env%d' % r.randrange(9)
    # (the environment is bytes: a value that is not valid UTF-8 reaches python as text with a lone surrogate)
    env_service = r.pick([None, 'svc-env', 'svc-\udcff-latin'])
    env = {}
    if env_attrs:
        env['DEEP_RESOURCE_ATTRIBUTES'] = ','.join('%s=%s' % kv for kv in env_attrs.items())
    if env_service:
        env['DEEP_SERVICE_NAME'] = env_service
    # half of the sessions shut the agent down, change the environment and start the same agent again: what it then
    # reports is the resource of the second start
    restart = r.chance(0.5)
    second = {'DEEP_SERVICE_NAME': r.pick(['svc-second', None]),
              'DEEP_RESOURCE_ATTRIBUTES': r.pick(['e1=second,k1=second', 'shared=second', None])} if restart else None
    res = e2e.call_child('vf.props.c18', 'child_wire', {
        'plugins': [{'name': 'WireRes%d' % i, 'order': o, 'attrs': dict(a), 'display': displays[i]} for o, i, a in pl_attrs],
        'second_env': second}, env=env)
    if res.get('inconclusive'):
        out.inconc('wire: ' + res['inconclusive'])
        return
    if res.get('unsendable'):
        out.violation('wire:resource-not-sendable', res['unsendable'], {'env': env, 'plugins': short(pl_attrs, 500)},
                      replay_spec(spec, seed))
        return
    if res.get('child_failed'):
        out.violation('wire:session-failed', 'agent session failed: %s' % res.get('stderr', '')[-800:],
                      {'env': env, 'plugins': short(pl_attrs, 500)}, replay_spec(spec, seed))
        return
    import deep.version
    import platform
    exp = OrderedDict([('telemetry.sdk.language', 'python'), ('telemetry.sdk.name', 'deep'),
                       ('telemetry.sdk.version', deep.version.__version__)])
    exp.update(env_attrs)
    if env_service:
        exp['service.name'] = env_service
    if not exp.get('service.name'):
        exp['service.name'] = 'unknown_service:python'
    # built-in plugins that are resource providers run first (order 0, stable sort keeps list order):
    # OTelPlugin.resource() is None without an SDK TracerProvider; PythonPlugin adds python_version.
    builtin = OrderedDict([('python_version', platform.python_version())])
    seq = [(0, -1, builtin)] + pl_attrs
    seq.sort(key=lambda t: t[0])  # stable: ties keep configuration order
    for _, _, a in seq:
        exp.update(a)
    observed = [('poll', res['poll_resource'], exp), ('snapshot', res['snapshot_resource'], exp)]
    if restart:
        exp2 = OrderedDict([('telemetry.sdk.language', 'python'), ('telemetry.sdk.name', 'deep'),
                            ('telemetry.sdk.version', deep.version.__version__)])
        if second['DEEP_RESOURCE_ATTRIBUTES']:
            exp2.update(kv.split('=') for kv in second['DEEP_RESOURCE_ATTRIBUTES'].split(','))
        if second['DEEP_SERVICE_NAME']:
            exp2['service.name'] = second['DEEP_SERVICE_NAME']
        if not exp2.get('service.name'):
            exp2['service.name'] = 'unknown_service:python'
        for _, _, a in seq:
            exp2.update(a)
        observed.append(('poll after the second start', res.get('second_poll_resource'), exp2))
        out.count('wire_restarts')
    def wire_form(d):
        # text UTF-8 cannot carry arrives with the code point escaped
        return {k: (v.encode('utf-8', 'backslashreplace').decode('utf-8') if isinstance(v, str) else
                    (str(v) if type(v) is int and not -2 ** 63 <= v < 2 ** 63 else v)) for k, v in d.items()}

    for what, attrs, exp in observed:
        exp = wire_form(exp)
        if attrs is None:
            out.inconc('wire: no %s observed' % what)
            return
        for k in SDK_KEYS + ['service.name']:
            if not attrs.get(k):
                out.violation('wire:mandatory-key-missing', '%s resource lacks %s: %s' % (what, k, short(attrs)),
                              replay=replay_spec(spec, seed))
                return
        if attrs != dict(exp):
            out.violation('wire:precedence', '%s resource %s != expected (built-in<env<plugins in order) %s' % (
                what, short(attrs, 500), short(dict(exp), 500)),
                {'env': env, 'environment_at_second_start': second, 'plugins': short(pl_attrs, 500)},
                replay_spec(spec, seed))
            return
    out.count('wire_sessions')
    out.case({'env': env, 'plugins': short(pl_attrs, 800)}, nontrivial=True,
             sample={'env': env, 'plugin_resources': [[o, dict(a)] for o, _, a in pl_attrs],
                     'poll_resource': res['poll_resource']})


def child_wire(arg):
    """Runs in a fresh interpreter: real deep.start against the loopback server."""
    from vf import plugins, e2e
    from vf.server import LoopbackServer
    from deepproto.proto.tracepoint.v1.tracepoint_pb2 import TracePointConfig
    names = []
    for p in arg['plugins']:
        plugins.make(p['name'], ['res'], order=p['order'], attrs=p['attrs'], display_name=p.get('display'))
        names.append('vf.plugins.' + p['name'])
    srv = LoopbackServer()
    line = e2e.marker_lines()['deposit_mid']
    srv.set_config('cfg1', [TracePointConfig(ID='tp-wire', path='e2e_target.py', line_number=line)])
    import deep
    agent = deep.start(srv.config({'PLUGINS': names, 'POLL_TIMER': 0.2}))
    try:
        if not srv.wait_polls(1):
            # no request arrived: is it because the resource the agent holds cannot be put on the wire at all?
            try:
                from deep.grpc import convert_resource
                convert_resource(agent.config.resource)
            except BaseException as e:  # noqa
                return {'unsendable': 'no poll reached the service; building the wire form of the resource %r raises %r' % (
                    dict(agent.config.resource.attributes.items()), e)}
            return {'inconclusive': 'no poll within watchdog'}
        agent.task_handler  # noqa
        import time
        from vf.targets import e2e_target
        end = time.monotonic() + 15
        while not srv.snapshots and time.monotonic() < end:
            e2e_target.run(1)
            srv.wait_snapshots(1, 0.3)
        poll_res = e2e.attrs_of(srv.polls[0][0].resource.attributes)
        snap_res = e2e.attrs_of(srv.snapshots[0][0].resource) if srv.snapshots else None
        second_res = None
        if arg.get('second_env') is not None:
            import os
            agent.shutdown()
            for k, v in arg['second_env'].items():
                if v is None:
                    os.environ.pop(k, None)
                else:
                    os.environ[k] = v
            n = len(srv.polls)
            agent.start()
            if not srv.wait_polls(n + 1):
                return {'inconclusive': 'no poll after the second start'}
            second_res = e2e.attrs_of(srv.polls[-1][0].resource.attributes)
    finally:
        try:
            agent.shutdown()
        except BaseException:  # noqa
            pass
        srv.stop()
    return {'poll_resource': poll_res, 'snapshot_resource': snap_res, 'second_poll_resource': second_res}


CASES = {'attrs': case_attrs, 'frozen': case_frozen, 'merge': case_merge, 'create': case_create,
         'threads': case_threads, 'wire': case_wire}


def run_shard(spec, out):
    fn = CASES[spec['kind']]
    if spec['kind'] == 'attrs':
        _install_invariant(out)
    for seed in spec_seeds(spec):
        fn(seed, out, spec)


_INV = {'n': 0}


def _install_invariant(out):
    """icontract class invariant len<=capacity on the real class (falls back to nothing if icontract is absent)."""
    try:
        import icontract
    except ImportError:
        out.note('icontract not importable; capacity invariant checked by the explicit comparison only')
        return
    import deep.api.attributes as A

    class CapacityBroken(Exception):
        pass

    def within_capacity(self):
        _INV['n'] += 1
        return self.max_length is None or len(self) <= self.max_length

    try:
        A.BoundedAttributes = icontract.invariant(within_capacity, error=CapacityBroken)(A.BoundedAttributes)
        out.note('icontract invariant installed')
    except BaseException as e:  # noqa
        out.note('icontract invariant not installed: %r' % (e,))
