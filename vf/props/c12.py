"""C12 Installed tracepoints converge to the service's latest configuration.

Monitor: a reference model (last UPDATE's interpretable tracepoints + live registrations; NO_CHANGE / error change
nothing) over the recorded response / registration history, compared at quiescence (all submitted tasks done -
observed through a tracking task handler, never timed) with the behaviourally observed installed set (a probe function
with one candidate tracepoint per line is driven and the acting ids collected). Hashes in successive PollRequests are
read at a fake channel. Schedules: a parked-listener gate makes update k finish after update k+1; LINE yields on the
two workers; a second client thread registers/unregisters concurrently.
"""
import os
import threading
import time

from vf import inject, fakegrpc, hostframe
from vf.rig import Rig, RecordingPush
from vf.snaprig import Workdir
from vf.util import Rng, split_seeds, spec_seeds, replay_spec, short

ID = 'C12'
LEVEL = 'exploration'
TECHNIQUE = 'runtime monitor: convergence reference model vs behaviourally observed installed set at quiescence, gated + yield-injected schedules'
RULE = ('poll scripts of 2-10 responses (update with 0-4 tracepoints / no-change / error status / update containing '
        'uninterpretable tracepoints / an answer of an unknown response type, service time stamps that need not move forward) interleaved with register / unregister calls from other threads (one call at a time); real '
        'TaskHandler (2 workers) applies the updates; a seeded subset of updates is parked inside a listener until a '
        'later update has been applied (or 0.25 s passed); LINE yields in deep/config + deep/task; separately the real '
        'RepeatedTimer is run against failing polls; non-trivial = two updates were in flight together or a '
        'failure/no-change followed an update; distinct by canonical script; distinct apply orders are counted')
ASSUMPTIONS = ['polls are issued by one thread (as the agent\'s single timer does); the asynchrony is in applying them',
               '"polling continues" is decided as bounded progress: timer thread alive and a further request within '
               '100 intervals; alive but silent is inconclusive']
RULE += '; updates that carry an empty hash'
REQUIRE = {'updates_with_an_empty_hash': 8, 'scripts_checked': 250, 'updates_applied': 800, 'gates_engaged': 40, 'inflight_overlaps': 100, 'hash_checks': 800,
           'failed_polls': 70, 'unintelligible_answers': 30, 'timer_sessions': 6, 'restart_sessions': 3,
           'preempt_points': 80, 'preempt_overtakes': 8}

HOST = '''"""c12 probe"""


def probe(x):
    a = x + 1  # @l1
    b = a + 1  # @l2
    c = b + 1  # @l3
    d = c + 1  # @l4
    e = d + 1  # @l5
    return e  # @l6
'''


def plan(tier, seed):
    n = {'quick': 1, 'thorough': 15}[tier]
    return split_seeds('c%s' % seed, 320 * n, 12, 'script') + split_seeds('t%s' % seed, 8 * n, 4, 'timer') + \
        split_seeds('r%s' % seed, 4 * n, 4, 'restart') + split_seeds('e%s' % seed, 12 * n, 12, 'preempt')


def fresh_config(custom):
    from deep.config import ConfigService
    try:
        from deep.config.tracepoint_config import TracepointConfigService
        return ConfigService(dict(custom), tracepoints=TracepointConfigService())
    except TypeError:
        return ConfigService(dict(custom))


def tracking_handler():
    from deep.task import TaskHandler

    class Tracking(TaskHandler):
        def __init__(self):
            super().__init__()
            self.futures = []

        def submit_task(self, task, *args):
            f = super().submit_task(task, *args)
            self.futures.append(f)
            return f

    return Tracking()


def case_script(seed, out, spec, wd):
    from deep.api.resource import Resource
    from deep.config.tracepoint_config import ConfigUpdateListener
    from deep.poll import LongPoll
    from deep.processor.trigger_handler import TriggerHandler
    from deepproto.proto.poll.v1.poll_pb2 import PollResponse, ResponseType
    from deepproto.proto.tracepoint.v1.tracepoint_pb2 import TracePointConfig
    r = Rng('c12', seed)
    hpath = os.path.join(wd, 'c12probe.py')
    if not os.path.exists(hpath):
        with open(hpath, 'w') as f:
            f.write(HOST)
    base = os.path.basename(hpath)
    marks = hostframe.markers(hpath)
    lines = [marks['l%d' % i] for i in range(1, 7)]
    mod = hostframe.load(hpath)
    config = fresh_config({})
    config.resource = Resource.create()
    applied = []              # hashes in the order the handler's listener saw them (after it)
    applied_evt = threading.Condition()
    park = set()
    parked_log = []

    class Gate(ConfigUpdateListener):
        def config_change(self, ts, old_hash, current_hash, old_config, new_config):
            if current_hash in park:
                park.discard(current_hash)
                n0 = len(applied)
                end = time.monotonic() + 0.25
                with applied_evt:
                    while len(applied) == n0:
                        left = end - time.monotonic()
                        if left <= 0:
                            break
                        applied_evt.wait(left)
                    parked_log.append((current_hash, len(applied) > n0))

    class After(ConfigUpdateListener):
        def config_change(self, ts, old_hash, current_hash, old_config, new_config):
            with applied_evt:
                applied.append(current_hash)
                applied_evt.notify_all()

    config.add_listener(Gate())
    push = RecordingPush(None)
    handler = TriggerHandler(config, push)
    config.add_listener(After())
    th = tracking_handler()
    config.set_task_handler(th)
    grpc = fakegrpc.FakeGrpc()
    poll = LongPoll(config, grpc)
    rig = Rig(parts=(config, handler, push), host_dir=wd)
    push.rig = rig
    script = []
    nsteps = r.randrange(2, 11)
    k = 0
    responses = []
    for _ in range(nsteps):
        c = r.randrange(10)
        if c <= 4:
            k += 1
            n = r.randrange(0, 5)
            tps = [('c%d-l%d' % (k, i), lines[i]) for i in sorted(r.sample(range(6), n))]
            bad = r.randrange(0, 3) if r.chance(0.25) else 0
            # (a service that leaves the hash of a configuration empty: the agent then reports the empty hash, not the
            # hash of an earlier configuration that is no longer installed)
            empty_hash = k > 1 and r.chance(0.07)
            script.append(('update', '' if empty_hash else 'hash-%d' % k, tps, bad, r.chance(0.4)))
        elif c <= 6:
            script.append(('nochange',))
        elif c == 7:
            # the poll fails, or is answered with a response type this client does not know: nothing changes
            script.append(('error',) if r.chance(0.5) else ('unknown_type',))
        elif c == 8:
            script.append(('register', r.pick(lines)))
        else:
            script.append(('unregister',))
    model_service = []
    model_hash = [None]
    live = {}
    handles = []
    reg_counter = [0]
    sent_hashes = []
    queue = []

    def on_call(method, request):
        sent_hashes.append(request.current_hash)
        step = queue.pop(0)
        if step[0] == 'error':
            raise fakegrpc.FakeRpcError('poll failed')
        if step[0] == 'nochange':
            return PollResponse(ts_nanos=request.ts_nanos, current_hash=request.current_hash,
                                response_type=ResponseType.NO_CHANGE)
        if step[0] == 'unknown_type':
            return PollResponse(ts_nanos=request.ts_nanos, current_hash='hash-of-an-unintelligible-answer',
                                response=[TracePointConfig(ID='from-unintelligible-answer', path=base,
                                                           line_number=lines[0],
                                                           args={'fire_count': '-1', 'fire_period': '0'})],
                                response_type=7)
        _, hsh, tps, bad, parked = step
        protos = [TracePointConfig(ID=i, path=base, line_number=ln, args={'fire_count': '-1', 'fire_period': '0'})
                  for i, ln in tps]
        for b in range(bad):
            protos.insert(r.randrange(0, len(protos) + 1),
                          TracePointConfig(ID='bad-%s-%d' % (hsh, b), path=base, line_number=lines[0],
                                           args={'stage': 'no_such_stage'}))
        # the time stamp is the service's (its clock, or the replica that answered): it need not move forward
        ts = r.pick([request.ts_nanos, request.ts_nanos, request.ts_nanos - 5_000_000_000, 1, request.ts_nanos + 10 ** 9])
        return PollResponse(ts_nanos=ts, current_hash=hsh, response=protos,
                            response_type=ResponseType.UPDATE)

    grpc.channel.on_call = on_call
    replay = replay_spec(spec, seed)
    problems = []
    inflight_overlap = [0]
    yld = inject.yielder(str(seed), p=0.25)
    match = lambda f: f.endswith(os.path.join('deep', 'config', 'tracepoint_config.py')) or f.endswith(  # noqa
        os.path.join('deep', 'task', '__init__.py'))
    reg_lock = threading.Lock()
    # the calls come from several application threads, one at a time: the property quantifies over sequences of
    # register / unregister calls and interleavings of the background tasks, not over callers racing each other
    api_lock = threading.Lock()
    unregistered = []

    def do_register(line):
        with reg_lock:     # (two registering threads must not be given the same mark)
            reg_counter[0] += 1
            mark = 'reg-%d' % reg_counter[0]
        with api_lock:
            hid = config.tracepoints.add_custom(base, line, {'fire_count': '-1', 'fire_period': '0'}, ['"%s"' % mark], [])
        with reg_lock:
            handles.append((mark, hid))
            live[mark] = line

    def do_unregister():
        with reg_lock:
            if not handles:
                return
            mark, hid = r.pick(handles)
            live.pop(mark, None)
            unregistered.append(mark)
        with api_lock:
            config.tracepoints.remove_custom(hid)

    failed_polls = 0
    with inject.LineInjector(match, yld) as inj:
        side = []
        for step in script:
            if step[0] in ('update', 'nochange', 'error', 'unknown_type'):
                queue.append(step)
                if step[0] == 'update' and step[4]:
                    park.add(step[1])
                before = sum(1 for f in th.futures if not f.done())
                try:
                    poll.poll()
                    if step[0] == 'update':
                        model_service = [i for i, _ in step[2]]
                        model_hash[0] = step[1]
                        if before:
                            inflight_overlap[0] += 1
                except fakegrpc.FakeRpcError:
                    failed_polls += 1
                except BaseException as e:  # noqa
                    problems.append(('convergence:poll-raised', 'poll() raised %r on a %s response' % (e, step[0])))
                    if step[0] == 'update':
                        # an update the agent could not process at all leaves the last good configuration
                        pass
            elif step[0] == 'register':
                t = threading.Thread(target=do_register, args=(step[1],))
                t.start()
                side.append(t)
            else:
                t = threading.Thread(target=do_unregister)
                t.start()
                side.append(t)
        for t in side:
            t.join(20)
        # quiescence: every submitted task is done (observed, not timed); watchdog => inconclusive
        deadline = time.monotonic() + 30
        while True:
            pend = [f for f in list(th.futures) if not f.done()]
            if not pend:
                break
            if time.monotonic() > deadline:
                out.inconc('C12 updates did not settle within the watchdog')
                _close(th)
                return
            time.sleep(0.002)
        events = inj.events
    # final poll: the hash the agent reports now
    queue.append(('nochange',))
    try:
        poll.poll()
    except BaseException as e:  # noqa
        problems.append(('convergence:poll-raised', 'final poll raised %r' % (e,)))
    final_hash = sent_hashes[-1] if sent_hashes else None
    # behavioural observation of the installed set
    ids = set()
    for i in range(1, k + 1):
        pass
    n0 = len(rig.push.pushed)
    res, exc = rig.run(mod.probe, 1)
    acted = set()
    for rec in rig.push.pushed[n0:]:
        tp = rec.snapshot.tracepoint
        ws = [w.strip('"') for w in tp.watches if w.startswith('"reg-')]
        acted.add(ws[0] if ws else tp.id)
    rig.cleanup()
    _close(th)
    want = set(model_service) | set(live)
    witness = {'script': [s[:2] + ((len(s[2]), 'bad=%d' % s[3], 'parked' if s[4] else '') if s[0] == 'update' else ())
                          for s in script], 'applied_order': applied, 'parked': parked_log,
               'installed_observed': sorted(acted), 'model': sorted(want), 'reported_hash': final_hash,
               'model_hash': model_hash[0], 'registered': [m for m, _ in handles], 'unregistered': unregistered,
               'registrations_the_service_object_still_holds': len(config.tracepoints._custom)
               if hasattr(config.tracepoints, '_custom') else None}
    if exc is not None or res != 6 or rig.escapes:
        out.violation('containment:escape', 'probe outcome %r / %r / %s' % (res, exc, rig.escapes[:1]), witness, replay)
    for mech, what in problems:
        out.violation(mech, what, witness, replay)
    if acted != want:
        stale = [a for a in acted - want if a.startswith('c')]
        mech = 'convergence:stale-update-applied-last' if stale else (
            'convergence:registration-lost' if any(a.startswith('reg-') for a in want - acted) else
            'convergence:installed-set-mismatch')
        out.violation(mech, 'after quiescence the agent acts on %s, the latest configuration + registrations is %s' % (
            sorted(acted), sorted(want)), witness, replay)
    if (final_hash or None) != (model_hash[0] or None):
        out.violation('convergence:reported-hash', 'next poll reports hash %r, the last processed update is %r' % (
            final_hash, model_hash[0]), witness, replay)
    # every hash ever reported is the initial one or one the service had sent before
    known = {None, ''}
    idx = 0
    polls = [s for s in script if s[0] in ('update', 'nochange', 'error', 'unknown_type')] + [('nochange',)]
    for sent, step in zip(sent_hashes, polls):
        if (sent or None) not in known:
            out.violation('convergence:reported-hash', 'poll reported hash %r which the service never sent' % (sent,),
                          witness, replay)
            break
        if step[0] == 'update':
            known.add(step[1])
        out.count('hash_checks')
    out.count('scripts_checked')
    out.count('updates_with_an_empty_hash', sum(1 for s_ in script if s_[0] == 'update' and s_[1] == ''))
    out.count('updates_applied', len(applied))
    out.count('failed_polls', failed_polls)
    out.count('unintelligible_answers', sum(1 for s_ in script if s_[0] == 'unknown_type'))
    out.count('yield_points', events)
    out.count('inflight_overlaps', inflight_overlap[0])
    submitted = [s[1] for s in script if s[0] == 'update']
    upd_applied = [h for h in applied if h in submitted]
    # out-of-order completion: an update applied after a later one
    last_idx = -1
    ooo = False
    for h in applied:
        if h in submitted:
            i = submitted.index(h)
            if i < last_idx:
                ooo = True
            last_idx = max(last_idx, i)
    if ooo or any(p[1] for p in parked_log):
        out.count('out_of_order_completions')
    out.count('gates_engaged', len(parked_log))
    out.distinct('apply_orders', [submitted.index(h) if h in submitted else -1 for h in applied])
    out.case({'script': witness['script'], 'regs': sorted(live.items())},
             nontrivial=inflight_overlap[0] > 0 or failed_polls > 0 or any(s[0] == 'nochange' for s in script),
             sample={k_: witness[k_] for k_ in ('script', 'applied_order', 'installed_observed', 'model', 'reported_hash')})


def _close(th):
    try:
        th._pool.shutdown(wait=False)
    except BaseException:  # noqa
        pass


def case_timer(seed, out, spec, wd):
    """The real RepeatedTimer against a service that fails: bounded progress."""
    from deep.api.resource import Resource
    from deep.poll import LongPoll
    from deepproto.proto.poll.v1.poll_pb2 import PollResponse, ResponseType
    r = Rng('c12t', seed)
    interval = 0.03
    config = fresh_config({'POLL_TIMER': interval})
    config.resource = Resource.create()
    th = tracking_handler()
    config.set_task_handler(th)
    grpc = fakegrpc.FakeGrpc()
    kinds = [r.pick(['error', 'error', 'nochange', 'update', 'runtime', 'garbage']) for _ in range(12)]
    served = []
    cv = threading.Condition()

    def on_call(method, request):
        with cv:
            i = len(served)
            kind = kinds[i] if i < len(kinds) else 'nochange'
            served.append(kind)
            cv.notify_all()
        if kind == 'error':
            raise fakegrpc.FakeRpcError('unavailable')
        if kind == 'runtime':
            raise RuntimeError('connection reset')
        if kind == 'garbage':
            return None   # an unintelligible answer
        if kind == 'update':
            return PollResponse(ts_nanos=1, current_hash='h%d' % i, response=[], response_type=ResponseType.UPDATE)
        return PollResponse(ts_nanos=1, current_hash=request.current_hash, response_type=ResponseType.NO_CHANGE)

    grpc.channel.on_call = on_call
    poll = LongPoll(config, grpc)
    try:
        poll.start()
    except BaseException as e:  # noqa
        out.violation('polling:start-raised', 'LongPoll.start() raised %r with a failing service' % (e,),
                      {'kinds': kinds}, replay_spec(spec, seed))
        _close(th)
        return
    timer = poll.timer
    target = len(kinds) + 2
    end = time.monotonic() + interval * 100 * 3 + 10
    dead = False
    with cv:
        while len(served) < target:
            if timer is not None and not timer.thread.is_alive():
                dead = True
                break
            left = end - time.monotonic()
            if left <= 0:
                break
            cv.wait(min(left, 0.2))
    n_served = len(served)
    try:
        poll.shutdown()
    except BaseException:  # noqa
        pass
    _close(th)
    witness = {'responses': served, 'interval_s': interval}
    if dead:
        out.violation('polling:timer-thread-died', 'the poll timer thread died after the responses %s' % served[-3:],
                      witness, replay_spec(spec, seed))
    elif n_served < target:
        out.inconc('C12 timer alive but only %d of %d polls within the watchdog' % (n_served, target))
        return
    out.count('timer_sessions')
    out.count('failed_polls', sum(1 for k_ in served if k_ in ('error', 'runtime', 'garbage')))
    out.case({'kinds': kinds}, nontrivial=True, sample=witness)


PAIRS = [('update', 'update'), ('register', 'unregister'), ('update', 'register'), ('register', 'update'),
         ('unregister', 'update'), ('update', 'unregister'), ('register', 'register')]


def case_preempt(seed, out, spec, wd):
    """Two configuration changes in flight on the two workers; the first one is pre-empted at its k-th line
    (every k is enumerated) until the second one has been applied. The outcome at quiescence must not depend on k."""
    from deep.api.resource import Resource
    from deep.config.tracepoint_config import ConfigUpdateListener
    from deep.grpc import convert_response
    from deep.processor.trigger_handler import TriggerHandler
    from deepproto.proto.tracepoint.v1.tracepoint_pb2 import TracePointConfig
    r = Rng('c12e', seed)
    hpath = os.path.join(wd, 'c12probe.py')
    if not os.path.exists(hpath):
        with open(hpath, 'w') as f:
            f.write(HOST)
    base = os.path.basename(hpath)
    marks = hostframe.markers(hpath)
    lines = [marks['l%d' % i] for i in range(1, 7)]
    mod = hostframe.load(hpath)
    pair = PAIRS[int(str(seed).split(':')[-1]) % len(PAIRS)]
    target_file = os.path.join('deep', 'config', 'tracepoint_config.py')
    points = overtakes = 0
    a = {'fire_count': '-1', 'fire_period': '0'}
    for k in range(0, 16):
        config = fresh_config({})
        config.resource = Resource.create()
        applied = []
        cv = threading.Condition()

        class After(ConfigUpdateListener):
            def config_change(self, ts, old_hash, current_hash, old_config, new_config):
                with cv:
                    applied.append(threading.get_ident())
                    cv.notify_all()

        push = RecordingPush(None)
        handler = TriggerHandler(config, push)
        config.add_listener(After())
        th = tracking_handler()
        config.set_task_handler(th)
        rig = Rig(parts=(config, handler, push), host_dir=wd)
        push.rig = rig
        svc = config.tracepoints
        # a settled starting point: one service tracepoint and one registration
        svc.update_new_config(1, 'h0', convert_response([TracePointConfig(ID='s0', path=base, line_number=lines[0], args=a)]))
        reg0 = svc.add_custom(base, lines[1], dict(a), ['"reg-0"'], [])
        _settle(th)
        model_service, live = {'s0'}, {'reg-0'}
        first = {'tid': None, 'count': 0, 'fired': False, 'overtaken': False}
        main_tid = threading.get_ident()

        def on_line(code, line):
            tid = threading.get_ident()
            if tid == main_tid or code.co_name not in ('update_listeners',):
                return None
            if first['tid'] is None:
                first['tid'] = tid
            if tid != first['tid']:
                return None
            n = first['count']
            first['count'] = n + 1
            if n == k and not first['fired']:
                first['fired'] = True
                n0 = len([t for t in applied if t != tid])
                end = time.monotonic() + 0.15
                with cv:
                    while len([t for t in applied if t != tid]) == n0:
                        left = end - time.monotonic()
                        if left <= 0:
                            break
                        cv.wait(left)
                    first['overtaken'] = len([t for t in applied if t != tid]) > n0
            return None

        def do(op, tag):
            if op == 'update':
                tp = TracePointConfig(ID='s-%s' % tag, path=base, line_number=lines[2 + (tag == 'b')], args=a)
                svc.update_new_config(5, 'h-%s' % tag, convert_response([tp]))
                model_service.clear()
                model_service.add('s-%s' % tag)
            elif op == 'register':
                svc.add_custom(base, lines[4 + (tag == 'b')], dict(a), ['"reg-%s"' % tag], [])
                live.add('reg-%s' % tag)
            else:
                svc.remove_custom(reg0)
                live.discard('reg-0')

        applied_before = len(applied)
        with inject.LineInjector(lambda f: f.endswith(target_file), on_line):
            do(pair[0], 'a')
            # the second change is issued as soon as the first task has started (or at once if it never shows up)
            end = time.monotonic() + 0.2
            while first['tid'] is None and time.monotonic() < end:
                time.sleep(0.0005)
            do(pair[1], 'b')
            if not _settle(th):
                out.inconc('C12 preempt: updates did not settle')
                _close(th)
                return
        if first['fired']:
            points += 1
            if first['overtaken']:
                overtakes += 1
        n0 = len(push.pushed)
        res, exc = rig.run(mod.probe, 1)
        acted = set()
        for rec in push.pushed[n0:]:
            tp = rec.snapshot.tracepoint
            ws = [w.strip('"') for w in tp.watches if w.startswith('"reg-')]
            acted.add(ws[0] if ws else tp.id)
        rig.cleanup()
        _close(th)
        want = set(model_service) | set(live)
        if acted != want:
            stale = acted - want
            mech = 'convergence:stale-update-applied-last' if stale else 'convergence:registration-lost'
            out.violation(mech, '%s then %s with the first task pre-empted at its line event %d%s: the agent acts on %s, '
                                'the latest state is %s' % (pair[0], pair[1], k, ' (overtaken by the second)' if
                                                            first['overtaken'] else '', sorted(acted), sorted(want)),
                          {'pair': pair, 'k': k, 'overtaken': first['overtaken']}, replay_spec(spec, seed))
            break
        if not first['fired'] and k > first['count']:
            break   # the first task has fewer line events than k: enumeration complete
    out.count('preempt_points', points)
    out.count('preempt_overtakes', overtakes)
    out.case({'pair': pair, 'seed': str(seed)}, nontrivial=points > 0,
             sample={'first_then_second': pair, 'preemption_points_enumerated': points,
                     'second_task_overtook_first': overtakes})


def _settle(th, timeout=20):
    end = time.monotonic() + timeout
    while True:
        if not [f for f in list(th.futures) if not f.done()]:
            return True
        if time.monotonic() > end:
            return False
        time.sleep(0.001)


def case_restart(seed, out, spec, wd):
    """Agent shut down and started again in one process: the new agent must act on the service's configuration."""
    from vf import e2e
    r = Rng('c12r', seed)
    arg = {'change_between': r.chance(0.5), 'restarts': r.pick([1, 2])}
    res = e2e.call_child('vf.props.c12', 'child_restart', arg, timeout=120)
    replay = replay_spec(spec, seed)
    if res.get('inconclusive'):
        out.inconc('C12 restart: ' + res['inconclusive'])
        return
    if res.get('child_failed'):
        out.violation('convergence:restart-session-failed', res.get('stderr', '')[-600:], arg, replay)
        return
    for i, life in enumerate(res['lives']):
        if not life['acted']:
            out.violation('convergence:restarted-agent-ignores-configuration',
                          'agent life %d (after %d shutdowns) reported hash %r and never acted on the configuration '
                          'the service holds (%r)' % (i, i, life['first_hash'], life['service_hash']),
                          dict(arg, lives=res['lives']), replay)
            break
    out.count('restart_sessions')
    out.case({'restart': arg}, nontrivial=True, sample={'restart': arg, 'lives': res['lives']})


def child_restart(arg):
    import time
    from vf import e2e
    from vf.server import LoopbackServer
    from deepproto.proto.tracepoint.v1.tracepoint_pb2 import TracePointConfig
    import deep
    from vf.targets import e2e_target
    marks = e2e.marker_lines()
    srv = LoopbackServer()
    args = {'fire_count': '-1', 'fire_period': '0'}
    lives = []
    try:
        for life in range(arg['restarts'] + 1):
            if life == 0 or arg['change_between']:
                srv.set_config('cfg-%d' % life, [TracePointConfig(ID='tp-%d' % life, path='e2e_target.py',
                                                                   line_number=marks['deposit_mid'], args=args)])
            n_polls = len(srv.polls)
            n_snaps = len(srv.snapshots)
            agent = deep.start(srv.config({'POLL_TIMER': 0.05}))
            if not srv.wait_polls(n_polls + 1):
                return {'inconclusive': 'no poll in life %d' % life}
            first_hash = srv.polls[n_polls][0].current_hash
            end = time.monotonic() + 6
            while time.monotonic() < end and len(srv.snapshots) == n_snaps:
                e2e_target.run(1)
                srv.wait_snapshots(n_snaps + 1, 0.2)
            lives.append({'acted': len(srv.snapshots) > n_snaps, 'first_hash': first_hash, 'service_hash': srv.hash,
                          'polls': len(srv.polls) - n_polls})
            agent.shutdown()
    finally:
        srv.stop()
    return {'lives': lives}


def run_shard(spec, out):
    wd = Workdir('c12')
    try:
        for seed in spec_seeds(spec):
            if spec['kind'] == 'script':
                case_script(seed, out, spec, wd.path)
            elif spec['kind'] == 'restart':
                case_restart(seed, out, spec, wd.path)
            elif spec['kind'] == 'preempt':
                case_preempt(seed, out, spec, wd.path)
            else:
                case_timer(seed, out, spec, wd.path)
    finally:
        wd.close()
