"""C17 Metric tracepoints report each defined metric with the right type, labels, value.

Monitor: recording MetricProcessor plugins (0-3 of them) log every call; the expectation is computed from the metric
definitions and the recorder's own evaluation of value / label expressions in the paused frame. Definitions arrive
both as protobuf Metric messages through convert_response and as direct MetricDefinition objects.
"""
import math
import os
import threading

from vf import clock, plugins, hostframe, snapcheck
from vf.rig import Rig, line_trigger
from vf.snaprig import Workdir
from vf.util import Rng, split_seeds, spec_seeds, replay_spec, short

ID = 'C17'
LEVEL = 'exploration'
TECHNIQUE = 'runtime monitor: recording metric processors vs expectation from definitions + recorder-side evaluation'
RULE = ('1-5 metric definitions per tracepoint x 4 types x labels (none, static str/int/bool/float, expressions over '
        'locals and host globals, failing expressions) x value expressions (absent, numeric, bool, non-numeric, '
        'failing incl. SystemExit) x one name defined twice (other type / namespace) x namespace/help/unit present or absent x 0-3 processors, 1-4 hits, fire_count 1/2/-1; via protobuf '
        'Metric -> convert_response and via MetricDefinition; plus phases with no processor active; label sets kept by a processor must not change afterwards; non-trivial = at '
        'least one call expected or a no-processor phase exercised; distinct by canonical case')
ASSUMPTIONS = ['numeric-looking strings are not used as "non-numeric" values', 'absent help/unit may arrive as None or ""',
               'label values are compared as text']
RULE += '; values whose conversion to a number / to text ends in SystemExit; module globals read only inside a generator expression or lambda'
REQUIRE = {'overlapping_hits_checked': 30, 'runs_with_a_processor_that_adds_a_label': 40, 'calls_compared': 2500, 'hits_checked': 1500, 'no_processor_phases': 60, 'wire_definitions': 300,
           'failing_value_exprs': 100, 'label_exprs': 300, 'same_name_definitions': 100,
           'label_sets_kept': 2000}
T0 = 1_700_000_000_000_000_000
TYPES = ['counter', 'gauge', 'histogram', 'summary']

HOST = '''"""c17 host"""
FACTOR = 2.5
REGION = "eu-1"
n = 1000.0
label = "module-level"
items = ()


def weight(v):
    return v * FACTOR


def bail(v):
    raise SystemExit(v)


class Quits:
    """A value that evaluates fine and ends the interpreter when it is turned into a number or into text."""

    def __float__(self):
        raise SystemExit("no number")

    def __str__(self):
        raise SystemExit("no text")

    __repr__ = __str__


QUITS = Quits()


def leaf(n, label, items, flag):
    marker = 0  # @hit
    return marker
'''
VALUE_EXPRS = [None, None, '', 'n', 'n * 2', 'len(items)', 'weight(n)', 'FACTOR', 'float(n) / 4', 'flag', '-n',
               'label', 'items', 'None', 'nope_zz', '1/0', 'n / (n - n)', 'sum(items)', '10 ** 3', 'float("inf")',
               '10 ** 400', '(n + 1) * 10 ** 400', 'complex(n, 1)', '[n]', 'b"5"', 'bail(n)',
               'sum(i * n for i in items)', '(lambda: n + len(items))()', 'QUITS',
               'sum(i * FACTOR for i in items) + FACTOR', '(lambda: weight(n))()']
LABEL_EXPRS = ['label', 'n', 'REGION', 'len(items)', 'label.upper()', 'flag', 'weight(n)', 'nope_zz', 'items[99]',
               'bail(n)', '"-".join(str(i + n) for i in items)', 'QUITS',
               '"/".join(REGION for _ in items)']
STATICS = ['fixed', 'eu', 7, True, 1.5, '', 0, False, 0.0]


def plan(tier, seed):
    n = {'quick': 960, 'thorough': 14400}[tier]
    return split_seeds('m%s' % seed, n, 16, 'metric') + split_seeds('o%s' % seed, 24 if tier == 'quick' else 240, 4,
                                                                     'overlap')


def rec_eval(expr, frame):
    try:
        return snapcheck.eval_in_frame(expr, frame), None
    except BaseException as e:  # noqa
        import os
        if os.environ.get('VF_DEBUG_EVAL'):
            import traceback
            print('REF-EVAL', expr, repr(e), traceback.format_exc()[-400:])
        return None, e


def case_metric(seed, out, spec, wd):
    from deep.api.tracepoint.tracepoint_config import MetricDefinition, LabelExpression
    r = Rng('c17', seed)
    plugins.reset()
    path = os.path.join(wd, 'c17host.py')
    if not os.path.exists(path):
        with open(path, 'w') as f:
            f.write(HOST)
    base = os.path.basename(path)
    line = hostframe.markers(path)['hit']
    mod = hostframe.load(path)
    via_wire = r.chance(0.5)
    ndefs = r.randrange(1, 6)
    defs = []
    for i in range(ndefs):
        d = {'name': 'metric_%d' % i, 'type': r.pick(TYPES), 'expr': r.pick(VALUE_EXPRS),
             'namespace': r.pick([None, None, 'shop', 'ns_%d' % i]), 'help': r.pick([None, 'some help', 'h']),
             'unit': r.pick([None, 'ms', 'bytes']), 'labels': []}
        if i and r.chance(0.2):
            # the same metric name once more, as another type or in another namespace (e.g. latency as histogram and as
            # summary): two definitions, two reports
            prev = defs[-1]
            d['name'] = prev['name']
            if r.chance(0.5):
                d['type'] = r.pick([t for t in TYPES if t != prev['type']])
                d['namespace'] = prev['namespace']
            else:
                d['namespace'] = 'other_%d' % i
            if any((x['name'], x['type'], x['namespace'] or 'deep') == (d['name'], d['type'], d['namespace'] or 'deep')
                   for x in defs):
                d['name'] = 'metric_%d' % i
            else:
                out.count('same_name_definitions')
        for j in range(r.pick([0, 0, 1, 2, 3])):
            if r.chance(0.5):
                d['labels'].append(('l%d' % j, 'static', r.pick(STATICS)))
            else:
                d['labels'].append(('l%d' % j, 'expr', r.pick(LABEL_EXPRS)))
        defs.append(d)
    fc = r.pick([1, 2, -1])
    nproc = r.pick([0, 1, 1, 2, 3])
    args = {'snapshot': 'no_collect', 'fire_count': str(fc), 'fire_period': '0'}
    if r.chance(0.2):
        del args['snapshot']  # metric + snapshot together
    if via_wire:
        from deepproto.proto.tracepoint.v1.tracepoint_pb2 import TracePointConfig, Metric, MetricType
        from deepproto.proto.tracepoint.v1.tracepoint_pb2 import LabelExpression as PLabel
        from deepproto.proto.common.v1.common_pb2 import AnyValue
        from deep.grpc import convert_response
        pm = []
        for d in defs:
            kw = {'name': d['name'], 'type': MetricType.Value(d['type'].upper())}
            for k, f in (('expr', 'expression'), ('namespace', 'namespace'), ('help', 'help'), ('unit', 'unit')):
                if d[k] is not None:
                    kw[f] = d[k]
            labels = []
            for key, how, val in d['labels']:
                if how == 'expr':
                    labels.append(PLabel(key=key, expression=val))
                else:
                    av = AnyValue(bool_value=val) if isinstance(val, bool) else (
                        AnyValue(int_value=val) if isinstance(val, int) else (
                            AnyValue(double_value=val) if isinstance(val, float) else AnyValue(string_value=val)))
                    labels.append(PLabel(key=key, static=av))
            pm.append(Metric(labelExpressions=labels, **kw))
        tp = TracePointConfig(ID='tp17', path=base, line_number=line, args=args, metrics=pm)
        try:
            trigs = convert_response([tp])
        except BaseException as e:  # noqa
            out.violation('metric:conversion-raised', 'convert_response raised %r for %s' % (e, short(defs, 400)),
                          {'defs': defs}, replay_spec(spec, seed))
            return
        out.count('wire_definitions', ndefs)
    else:
        mdefs = [MetricDefinition(d['name'], r.pick([d['type'], d['type'].upper(), d['type'].capitalize()]),
                                  [LabelExpression(k, v if how == 'static' else None, v if how == 'expr' else None)
                                   for k, how, v in d['labels']], d['expr'], d['namespace'], d['help'], d['unit'])
                 for d in defs]
        trigs = [line_trigger('tp17', base, line, args, [], mdefs)]
    # (one of several processors may add a label of its own to the label set it is handed: that is its copy, the
    # others get the labels the tracepoint defines)
    adder = r.randrange(nproc) if nproc >= 2 and r.chance(0.4) else None
    if adder is not None:
        out.count('runs_with_a_processor_that_adds_a_label')
    procs = [plugins.make('Proc%d' % i, ['met_adds_label' if i == adder else 'met'], order=i,
                          falsy=r.pick([None, None, None, 'len', 'bool']))()
             for i in range(nproc)]
    rig = Rig(custom={}, host_dir=wd, plugins=[])
    rig.install(trigs)
    nhits = r.randrange(1, 5)
    # phase plan: some hits happen with no processor active, then processors appear
    dry = r.randrange(0, 3) if r.chance(0.4) else 0
    inputs = [(r.randrange(0, 9), r.pick(['a', 'bb', 'Ccc']), [r.randrange(5) for _ in range(r.randrange(0, 4))],
               r.chance(0.5)) for _ in range(dry + nhits)]
    expected = []   # per hit: dict name -> (type, labels, value, d)
    calls = {}      # hit -> [(proc, payload)]
    cur = {'hit': -1}

    def pre(ev, frame, arg):
        if ev.kind == 'line' and ev.line == line and ev.base == base:
            cur['hit'] += 1
            exp = {}
            for d in defs:
                value = 1.0
                vfail = False
                if d['expr']:
                    val, failed = rec_eval(d['expr'], frame)
                    if failed is None:
                        try:
                            value = float(val)
                        except BaseException:  # noqa
                            value = 1.0
                    else:
                        vfail = True
                labels = {}
                for key, how, v in d['labels']:
                    if how == 'static':
                        labels[key] = ('is', v)
                    else:
                        lv, lfail = rec_eval(v, frame)
                        if lfail is None:
                            try:
                                str(lv)
                            except BaseException:  # noqa - the value evaluates, its text form fails: a failed label
                                lfail = True
                        labels[key] = ('any', None) if lfail is not None else ('is', lv)
                exp[(d['name'], d['type'], d['namespace'] or 'deep')] = (d['type'], labels, value, vfail)
            expected.append(exp)

    def hook(name, callback, payload):
        if callback == 'metric':
            calls.setdefault(cur['hit'], []).append((name, payload))

    rig.pre = pre
    plugins.HOOK[0] = hook

    def body():
        for i, (n, label, items, flag) in enumerate(inputs):
            if i == dry:
                rig.config.plugins = list(procs)
            clock.set_virtual(T0 + i * 1000000)
            mod.leaf(n, label, items, flag)

    try:
        _, exc = rig.run(body)
    finally:
        clock.set_virtual(None)
        plugins.HOOK[0] = None
    rig.cleanup()
    replay = replay_spec(spec, seed)
    witness = {'defs': defs, 'via_wire': via_wire, 'processors': nproc, 'fire_count': fc, 'dry_hits': dry,
               'inputs': inputs, 'agent_log': [short(x, 160) for x in rig.logs[-2:]]}
    if exc is not None:
        out.inconc('C17 host raised %r' % (exc,))
        return
    if rig.escapes:
        out.violation('containment:escape', 'trace handler raised: %s' % rig.escapes[0][2][-300:], witness, replay)
    total = dry + nhits
    # permitted hits: only hits with a processor active use budget
    live = list(range(dry, total)) if nproc else []
    permitted = live if fc == -1 else live[:fc]
    compared = 0
    for h in range(total):
        got = calls.get(h, [])
        if h not in permitted:
            if got:
                why = 'no metric processor is active' if (h < dry or not nproc) else 'fire_count=%s is used up' % fc
                out.violation('metric:reported-when-not-permitted', 'hit %d: %d metric calls although %s' % (
                    h, len(got), why), witness, replay)
                return
            continue
        exp = expected[h]
        for p in procs:
            mine = [pl for (nm, pl) in got if nm == p.name]
            names = [(pl[1], pl[0], pl[3]) for pl in mine]
            for key, (typ, labels, value, vfail) in exp.items():
                name = key[0]
                same_name = [k for k in names if k[0] == name]
                n = names.count(key) if len([k for k in exp if k[0] == name]) > 1 else len(same_name)
                if n != 1:
                    mech = 'metric:budget-used-without-processor' if (n == 0 and not mine and dry and fc != -1) else \
                        'metric:not-reported-once'
                    out.violation(mech, 'hit %d: metric %s reported %d times to processor %s (calls there: %s)' % (
                        h, name, n, p.name, names), witness, replay)
                    return
                cands = [pl for pl in mine if (pl[1], pl[0], pl[3]) == key] or [pl for pl in mine if pl[1] == name]
                op, _, glabels, gns, ghelp, gunit, gval = cands[0]
                d = [x for x in defs if (x['name'], x['type'], x['namespace'] or 'deep') == key][0]
                if op != typ:
                    out.violation('metric:wrong-operation', 'metric %s of type %s reported through %s()' % (
                        name, typ, op), witness, replay)
                    return
                if gns != (d['namespace'] or 'deep'):
                    out.violation('metric:namespace', 'metric %s namespace %r, defined %r (default deep)' % (
                        name, gns, d['namespace']), witness, replay)
                    return
                if (ghelp or None) != d['help'] or (gunit or None) != d['unit']:
                    out.violation('metric:help-unit', 'metric %s help/unit %r/%r, defined %r/%r' % (
                        name, ghelp, gunit, d['help'], d['unit']), witness, replay)
                    return
                if set(glabels) != set(labels):
                    out.violation('metric:label-keys', 'metric %s labels %r, defined keys %r' % (
                        name, glabels, sorted(labels)), witness, replay)
                    return
                for k, (mode, lv) in labels.items():
                    if mode == 'is' and str(glabels[k]) != str(lv):
                        out.violation('metric:label-value', 'metric %s label %s=%r, expected %r' % (
                            name, k, glabels[k], lv), witness, replay)
                        return
                if not _num_eq(gval, value):
                    out.violation('metric:value', 'metric %s (expression %r) value %r, the frame evaluates to %r' % (
                        name, d['expr'], gval, value), witness, replay)
                    return
                compared += 1
            extra = [nm for nm in names if nm[0] not in {k[0] for k in exp}]
            if extra:
                out.violation('metric:unknown-metric', 'processor %s got undefined metrics %s' % (p.name, extra),
                              witness, replay)
                return
    # a processor may keep the labels it was given (to export them later): they must not change afterwards
    changed = [(obj, copy) for obj, copy in plugins.KEPT_LABELS if obj != copy]
    if changed:
        out.violation('metric:labels-changed-after-report', 'labels handed to a processor as %r read %r afterwards (%d of %d '
                                                            'label sets changed)' % (changed[0][1], changed[0][0],
                                                                                     len(changed), len(plugins.KEPT_LABELS)),
                      witness, replay)
    out.count('label_sets_kept', len(plugins.KEPT_LABELS))
    out.count('calls_compared', compared)
    out.count('hits_checked', total)
    if dry or not nproc:
        out.count('no_processor_phases')
    out.count('failing_value_exprs', sum(1 for d in defs if d['expr'] in ('nope_zz', '1/0', 'n / (n - n)', 'bail(n)')))
    out.count('label_exprs', sum(1 for d in defs for _, how, _ in d['labels'] if how == 'expr'))
    out.case({'d': defs, 'w': via_wire, 'p': nproc, 'fc': fc, 'dry': dry, 'in': inputs},
             nontrivial=compared > 0 or dry > 0 or not nproc,
             sample={'definitions': defs[:2], 'via_wire': via_wire, 'processors': nproc, 'fire_count': fc,
                     'hits': total, 'hits_without_processor': dry, 'calls_compared': compared})


def _num_eq(a, b):
    try:
        a, b = float(a), float(b)
    except BaseException:  # noqa
        return False
    if math.isnan(a) or math.isnan(b):
        return math.isnan(a) and math.isnan(b)
    return a == b


HOST_OVERLAP = '''"""c17 host: two threads at the tracepoint at the same time"""
import threading

FIRST_IN = threading.Event()
SECOND_DONE = threading.Event()


def held(tag):
    """Called by a label expression: the first hit stays in here until the second hit is complete."""
    if tag == "first":
        FIRST_IN.set()
        SECOND_DONE.wait(10)
    return "t-" + tag


def leaf(n, label):
    marker = 0  # @hit
    return marker
'''


def case_overlap(seed, out, spec, wd):
    """Two hits of one metric tracepoint overlap: the first is still evaluating its labels while the second one is
    evaluated and reported on another thread. Each hit reports the labels of its own frame."""
    from deep.api.tracepoint.tracepoint_config import MetricDefinition, LabelExpression
    r = Rng('c17o', seed)
    plugins.reset()
    path = os.path.join(wd, 'c17overlap_%s.py' % str(seed).replace(':', '_'))
    with open(path, 'w') as f:
        f.write(HOST_OVERLAP)
    base = os.path.basename(path)
    line = hostframe.markers(path)['hit']
    mod = hostframe.load(path)
    labels = [LabelExpression('team', 'core', None), LabelExpression('who', None, 'label'),
              LabelExpression('ticket', None, 'held(label)')]
    if r.chance(0.5):
        labels = [labels[1], labels[0], labels[2]]
    mdef = MetricDefinition('jobs', r.pick(TYPES), labels, 'n')
    rig = Rig(custom={}, host_dir=wd, plugins=[plugins.RecMetrics()])
    rig.install([line_trigger('tp17o', base, line, {'fire_count': '-1', 'fire_period': '0', 'snapshot': 'no_collect'},
                              [], [mdef])])

    def body():
        t1 = threading.Thread(target=mod.leaf, args=(3, 'first'), name='c17-first')
        t1.start()
        entered = mod.FIRST_IN.wait(10)
        t2 = threading.Thread(target=mod.leaf, args=(5, 'second'), name='c17-second')
        t2.start()
        t2.join(10)
        mod.SECOND_DONE.set()
        t1.join(15)
        return entered and not t1.is_alive() and not t2.is_alive()

    ok, exc = rig.run(body)
    rig.cleanup()
    got = sorted(((pl[2], pl[6]) for _, _, nm, cb, pl in plugins.EVENTS if cb == 'metric'), key=lambda t: t[1])
    want = [({'team': 'core', 'who': 'first', 'ticket': 't-first'}, 3.0),
            ({'team': 'core', 'who': 'second', 'ticket': 't-second'}, 5.0)]
    witness = {'reported': got, 'agent_log': [short(x, 160) for x in rig.logs[-2:]]}
    if exc is not None or not ok:
        out.inconc('C17 overlap: the two host threads did not run as scheduled (%r)' % (exc,))
        return
    if got != want:
        out.violation('metric:labels-of-another-hit', 'two overlapping hits reported %r, their frames say %r' % (got, want),
                      witness, replay_spec(spec, seed))
    out.count('overlapping_hits_checked', 2)
    out.case({'overlap': seed}, nontrivial=True, sample=witness)


def run_shard(spec, out):
    wd = Workdir('c17')
    try:
        for seed in spec_seeds(spec):
            if spec['kind'] == 'overlap':
                case_overlap(seed, out, spec, wd.path)
                continue
            case_metric(seed, out, spec, wd.path)
    finally:
        wd.close()
