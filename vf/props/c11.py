"""C11 Tracepoint configuration is interpreted as documented, one tracepoint at a time.

Monitor: tracepoints are installed the way the agent receives them (protobuf -> convert_response, or
TracepointConfigService.add_custom with a synchronous task handler and a listener), a fixed probe program is driven
through every candidate location, and the recorded effects (snapshots pushed, log lines, metric calls, spans opened)
are compared with a table derived from the property statement. The product of the interacting argument keys is
enumerated exhaustively; the remaining keys and multi-tracepoint responses are sampled.
"""
import os
from concurrent.futures import Future

from vf import plugins, hostframe
from vf.rig import Rig
from vf.snaprig import Workdir
from vf.util import Rng, split_seeds, spec_seeds, replay_spec, short

ID = 'C11'
LEVEL = 'exploration'
TECHNIQUE = 'runtime monitor: effect table oracle over installed convert_response/add_custom output; exhaustive argument product'
RULE = ('exhaustive product stage(8 values incl. absent/unknown) x method_name(2) x span(4) x snapshot(4) x log_msg(2) '
        'x metrics(2) = 1024 argument sets, each installed through convert_response and through add_custom together '
        'with two well-formed companion tracepoints (one on the same line); sampled: condition / fire_count / '
        'fire_period / frame_type / stack_type / watches mixes and response lists of 1-6 tracepoints with duplicate '
        'locations and 0-2 uninterpretable ones; non-trivial = at least one effect expected; distinct by argument set')
ASSUMPTIONS = ['combinations whose meaning the repository does not define (method stage without method_name, unknown '
               'span/snapshot values) are checked for isolation only',
               'for *_end / *_capture stages only the number of effects per pass is asserted, not their timing']
EXHAUSTIVE = ['stage x method_name x span x snapshot x log_msg x metrics (1024 sets) on both installation paths']
REQUIRE = {'argument_sets': 1500, 'effects_compared': 4000, 'uninterpretable_sets': 200, 'unknown_metric_type_tracepoints': 10, 'companions_checked': 3000,
           'sampled_responses': 150}

STAGES = [None, 'line_start', 'line_end', 'line_capture', 'method_start', 'method_end', 'method_capture', 'bogus_stage']
SPANS = [None, 'line', 'method', 'banana']
SNAPS = [None, 'collect', 'no_collect', 'maybe']
LINE_STAGES = ('line_start', 'line_end', 'line_capture')
METHOD_STAGES = ('method_start', 'method_end', 'method_capture')

HOST = '''"""c11 probe"""
SCALE = 3


def probe(x):
    y = x * SCALE  # @p1
    z = y + 1  # @p2
    return z  # @p3


def other(a):
    b = a - 1  # @o1
    return b


def drive():
    out = [probe(1), probe(5)]
    out.append(other(9))
    return out
'''


def plan(tier, seed):
    combos = 1024
    specs = []
    for path_kind in ('wire', 'custom'):
        for lo in range(0, combos, 128):
            specs.append({'kind': 'product', 'path': path_kind, 'base': 'x', 'lo': lo, 'hi': lo + 128, 'seedv': seed})
    n = {'quick': 320, 'thorough': 6400}[tier]
    specs += split_seeds('r%s' % seed, n, 8, 'sampled')
    return specs


def combo(i):
    st = STAGES[i % 8]; i //= 8
    mn = [None, 'probe'][i % 2]; i //= 2
    sp = SPANS[i % 4]; i //= 4
    sn = SNAPS[i % 4]; i //= 4
    lg = [None, 'log {x}'][i % 2]; i //= 2
    me = bool(i % 2)
    return st, mn, sp, sn, lg, me


def build_args(st, mn, sp, sn, lg):
    args = {'fire_count': '-1', 'fire_period': '0'}
    if st is not None:
        args['stage'] = st
    if mn is not None:
        args['method_name'] = mn
    if sp is not None:
        args['span'] = sp
    if sn is not None:
        args['snapshot'] = sn
    if lg is not None:
        args['log_msg'] = lg
    return args


def classify(args, has_metrics):
    """Returns (placement, expected dict kind->count per pass or None when undefined).

    placement: 'line' | 'method' | 'undefined' | 'uninterpretable'
    """
    st = args.get('stage')
    mn = args.get('method_name')
    sp = args.get('span')
    eff = st if st is not None else ('method_start' if (mn is not None or sp == 'method') else 'line_start')
    if eff in LINE_STAGES:
        placement = 'line'
    elif eff in METHOD_STAGES:
        placement = 'method' if mn is not None else 'undefined'
    else:
        placement = 'uninterpretable'
    exp = {}
    sn = args.get('snapshot')
    exp['snapshot'] = None if sn not in (None, 'collect', 'no_collect') else (0 if sn == 'no_collect' else 1)
    exp['log'] = 1 if 'log_msg' in args else 0
    exp['metric'] = 1 if has_metrics else 0
    exp['span'] = None if sp not in (None, 'line', 'method') else (1 if sp is not None else 0)
    return placement, exp


class SyncHandler:
    """Task handler that runs the task at once (the unit tests use a mock in the same place)."""

    def submit_task(self, task, *args):
        f = Future()
        try:
            f.set_result(task(*args))
        except BaseException as e:  # noqa
            f.set_exception(e)
        return f


def install_via_custom(tps, rig, witness):
    """Register through TracepointConfigService.add_custom; returns list of (tp index, raised?)."""
    from deep.config.tracepoint_config import TracepointConfigService, ConfigUpdateListener
    from deep.api.tracepoint.tracepoint_config import MetricDefinition
    svc = TracepointConfigService()
    svc.set_task_handler(SyncHandler())
    latest = {}

    class L(ConfigUpdateListener):
        def config_change(self, ts, old_hash, current_hash, old_config, new_config):
            latest['cfg'] = list(new_config)

    svc.add_listener(L())
    raised = []
    for tp in tps:
        metrics = [MetricDefinition('m_' + tp['id'], 'counter')] if tp['metrics'] else []
        try:
            svc.add_custom(tp['path'], tp['line'], dict(tp['args']), list(tp['watches']), metrics)
            raised.append(None)
        except BaseException as e:  # noqa
            raised.append(repr(e))
    cfg = latest.get('cfg', [])
    rig.install(cfg)
    return raised


def install_via_wire(tps, rig):
    from deepproto.proto.tracepoint.v1.tracepoint_pb2 import TracePointConfig, Metric, MetricType
    from deep.grpc import convert_response
    protos = []
    for tp in tps:
        metrics = [Metric(name='m_' + tp['id'], type=MetricType.COUNTER)] if tp['metrics'] else []
        if tp['metrics'] == 'unknown_type':
            metrics = [Metric(name='m_' + tp['id'], type=99)]
        protos.append(TracePointConfig(ID=tp['id'], path=tp['path'], line_number=tp['line'], args=tp['args'],
                                       watches=tp['watches'], metrics=metrics))
    rig.install(convert_response(protos))


def run_probe(wd, tps, path_kind, out, witness, replay):
    """Install tps, drive the probe, return effects: dict tp index -> {kind: [event keys]} (None on failure)."""
    plugins.reset()
    hpath = os.path.join(wd, 'c11probe.py')
    if not os.path.exists(hpath):
        with open(hpath, 'w') as f:
            f.write(HOST)
    mod = hostframe.load(hpath)
    rig = Rig(custom={}, host_dir=wd, plugins=[plugins.RecLogger(), plugins.RecMetrics(), plugins.RecSpans()])
    try:
        if path_kind == 'wire':
            install_via_wire(tps, rig)
        else:
            witness['add_custom_raised'] = install_via_custom(tps, rig, witness)
    except BaseException as e:  # noqa
        import traceback
        out.violation('interpretation:response-lost',
                      'installing the response raised %r: no tracepoint of it is installed' % (e,),
                      dict(witness, trace=traceback.format_exc()[-500:]), replay)
        rig.cleanup()
        return None, None
    effects = {}
    ids = {tp['id']: i for i, tp in enumerate(tps)}

    def note(tp_id, kind, ev):
        if path_kind == 'custom':
            return  # ids are generated for custom registrations; matched below by metric name / log text / watches
        i = ids.get(tp_id)
        if i is not None:
            effects.setdefault(i, {}).setdefault(kind, []).append(ev.key() if ev else None)

    raw = []

    def hook(name, callback, payload):
        ev = rig.current_event()
        raw.append((callback, payload, ev.key() if ev else None))

    plugins.HOOK[0] = hook
    try:
        result, exc = rig.run(mod.drive)
    finally:
        plugins.HOOK[0] = None
    pushed = [(p.snapshot, p.ev.key() if p.ev else None) for p in rig.push.pushed]
    escapes = list(rig.escapes)
    rig.cleanup()
    if exc is not None or result != [4, 16, 8]:
        out.violation('transparency:probe-outcome', 'probe returned %r / raised %r with the tracepoints installed' % (
            result, exc), witness, replay)
        return None, None
    if escapes:
        out.violation('containment:escape', 'trace handler raised: %s' % escapes[0][2][-300:], witness, replay)
        return None, None
    # attribute effects to tracepoints by their distinguishing marks (id on the wire path, marks otherwise)
    for i, tp in enumerate(tps):
        e = effects.setdefault(i, {})
        for snap, key in pushed:
            if (path_kind == 'wire' and snap.tracepoint.id == tp['id']) or (
                    path_kind == 'custom' and list(snap.tracepoint.watches) == tp['watches'] and tp['watches']):
                e.setdefault('snapshot', []).append(key)
        for cb, payload, key in raw:
            if cb == 'log' and tp['mark'] and payload['msg'].startswith('[deep] ' + tp['mark']):
                e.setdefault('log', []).append(key)
                want = '[deep] ' + tp['args']['log_msg'].replace('{SCALE}', '3')
                if tp['args']['log_msg'].startswith('mark') and payload['msg'] != want:
                    out.violation('interpretation:log-text', 'tracepoint %s with log_msg %r logged %r, expected %r' % (
                        tp['id'], tp['args']['log_msg'], payload['msg'], want), witness, replay)
                    return None, None
            if cb == 'metric' and payload[1] == 'm_' + tp['id']:
                e.setdefault('metric', []).append(key)
            if cb == 'span_open' and ((path_kind == 'wire' and payload['tp'] == tp['id'])):
                e.setdefault('span', []).append(key)
    return effects, pushed


def passes_for(tp, placement, marks, base):
    """Event keys at which the tracepoint must act, from the fixed probe (probe called twice, other once)."""
    if placement == 'line':
        per = {marks['p1']: 2, marks['p2']: 2, marks['p3']: 2, marks['o1']: 1}
        func = 'other' if tp['line'] == marks['o1'] else 'probe'
        n = per.get(tp['line'], 0)
        return [('line', base, tp['line'], func)] * n
    if placement == 'method':
        name = tp['args'].get('method_name')
        n = {'probe': 2, 'other': 1}.get(name, 0)
        return [('call', base, marks_def(name), name)] * n
    return None


_defs = {}


def marks_def(name):
    return _defs.get(name)


def check_tp(i, tp, effects, placement, exp, marks, base, out, witness, replay, precise):
    got = effects.get(i, {})
    want_events = passes_for(tp, placement, marks, base)
    n_ok = 0
    for kind in ('snapshot', 'log', 'metric', 'span'):
        per_pass = exp.get(kind)
        if per_pass is None:
            continue
        if kind == 'log' and not tp.get('mark'):
            continue
        have = got.get(kind, [])
        want_n = per_pass * len(want_events)
        if len(have) != want_n:
            out.violation('interpretation:%s-%s' % (kind, 'missing' if len(have) < want_n else 'unexpected'),
                          'tracepoint %s args=%s: %d %s effect(s) observed, %d expected (%s placement, %d passes)' % (
                              tp['id'], short(tp['args'], 200), len(have), kind, want_n, placement, len(want_events)),
                          witness, replay)
            return False
        if precise and per_pass and sorted(have, key=repr) != sorted(want_events * per_pass, key=repr):
            out.violation('interpretation:%s-misplaced' % kind,
                          'tracepoint %s args=%s: %s acted at %s, expected at %s' % (
                              tp['id'], short(tp['args'], 200), kind, short(sorted(set(have), key=repr), 200),
                              short(sorted(set(want_events), key=repr), 200)), witness, replay)
            return False
        n_ok += 1
    out.count('effects_compared', n_ok)
    return True


def companions(base, marks):
    return [
        {'id': 'comp-same', 'path': base, 'line': marks['p2'], 'args': {'fire_count': '-1', 'fire_period': '0'},
         'watches': ['y'], 'metrics': False, 'mark': ''},
        {'id': 'comp-log', 'path': base, 'line': marks['o1'],
         'args': {'fire_count': '-1', 'fire_period': '0', 'log_msg': 'companion {a}', 'snapshot': 'no_collect'},
         'watches': [], 'metrics': False, 'mark': 'companion '},
    ]


def check_companions(effects, idxs, tps, marks, base, out, witness, replay):
    for i in idxs:
        tp = tps[i]
        placement, exp = classify(tp['args'], tp['metrics'])
        exp = dict(exp)
        exp['span'] = None  # companions carry no span
        if not check_tp(i, tp, effects, placement, exp, marks, base, out, dict(witness, companion=tp['id']), replay,
                        precise=True):
            return False
        out.count('companions_checked')
    return True


def case_product(i, path_kind, out, spec, wd):
    st, mn, sp, sn, lg, me = combo(i)
    hpath = os.path.join(wd, 'c11probe.py')
    if not os.path.exists(hpath):
        with open(hpath, 'w') as f:
            f.write(HOST)
    marks = hostframe.markers(hpath)
    _defs.update({'probe': marks['p1'] - 1, 'other': marks['o1'] - 1})
    base = os.path.basename(hpath)
    args = build_args(st, mn, sp, sn, lg)
    tp = {'id': 'tut', 'path': base, 'line': marks['p2'], 'args': args, 'watches': ['x', 'SCALE'], 'metrics': me,
          'mark': 'log ' if lg else ''}
    tps = [tp] + companions(base, marks)
    witness = {'args': args, 'metrics': me, 'install_path': path_kind}
    replay = {'kind': 'product', 'path': path_kind, 'seeds': [i]}
    placement, exp = classify(args, me)
    effects, pushed = run_probe(wd, tps, path_kind, out, witness, replay)
    out.count('argument_sets')
    if placement == 'uninterpretable':
        out.count('uninterpretable_sets')
    if effects is None:
        out.case({'i': i, 'p': path_kind}, nontrivial=True, sample=witness)
        return
    ok = check_companions(effects, [1, 2], tps, marks, base, out, witness, replay)
    if ok and placement in ('line', 'method'):
        if path_kind == 'custom':
            exp = dict(exp, span=None)  # span events carry only the generated id on this path
        precise = args.get('stage') in (None, 'line_start', 'method_start')
        check_tp(0, tp, effects, placement, exp, marks, base, out, witness, replay, precise)
    elif ok and placement == 'uninterpretable':
        got = {k: len(v) for k, v in effects.get(0, {}).items() if v}
        if got:
            out.violation('interpretation:uninterpretable-acted', 'tracepoint with unknown stage %r produced %s' % (
                st, got), witness, replay)
    out.case({'i': i, 'p': path_kind}, nontrivial=True,
             sample={'args': args, 'metrics': me, 'install_path': path_kind, 'placement': placement,
                     'expected_per_pass': exp, 'observed': {k: len(v) for k, v in effects.get(0, {}).items()}})


def case_sampled(seed, out, spec, wd):
    r = Rng('c11', seed)
    hpath = os.path.join(wd, 'c11probe.py')
    if not os.path.exists(hpath):
        with open(hpath, 'w') as f:
            f.write(HOST)
    marks = hostframe.markers(hpath)
    _defs.update({'probe': marks['p1'] - 1, 'other': marks['o1'] - 1})
    base = os.path.basename(hpath)
    path_kind = r.pick(['wire', 'wire', 'custom'])
    n = r.randrange(1, 7)
    tps = []
    lines = [marks['p1'], marks['p2'], marks['p3'], marks['o1']]
    for k in range(n):
        bad = r.chance(0.2)
        args = {'fire_count': r.pick(['-1', '-1', '1', '2']), 'fire_period': '0'}
        if bad:
            args['stage'] = r.pick(['bogus', 'LINE_START', '', 'method'])
        elif r.chance(0.25):
            args['stage'] = r.pick(['line_start', 'method_start'])
            if args['stage'] == 'method_start':
                args['method_name'] = r.pick(['probe', 'other'])
        elif r.chance(0.2):
            args['method_name'] = r.pick(['probe', 'other', 'never_called'])
        if r.chance(0.3):
            args['condition'] = r.pick(['x > 2', 'True', 'x == 1', 'SCALE == 3', '1/0', 'a > 100', 'x > 100'])
        if r.chance(0.3):
            args['frame_type'] = r.pick(['single_frame', 'all_frame', 'no_frame', 'weird'])
        if r.chance(0.2):
            args['stack_type'] = r.pick(['stack', 'no_stack', 'weird'])
        if r.chance(0.4):
            # (the text is the user's: blanks at either end of it are part of the message)
            args['log_msg'] = 'mark%d {SCALE}' % k + r.pick(['', '', ' ', ' .', '\t', ' -> '])
        if r.chance(0.3):
            args['snapshot'] = r.pick(['no_collect', 'collect'])
        if r.chance(0.15):
            args['span'] = r.pick(['line', 'method']) if 'method_name' in args else 'line'
        line = r.pick(lines) if not (tps and r.chance(0.35)) else tps[-1]['line']
        tps.append({'id': 'tp%d' % k, 'path': base, 'line': line, 'args': args,
                    'watches': ['SCALE', 'k%d' % k] if r.chance(0.7) else [], 'metrics': r.chance(0.3),
                    'mark': ('mark%d ' % k) if 'log_msg' in args else '', 'bad': bad})
        if path_kind == 'wire' and r.chance(0.08):
            # a metric of a type this client does not know (a newer service): this tracepoint cannot be interpreted
            tps[-1]['metrics'] = 'unknown_type'
    witness = {'tracepoints': [[t['id'], t['line'], t['args'], t['metrics']] for t in tps], 'install_path': path_kind}
    replay = replay_spec(spec, seed)
    effects, pushed = run_probe(wd, tps, path_kind, out, witness, replay)
    out.count('sampled_responses')
    if effects is None:
        out.case({'s': seed}, nontrivial=True, sample=witness)
        return
    total = 0
    for i, tp in enumerate(tps):
        placement, exp = classify(tp['args'], tp['metrics'])
        if tp['args'].get('stage') in ('', 'LINE_START', 'method', 'bogus') or tp['metrics'] == 'unknown_type':
            placement = 'uninterpretable'
            if tp['metrics'] == 'unknown_type':
                out.count('unknown_metric_type_tracepoints')
        if placement == 'uninterpretable':
            out.count('uninterpretable_sets')
            continue
        if placement == 'undefined':
            continue
        # apply the tracepoint's own condition and fire_count to the passes of the fixed probe
        events = passes_for(tp, placement, marks, base)
        events = own_limits(tp, events, marks)
        if events is None:
            continue
        exp = dict(exp)
        if path_kind == 'custom':
            exp['span'] = None
            if not tp['watches']:
                exp['snapshot'] = None
        got = effects.get(i, {})
        for kind in ('snapshot', 'log', 'metric', 'span'):
            per = exp.get(kind)
            if per is None or (kind == 'log' and not tp['mark']):
                continue
            have = got.get(kind, [])
            if len(have) != per * len(events):
                out.violation('interpretation:%s-%s' % (kind, 'missing' if len(have) < per * len(events) else 'unexpected'),
                              'tracepoint %s args=%s in a response of %d: %d %s effect(s), %d expected' % (
                                  tp['id'], short(tp['args'], 200), len(tps), len(have), kind, per * len(events)),
                              witness, replay)
                out.case({'s': seed}, nontrivial=True, sample=witness)
                return
            total += 1
        if path_kind == 'wire' and exp.get('snapshot'):
            for snap, key in pushed:
                if snap.tracepoint.id == tp['id'] and list(snap.tracepoint.watches) != tp['watches']:
                    out.violation('interpretation:foreign-watches', 'snapshot of %s carries watches %r, its own are %r' % (
                        tp['id'], list(snap.tracepoint.watches), tp['watches']), witness, replay)
                    return
    out.count('effects_compared', total)
    out.case({'s': seed, 't': witness['tracepoints']}, nontrivial=total > 0, sample=witness)


def own_limits(tp, events, marks):
    """Passes on which the tracepoint's own condition holds, cut to its own fire_count."""
    cond = tp['args'].get('condition')
    xs = {'probe': [1, 5], 'other': [9]}
    keep = []
    counters = {}
    for ev in events:
        func = ev[3]
        k = counters.get(func, 0)
        counters[func] = k + 1
        val = xs[func][k] if k < len(xs[func]) else None
        env = {'SCALE': 3}
        if func == 'probe':
            env['x'] = val
            if ev[0] == 'line' and ev[2] >= marks['p2']:
                env['y'] = val * 3
            if ev[0] == 'line' and ev[2] >= marks['p3']:
                env['z'] = val * 3 + 1
        else:
            env['a'] = val
        ok = True
        if cond:
            try:
                ok = eval(cond, {'__builtins__': {}}, env) is True
            except BaseException:  # noqa
                ok = False
        if ok:
            keep.append(ev)
    fc = int(tp['args'].get('fire_count', '1'))
    if fc != -1:
        keep = keep[:fc]
    return keep


def run_shard(spec, out):
    wd = Workdir('c11')
    try:
        if spec['kind'] == 'product':
            idxs = spec['seeds'] if 'seeds' in spec else range(spec['lo'], spec['hi'])
            for i in idxs:
                case_product(int(i), spec['path'], out, spec, wd.path)
        else:
            for seed in spec_seeds(spec):
                case_sampled(seed, out, spec, wd.path)
    finally:
        wd.close()
