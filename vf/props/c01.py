"""C01 Host transparency: the agent never changes what the host program does.

Monitors: (a) differential - the same generated program is run bare, with the agent behind the recording wrapper, and
with the agent's own bound method installed raw; the canonical outcome (result, exception, log, module state, iterator
remainders) must be identical; (b) escape monitor - no exception may leave TriggerHandler.trace_call; (c) in the raw
run sys.gettrace() must still be the agent's function at the end of the main thread's and every worker thread's work;
(d) fault enumeration by thread hand-off: the host thread's trace function hands (frame, event, arg) to an agent
thread where sys.monitoring LINE events can fire; for every distinct line of agent code reached below the handler's
entry frame one run injects an exception there and requires: nothing escapes, the host outcome is unchanged, and the
tracepoints of the following invocation still act.
"""
import ast
import os
import queue
import sys
import threading

from vf import plugins, programs, hostframe, inject, graphs
from vf.rig import Rig, line_trigger, direct_trigger
from vf.snaprig import Workdir
from vf.util import Rng, split_seeds, spec_seeds, replay_spec, short

ID = 'C01'
LEVEL = 'fault_enumeration'
TECHNIQUE = 'differential runtime monitor (bare vs agent) + escape monitor + line-level fault enumeration inside the trace handler via sys.monitoring hand-off'
RULE = ('differential: generated programs (41 shapes incl. coroutines driven by hand and by an asyncio event loop - tasks, cancellation, async generators / with -, threads - also lock-step and a thread census -, generators, raising dunders, a seeded random generator, the traceback of a caught exception, a kept locals() dictionary, finalizers) x generated tracepoint '
        'sets (all action kinds, watches / conditions / log templates that fail or are malformed, expressions that '
        'touch values whose str()/attribute access raise incl. SystemExit, raising plugins, failing push); fault '
        'enumeration: for seeded (frame, tracepoint-set) pairs every distinct (file, line) of deep/ code executed in a '
        'callee of trace_call is faulted once (first occurrence; thorough: up to 4 occurrences and a BaseException '
        'variant), never on a with-header line and never while the entry frame is in its own except/finally body; '
        'non-trivial = at least one action was attempted / a fault was injected; distinct by canonical case')
ASSUMPTIONS = ['programs do not observe addresses, time, the recursion limit or the trace function',
               'object lifetimes are observed at frame exit only: inside a frame whose locals a tracer has read, CPython '
               '<= 3.12 keeps the frame.f_locals snapshot (and so a value removed with del) alive until the frame ends',
               'a fault inside the handler\'s own last-resort except block is a double fault and out of scope',
               'fault enumeration uses single-threaded hosts (the per-thread pending store is keyed by thread id)']
REQUIRE = {'programs_with_coroutines': 15, 'programs_compared': 150, 'actions_attempted': 1500, 'raw_runs': 100, 'thread_end_probes': 30,
           'fault_sites': 300, 'faults_injected': 300}
SHARD_TIMEOUT = {'quick': 400, 'thorough': 2400}


def plan(tier, seed):
    n = {'quick': 1, 'thorough': 15}[tier]
    specs = split_seeds('d%s' % seed, 320 * n, 10, 'diff')
    ncfg, nslice = {'quick': (2, 11), 'thorough': (12, 8)}[tier]
    for c in range(ncfg):
        for i in range(nslice):
            specs.append({'kind': 'fault', 'tier': tier, 'cfg': 'f%s:%d' % (seed, c), 'slice': [i, nslice]})
    return specs


# ------------------------------------------------------------------ tracepoint set generator
WATCH_POOL = ['n', 'v', 'i', 'x', 'total', 'held', 'pair', 'temp', 'registry', 'bad_str', 'bad_attr', 'bad_eq', 'exit_str', 'box', 'raw', 'self', 'log',
              'str(bad_str)', 'len(bad_attr)', 'bad_attr.anything', 'bad_eq == 1', 'str(exit_str)', '1/0', 'nope_zz',
              'STATE', 'tally', '[x for x in range(3)]', 'locals()', 'globals()["STATE"]', '__import__("os").sep',
              'HostError("w")', '(lambda: 1)()', 'sorted(STATE)']
COND_POOL = ['True', 'False', 'i > 1', 'v % 2 == 0', '1/0', 'nope_zz', 'bool(bad_attr)', 'bad_eq == 0', 'str(exit_str)',
             'STATE["calls"] >= 0', '', 'n is not None']
LOG_POOL = ['plain', 'v={v}', '{n} and {i}', '{bad_str}', '{exit_str}', '{1/0}', 'open {', 'close }', '{}', '{{esc}} {v}',
            '{bad_attr.x} {box}', '{v!r:>9}', '{STATE}', '%s %d {v}']


def gen_tracepoints(r, prog):
    from deep.api.tracepoint.tracepoint_config import MetricDefinition, LabelExpression
    trigs = []
    desc = []
    funcs = [f for f in prog.func_lines if f != 'main']
    for i in range(r.randrange(1, 8)):
        kind = r.pick(['snapshot', 'snapshot', 'snapshot', 'log', 'logsnap', 'metric', 'lspan', 'mspan', 'mcapture',
                       'lcapture', 'all'])
        args = {'fire_count': r.pick(['-1', '-1', '1', '3']), 'fire_period': '0'}
        if r.chance(0.3):
            args['condition'] = r.pick(COND_POOL)
        watches = r.sample(WATCH_POOL, r.randrange(0, 4))
        metrics = []
        line = r.pick(prog.lines)
        fn = None
        if kind in ('snapshot', 'logsnap', 'all'):
            args['frame_type'] = r.pick(['single_frame', 'all_frame', 'no_frame'])
        if kind in ('log', 'logsnap', 'all'):
            args['log_msg'] = r.pick(LOG_POOL)
        if kind in ('log', 'metric', 'lspan', 'mspan'):
            args['snapshot'] = 'no_collect'
        if kind in ('metric', 'all'):
            metrics = [MetricDefinition('m%d' % i, r.pick(['counter', 'gauge', 'histogram', 'summary']),
                                        [LabelExpression('l', None, r.pick(WATCH_POOL))] if r.chance(0.5) else [],
                                        r.pick([None, 'v', '1/0', 'bad_str', 'len(box)']))]
        if kind in ('lspan', 'all'):
            args['span'] = 'line'
        if kind == 'mspan':
            fn = r.pick(funcs)
            args['span'] = 'method'
            args['method_name'] = fn
            line = prog.func_lines[fn]
        tp_id = 'tp%d' % i
        if kind in ('mcapture', 'lcapture'):
            cfg = dict(args, stage='method_capture' if kind == 'mcapture' else 'line_capture', watches=watches)
            if kind == 'mcapture':
                fn = r.pick(funcs)
                b = (lambda tp_id=tp_id, cfg=cfg, fn=fn, c=args.get('condition'):
                     direct_trigger(tp_id, prog.base, None, 'Snapshot', cfg, condition=c, function=fn))
            else:
                b = (lambda tp_id=tp_id, cfg=cfg, line=line, c=args.get('condition'):
                     direct_trigger(tp_id, prog.base, line, 'Snapshot', cfg, condition=c))
        else:
            b = (lambda tp_id=tp_id, line=line, args=args, watches=watches, metrics=metrics:
                 line_trigger(tp_id, prog.base, line, args, watches, metrics))
        trigs.append(b)
        desc.append([tp_id, kind, fn or line, args, watches])
    for fn in [f for f in funcs if f.startswith('slots_and_dict_')]:
        # a snapshot right where the program is about to list the attributes of its object (taking the snapshot must
        # not add to, or otherwise change, the objects it describes)
        line = prog.func_lines[fn] + 4
        args = {'fire_count': '-1', 'fire_period': '0', 'frame_type': 'single_frame'}
        trigs.append(lambda tp_id='tps_' + fn, line=line, args=args: line_trigger(tp_id, prog.base, line, args, ['item'], []))
        desc.append(['tps_' + fn, 'snapshot', line, args, ['item']])
    for fn in [f for f in funcs if f.startswith('kept_error_')]:
        # asking a kept outcome for its result raises the error the program keeps: an expression that fails with an
        # exception object owned by the program (which reads that object's traceback afterwards)
        line = prog.func_lines[fn] + r.pick([6, 7])
        kind = r.pick(['watch', 'condition', 'log'])
        args = {'fire_count': '-1', 'fire_period': '0'}
        watches = []
        if kind == 'watch':
            watches = ['outcome.result()']
        elif kind == 'condition':
            args['condition'] = 'outcome.result() > 0'
        else:
            args['log_msg'] = 'result {outcome.result()}'
        trigs.append(lambda tp_id='tpk_' + fn, line=line, args=args, watches=watches:
                     line_trigger(tp_id, prog.base, line, args, watches, []))
        desc.append(['tpk_' + fn, kind, line, args, watches])
    return trigs, desc


def make_plugins(r):
    plist = [plugins.make('T%d' % i, ks, order=i)() for i, ks in enumerate([['log', 'dec'], ['met', 'span'],
                                                                         ['span', 'dec', 'met']])]
    faults = {}
    if r.chance(0.5):
        for _ in range(r.randrange(1, 4)):
            faults[('T%d' % r.randrange(3), r.pick(['decorate', 'log', 'metric', 'span_open', 'span_close']))] = \
                r.pick(['*', {0}, {1, 2}])
    return plist, faults


class ThreadProbe:
    """Records sys.gettrace() at the end of every thread's run (installed for bare and agent runs alike)."""

    def __init__(self):
        self.seen = []
        self._orig = None

    def __enter__(self):
        probe = self
        self._orig = threading.Thread.run

        def run(self_thread):
            try:
                probe._orig(self_thread)
            finally:
                probe.seen.append(sys.gettrace())

        threading.Thread.run = run
        return self

    def __exit__(self, *a):
        threading.Thread.run = self._orig


def case_diff(seed, out, spec, wd):
    r = Rng('c01', seed)
    sub = os.path.join(wd, 'c%s' % str(seed).replace(':', '_'))
    os.makedirs(sub, exist_ok=True)
    prog = programs.generate(r, sub, 'a')
    plugins.reset()
    builders, desc = gen_tracepoints(r, prog)
    push_fail = r.pick([None, None, 'exception', 'base'])
    replay = replay_spec(spec, seed)
    witness = {'shapes': prog.shapes, 'escaping_main': prog.escaping, 'tracepoints': desc, 'push_fail': push_fail}
    # (1) bare
    with ThreadProbe():
        bare = programs.run_outcome(programs.load(prog.path, 'vfprog_bare'))
    runs = {}
    attempted = 0
    for mode in ('wrapped', 'raw'):
        plugins.reset()
        plist, faults = make_plugins(Rng('pl', seed))
        plugins.FAULTS.update(faults)
        rig = Rig(custom={'APP_ROOT': sub}, host_dir=sub, plugins=plist)
        rig.keep_events = False
        if push_fail:
            def fail(snapshot, kind=push_fail):
                if kind == 'exception':
                    raise RuntimeError('push failed')
                raise KeyboardInterrupt('push interrupted')
            rig.push.fail = fail
        # fresh trigger objects per run: limits are kept per trigger object
        rig.install([t for t in (b() for b in builders) if t is not None])
        mod = programs.load(prog.path, 'vfprog_%s' % mode)
        with ThreadProbe() as probe:
            outcome, exc = rig.run(lambda: programs.run_outcome(mod), raw=(mode == 'raw'))
        runs[mode] = (outcome, exc, rig, probe)
        attempted += len(rig.push.pushed) + len(plugins.EVENTS)
        w2 = dict(witness, plugin_faults={'%s.%s' % k: short(v) for k, v in faults.items()},
                  agent_log=[short(x, 200) for x in rig.logs[-2:]])
        if exc is not None:
            out.violation('transparency:exception-in-host', '%s run: the host raised %r which the bare run does not' % (
                mode, exc), w2, replay)
        elif outcome != bare:
            diff = [k for k in bare if bare[k] != outcome.get(k)]
            out.violation('transparency:outcome-differs', '%s run: the host outcome differs in %s: bare %s / agent %s' % (
                mode, diff, short(bare[diff[0]], 200), short(outcome[diff[0]], 200)), w2, replay)
        if mode == 'wrapped' and rig.escapes:
            ev, name, tb = rig.escapes[0]
            out.violation('containment:escape', 'trace_call raised %s at a %s event of %s:%s (%d escapes): %s' % (
                name, ev.kind, ev.base, ev.line, len(rig.escapes), tb[-500:]), w2, replay)
        if mode == 'raw':
            out.count('raw_runs')
            if rig.end_trace is not rig.tracer:
                out.violation('transparency:tracing-switched-off', 'after the program sys.gettrace() is %r, the agent\'s '
                                                                   'function was installed' % (rig.end_trace,), w2, replay)
            for t in probe.seen:
                out.count('thread_end_probes')
                if t is not rig.tracer:
                    out.violation('transparency:tracing-switched-off', 'a worker thread ended with sys.gettrace()=%r' % (
                        t,), w2, replay)
                    break
        rig.cleanup()
    out.count('programs_compared')
    if any(x in ('coro_manual', 'asyncio_tasks') for x in prog.shapes):
        out.count('programs_with_coroutines')
    out.count('actions_attempted', attempted)
    out.case({'shapes': prog.shapes, 'calls': prog.calls, 'tps': desc, 'pf': push_fail},
             nontrivial=attempted > 0, sample={'shapes': prog.shapes, 'tracepoints': desc[:4], 'push_fail': push_fail,
                                               'actions_attempted': attempted, 'outcome_equal': True})


# ------------------------------------------------------------------ (d) fault enumeration by hand-off
class InjectedFault(Exception):
    pass


class InjectedBaseFault(BaseException):
    pass


FAULT_HOST = '''"""c01 fault host"""
SCALE = 2


class Odd:
    def __init__(self):
        self.ok = 1

    def __str__(self):
        raise ValueError("odd str")


def helper(v):
    w = v * SCALE
    return w  # @helper_ret


def leaf(a, box, odd):
    marker = helper(a)  # @hit
    total = marker + 1  # @hit2
    return total  # @hit3


def entry(k):
    out = []
    for i in range(k):
        out.append(leaf(i, [i, "s"], Odd()))  # @loop
    return out
'''


def fault_config(r, base, marks):
    """A rich tracepoint set so that every action kind and the pending-work paths run."""
    from deep.api.tracepoint.tracepoint_config import MetricDefinition, LabelExpression
    a = {'fire_count': '-1', 'fire_period': '0'}
    pool = [
        lambda: line_trigger('snap', base, marks['hit'], dict(a, frame_type=r.pick(['single_frame', 'all_frame'])),
                             r.sample(['a', 'box', 'odd', '1/0', 'SCALE', 'str(odd)'], 3)),
        lambda: line_trigger('logsnap', base, marks['hit2'], dict(a, log_msg='m={marker} {odd} {nope}'), ['marker']),
        lambda: line_trigger('logonly', base, marks['hit3'], dict(a, log_msg='t={total}', snapshot='no_collect'), []),
        lambda: line_trigger('metric', base, marks['hit2'], dict(a, snapshot='no_collect'), [],
                             [MetricDefinition('fm', 'counter', [LabelExpression('k', None, 'a')], 'marker'),
                              MetricDefinition('fg', 'gauge', [LabelExpression('s', 'static', None)], '1/0')]),
        lambda: line_trigger('lspan', base, marks['hit'], dict(a, span='line', snapshot='no_collect'), []),
        lambda: line_trigger('lspan3', base, marks['hit3'], dict(a, span='line', snapshot='no_collect'), []),
        lambda: line_trigger('mspan', base, marks['hit'] - 1, dict(a, span='method', method_name='leaf',
                                                                    snapshot='no_collect'), []),
        lambda: direct_trigger('mcap', base, None, 'Snapshot', dict(a, stage='method_capture', watches=['v']),
                               function='helper'),
        lambda: direct_trigger('lcap', base, marks['hit2'], 'Snapshot', dict(a, stage='line_capture')),
        lambda: line_trigger('cond', base, marks['hit3'], dict(a, condition=r.pick(['a > 0', '1/0', 'odd'])), ['total']),
    ]
    chosen = [i for i in range(len(pool)) if r.chance(0.6)] or [0, 2]
    return [pool[i]() for i in chosen], chosen


class HandOff:
    """Runs handler.trace_call on a dedicated agent thread (outside tracing, so LINE monitoring events fire)."""

    def __init__(self, handler):
        self.handler = handler
        self.req = queue.Queue()
        self.escapes = []
        self.calls = 0
        self.thread = threading.Thread(target=self._loop, daemon=True, name='vf-agent')
        self.thread.start()

    def _loop(self):
        while True:
            item = self.req.get()
            if item is None:
                return
            fn, frame, event, arg, box = item
            try:
                box['ret'] = self._entry(fn, frame, event, arg)
            except BaseException as e:  # noqa
                box['exc'] = e
            box['done'].set()

    def _entry(self, fn, frame, event, arg):
        # the frame below this one is the entry frame of whatever trace function the agent gave us for this event
        return fn(frame, event, arg)

    def tracer(self, host_dir):
        ho = self
        first = self.handler.trace_call

        def ask(fn, frame, event, arg):
            box = {'done': threading.Event()}
            ho.req.put((fn, frame, event, arg, box))
            if not box['done'].wait(30):
                raise RuntimeError('vf: agent thread did not answer')
            ho.calls += 1
            if 'exc' in box:
                ho.escapes.append((event, frame.f_lineno, box['exc']))
                return fn
            return box['ret']

        def local(fn):
            def L(frame, event, arg):
                r = ask(fn, frame, event, arg)
                if r is not None and r != fn:
                    return local(r)       # CPython: a non-None result replaces the frame's local trace function
                return L
            return L

        def W(frame, event, arg):
            if not frame.f_code.co_filename.startswith(host_dir):
                return W
            r = ask(first, frame, event, arg)
            return local(r) if r is not None else None

        return W

    def stop(self):
        self.req.put(None)
        self.thread.join(5)


_ast_cache = {}


def file_info(path):
    """Lines that must not be faulted: with-headers; and (start, end) ranges of except/finally bodies per function."""
    if path in _ast_cache:
        return _ast_cache[path]
    with_lines = set()
    handler_ranges = []
    try:
        tree = ast.parse(open(path).read())
        for node in ast.walk(tree):
            if isinstance(node, (ast.With, ast.AsyncWith)):
                last = max(getattr(i.context_expr, 'end_lineno', node.lineno) for i in node.items)
                with_lines.update(range(node.lineno, last + 1))
            if isinstance(node, ast.Try):
                for h in node.handlers:
                    handler_ranges.append((h.lineno, h.end_lineno))
                if node.finalbody:
                    handler_ranges.append((node.finalbody[0].lineno, node.finalbody[-1].end_lineno))
    except BaseException:  # noqa
        pass
    _ast_cache[path] = (with_lines, handler_ranges)
    return _ast_cache[path]


def run_fault_host(wd, mod, base, marks, cfg_seed, target=None, fault_cls=InjectedFault, record=None):
    """One run of the fault host under hand-off. target=(file, line, occurrence) to fault, record=list to log sites."""
    plugins.reset()
    r = Rng('fcfg', cfg_seed)
    plist = [plugins.make('F%d' % i, ks, order=i)() for i, ks in enumerate([['log', 'dec'], ['met', 'span'], ['span']])]
    rig = Rig(custom={'APP_ROOT': wd}, host_dir=wd, plugins=plist)
    trigs, chosen = fault_config(r, base, marks)
    rig.install(trigs)
    ho = HandOff(rig.handler)
    deep_root = os.path.join(os.environ.get('VERIF_REPO', '/repo'), 'src', 'deep') + os.sep
    agent_tid = ho.thread.ident
    counts = {}
    state = {'fired': False}

    def on_line(code, line):
        if threading.get_ident() != agent_tid:
            return None
        f = sys._getframe(2)   # 0 = this callback, 1 = LineInjector._cb, 2 = the frame whose line is about to run
        # find the handler's entry frame: its caller is HandOff._entry
        entry = f
        depth = 0
        while entry is not None and not (entry.f_back is not None and entry.f_back.f_code is HandOff._entry.__code__):
            entry = entry.f_back
            depth += 1
        if entry is None or depth == 0:
            return None  # not below the entry frame / the entry frame itself
        _, ranges = file_info(entry.f_code.co_filename)
        if any(a <= entry.f_lineno <= b for a, b in ranges):
            return None  # the entry frame is in its own except/finally body: double fault, out of scope
        with_lines, _ = file_info(code.co_filename)
        if line in with_lines:
            return None
        key = (code.co_filename[len(deep_root):], line)
        n = counts.get(key, 0)
        counts[key] = n + 1
        if record is not None:
            record.append((key[0], key[1], n))
        if target is not None and not state['fired'] and key == (target[0], target[1]) and n == target[2]:
            state['fired'] = True
            raise fault_cls('injected at %s:%s#%d' % target)
        return None

    res = {}

    def body(tracer):
        # a thread of its own: the stack below the host frames is then only the small threading bootstrap
        sys.settrace(tracer)
        try:
            res['result'] = mod.entry(2)
        except BaseException as e:  # noqa
            res['exc'] = e
        finally:
            sys.settrace(None)

    with inject.LineInjector(lambda fn: fn.startswith(deep_root), on_line):
        t = threading.Thread(target=body, args=(ho.tracer(wd),), name='vf-fault-host')
        t.start()
        t.join(60)
    ho.stop()
    result, exc = res.get('result'), res.get('exc')
    if t.is_alive():
        exc = RuntimeError('vf: fault host did not finish')
    acts = [(e[2], e[3]) for e in plugins.EVENTS]
    second = _second_invocation_actions(plugins.EVENTS, rig)
    info = {'result': result, 'exc': exc, 'escapes': list(ho.escapes), 'fired': state['fired'], 'chosen': chosen,
            'actions': len(acts) + len(rig.push.pushed), 'second': second, 'calls': ho.calls,
            'logs': [short(x, 200) for x in rig.logs[-2:]]}
    rig.cleanup()
    return info


def _second_invocation_actions(events, rig):
    """Multiset of actions that belong to the second leaf() invocation (a==1): logs mentioning it + metric labels."""
    n_log = sum(1 for e in events if e[3] == 'log' and ('m=2' in e[4]['msg'] or 't=3' in e[4]['msg']))
    n_met = sum(1 for e in events if e[3] == 'metric' and str(e[4][2].get('k')) == '1')
    n_snap = 0
    for p in rig.push.pushed:
        try:
            vals = {v.name: p.snapshot.var_lookup[v.vid].value for v in p.snapshot.frames[0].variables
                    if v.vid in p.snapshot.var_lookup}
            if vals.get('a') == '1' or vals.get('v') == '1':
                n_snap += 1
        except BaseException:  # noqa
            pass
    return (n_log, n_met, n_snap)


def case_fault(out, spec, wd):
    tier = spec.get('tier', 'quick')
    cfg_seed = spec['cfg']
    path = os.path.join(wd, 'c01fault.py')
    if not os.path.exists(path):
        with open(path, 'w') as f:
            f.write(FAULT_HOST)
    base = os.path.basename(path)
    marks = hostframe.markers(path)
    mod = hostframe.load(path)
    sites = []
    good = run_fault_host(wd, mod, base, marks, cfg_seed, record=sites)
    replay = {k: v for k, v in spec.items() if k not in ('slice', 'only')}
    witness = {'tracepoints_chosen': good['chosen']}
    if good['exc'] is not None or good['result'] != [1, 3] or good['escapes']:
        out.violation('containment:escape', 'fault-free hand-off run: result %r exc %r escapes %s' % (
            good['result'], good['exc'], short(good['escapes'][:1], 300)), witness, replay)
        return
    per_site = {}
    for fn, line, n in sites:
        per_site.setdefault((fn, line), []).append(n)
    targets = []
    max_occ = 1 if tier == 'quick' else 4
    for (fn, line), occs in sorted(per_site.items()):
        picks = occs[:1] + ([occs[len(occs) // 2], occs[-1]] if max_occ > 1 and len(occs) > 2 else [])
        for n in sorted(set(picks)):
            targets.append((fn, line, n))
    if 'only' in spec:
        targets = [tuple(t) for t in spec['only']]
    else:
        i, m = spec.get('slice', [0, 1])
        targets = targets[i::m]
    out.count('fault_sites', len({(t[0], t[1]) for t in targets}))
    injected = 0
    for k, t in enumerate(targets):
        variants = [InjectedFault]
        if tier == 'thorough' or k % 4 == 0:
            variants.append(InjectedBaseFault)
        for cls in variants:
            bad = run_fault_host(wd, mod, base, marks, cfg_seed, target=t, fault_cls=cls)
            if not bad['fired']:
                continue
            injected += 1
            out.case({'cfg': cfg_seed, 't': list(t), 'c': cls.__name__}, nontrivial=True,
                     sample={'tracepoints_chosen': good['chosen'], 'fault_at': 'deep/%s:%s occurrence %d' % t,
                             'fault_type': cls.__name__, 'host_events_handled': bad['calls'],
                             'escaped': len(bad['escapes'])})
            w = {'tracepoints_chosen': good['chosen'], 'fault_at': '%s:%s occurrence %d' % t, 'fault_type': cls.__name__,
                 'agent_log': bad['logs']}
            rp = dict(replay, only=[list(t)])
            if bad['escapes']:
                ev, ln, e = bad['escapes'][0]
                out.violation('containment:fault-escaped', 'a %s raised at deep/%s:%s left trace_call (%s event of host '
                                                           'line %s): %r' % (cls.__name__, t[0], t[1], ev, ln, e), w, rp)
            elif bad['exc'] is not None or bad['result'] != good['result']:
                out.violation('transparency:outcome-differs', 'fault at deep/%s:%s changed the host outcome: %r / %r' % (
                    t[0], t[1], bad['result'], bad['exc']), w, rp)
            elif bad['calls'] != good['calls']:
                out.violation('transparency:tracing-switched-off', 'after the fault at deep/%s:%s the handler saw %d '
                                                                   'events instead of %d' % (t[0], t[1], bad['calls'],
                                                                                             good['calls']), w, rp)
    out.count('faults_injected', injected)
    for t in targets:
        out.distinct('fault_files', t[0])


def run_shard(spec, out):
    wd = Workdir('c01')
    try:
        if spec['kind'] == 'fault':
            case_fault(out, spec, wd.path)
        else:
            for seed in spec_seeds(spec):
                case_diff(seed, out, spec, wd.path)
    finally:
        wd.close()
