"""C14 Lifecycle: hooks installed once, restored exactly; shutdown always completes.

Monitor: one scripted lifecycle per fresh interpreter (real deep.start against the loopback gRPC server): after every
start / repeated start / shutdown / repeated shutdown the monitor reads sys.gettrace() and threading.gettrace(),
counts live poll-timer threads, reads Deep.started and the recording plugins' shutdown calls, and after the final
shutdown drives the host code again on the calling thread, a new thread and a thread that was parked inside a traced
frame, requiring that nothing (send, log, metric, span) happens any more. Faults are injected around shutdown:
service gone / answering with errors, pending sends failing while flush waits, individual plugins raising in shutdown.
"""
from vf import e2e
from vf.util import Rng, split_seeds, spec_seeds, replay_spec, short

ID = 'C14'
LEVEL = 'fault_enumeration'
TECHNIQUE = 'runtime monitor over scripted lifecycles with injected shutdown faults (fresh interpreter per lifecycle, loopback gRPC)'
RULE = ('lifecycles = product of pre-existing hooks (sys x threading: none / a function) x tracing enabled or NO_TRACE '
        'x op sequence (start, start-start, shutdown-shutdown) x fault subset of {service stopped, service answers '
        'errors, pending send fails (immediately / released while flush waits / only the oldest one while the others are still on their way), a plugin taking itself off the plugin list in its shutdown, each of 1-3 plugins raising in '
        'shutdown}; the 4x2x3 hook/sequence product is enumerated exhaustively with no fault, fault subsets are '
        'seeded; non-trivial = a pre-existing hook existed, or a fault was injected, or an op was repeated; distinct by '
        'canonical lifecycle')
ASSUMPTIONS = ['whether shutdown() itself raises is not asserted, only that everything it promises has happened',
               'repeat start means start() on the same Deep instance']
EXHAUSTIVE = ['pre-existing sys hook x pre-existing threading hook x NO_TRACE x op sequence (24 lifecycles, no fault)']
REQUIRE = {'lifecycles': 80, 'hook_observations': 180, 'faulted_shutdowns': 40, 'post_shutdown_probes': 60,
           'no_trace_lifecycles': 10, 'tracing_disabled_between_two_starts': 2, 'plugin_shutdown_faults': 15}
SHARD_TIMEOUT = {'quick': 400, 'thorough': 2400}
SEQS = [['start', 'shutdown'], ['start', 'start', 'shutdown'], ['start', 'shutdown', 'shutdown']]
# 'swap_live': the application changes its own hooks while an agent with tracing disabled is running
SEQS_LIVE = [['start', 'swap_live', 'shutdown'], ['start', 'swap_live', 'shutdown', 'start', 'shutdown']]
SEQS_MORE = SEQS + [['start', 'shutdown', 'swap', 'start', 'shutdown'], ['start', 'shutdown', 'swap', 'start', 'shutdown']]


def plan(tier, seed):
    specs = []
    base = []
    for pre_sys in (False, True):
        for pre_thr in (False, True):
            for no_trace in (False, True):
                for si in range(3):
                    base.append({'pre_sys': pre_sys, 'pre_thr': pre_thr, 'no_trace': no_trace, 'ops': SEQS[si],
                                 'faults': [], 'nplug': 1})
    for i in range(0, len(base), 3):
        specs.append({'kind': 'fixed', 'cases': base[i:i + 3]})
    specs.append({'kind': 'fixed', 'cases': [
        {'pre_sys': ps, 'pre_thr': ps, 'no_trace': False, 'ops': ['start', 'shutdown', 'disable', 'start', 'shutdown'],
         'faults': [], 'nplug': 1} for ps in (False, True)]})
    n = {'quick': 72, 'thorough': 1200}[tier]
    specs += split_seeds('f%s' % seed, n, 12 if tier == 'quick' else 16, 'faulted')
    return specs


FAULTS = ['server_stopped', 'poll_errors', 'send_fails', 'send_fails_during_flush', 'plugin0_shutdown',
          'plugin1_shutdown', 'plugin2_shutdown', 'poll_slow', 'same_plugin_names', 'plugin_named_poll',
          'first_send_fails_rest_slow', 'deregistering_plugin0', 'update_queued_behind_sends', 'hits_during_shutdown']


def gen_case(seed):
    r = Rng('c14', seed)
    nplug = r.randrange(1, 4)
    faults = [f for f in FAULTS if r.chance(0.25) and not (f[:6] == 'plugin' and f[6].isdigit() and int(f[6]) >= nplug)]
    if not faults:
        faults = [r.pick(FAULTS[:4] + ['plugin0_shutdown', 'poll_slow', 'same_plugin_names', 'plugin_named_poll',
                                       'first_send_fails_rest_slow'])]
    if 'first_send_fails_rest_slow' in faults:
        faults = [f for f in faults if f not in ('send_fails', 'send_fails_during_flush', 'server_stopped')]
    if 'hits_during_shutdown' in faults:
        faults = ['hits_during_shutdown'] + [f for f in faults if f in ('same_plugin_names', 'plugin1_shutdown')]
        nplug = max(nplug, 2)
    if 'update_queued_behind_sends' in faults:
        faults = [f for f in faults if f not in ('send_fails', 'send_fails_during_flush', 'server_stopped',
                                                 'first_send_fails_rest_slow', 'poll_errors', 'poll_slow')]
    if 'poll_slow' in faults and 'server_stopped' in faults:
        faults.remove('server_stopped')
    case = {'pre_sys': r.chance(0.5), 'pre_thr': r.chance(0.5), 'no_trace': r.chance(0.25), 'ops': r.pick(SEQS_MORE),
            'faults': faults, 'nplug': nplug}
    if case['no_trace'] and r.chance(0.5):
        case['ops'] = r.pick(SEQS_LIVE)
    return case


def judge(case, res, out, replay):
    witness = {'lifecycle': case, 'observations': res.get('obs'), 'shutdown_raised': res.get('shutdown_raised'),
               'post': res.get('post')}
    if res.get('inconclusive'):
        out.inconc('C14 ' + res['inconclusive'])
        return False
    if res.get('child_failed'):
        out.violation('lifecycle:session-crashed', 'lifecycle process failed: %s' % res.get('stderr', '')[-700:],
                      witness, replay)
        return False
    obs = res['obs']
    pre = obs[0]['hooks']
    started_once = False
    disabled = False
    for o in obs[1:]:
        out.count('hook_observations')
        op = o['op']
        if op == 'swap':
            pre = o['hooks']      # the application changed its own hooks while the agent was shut down
            continue
        if op == 'disable':
            disabled = True
            out.count('tracing_disabled_between_two_starts')
            continue
        if op == 'hits-during-shutdown':
            out.count('lifecycles_with_hits_during_shutdown')
            # the one hit that is being collected at the instant the trigger handler is stopped may find delivery
            # closed already (it is refused, C09); no further hit is collected after that instant
            if o['never_sent'] > 1:
                out.violation('shutdown:collected-but-never-sent', '%d of %d snapshots collected by the one thread that kept '
                                                                   'running during shutdown were never delivered (more '
                                                                   'than the single hit that can be in flight)' % (
                                                                       o['never_sent'], o['collected']), witness, replay)
                return False
            continue
        if case['no_trace'] or (disabled and op.startswith('start')):
            if o['hooks'] != pre:
                out.violation('hooks:changed-under-no-trace', 'after %s (tracing disabled) the hooks are %s, before '
                                                              'start they were %s' % (op, o['hooks'], pre), witness, replay)
                return False
        else:
            if op.startswith('start'):
                if o['hooks'] != ['agent', 'agent']:
                    out.violation('hooks:not-installed', 'after %s hooks are %s' % (op, o['hooks']), witness, replay)
                    return False
                if o['timers'] is not None and o['timers'] != 1:
                    mech = 'start:second-timer' if o['timers'] > 1 else 'start:no-timer'
                    out.violation(mech, 'after %s there are %d poll timer threads' % (op, o['timers']), witness, replay)
                    return False
            if op.startswith('shutdown'):
                if o['hooks'] != pre:
                    out.violation('hooks:not-restored', 'after %s hooks are %s, before start they were %s' % (
                        op, o['hooks'], pre), witness, replay)
                    return False
        if op.startswith('start') and not o['started']:
            out.violation('start:not-started', 'Deep.started is false after start', witness, replay)
            return False
        if op.startswith('shutdown'):
            if o['timers']:
                out.violation('shutdown:poll-timer-alive', 'after %s %d poll timer thread(s) still run (faults %s)' % (
                    op, o['timers'], case['faults']), witness, replay)
                return False
            if o.get('polls_after_shutdown') and 'server_stopped' not in case['faults']:
                out.violation('shutdown:poll-timer-alive', 'after %s the service still received %d polls (faults %s)' % (
                    op, o['polls_after_shutdown'], case['faults']), witness, replay)
                return False
            if o['started']:
                out.violation('shutdown:still-started', 'Deep.started is still true after %s (faults %s)' % (
                    op, case['faults']), witness, replay)
                return False
            missing = [p for p, n in o['plugin_shutdowns'].items() if n < 1] + sorted(
                '%s (%d object(s) created by a start and not shut down)' % kv
                for kv in (o.get('plugin_objects_never_shut_down') or {}).items())
            if missing:
                out.violation('shutdown:plugin-not-shut-down', 'after %s plugins %s were never shut down (faults %s)' % (
                    op, missing, case['faults']), witness, replay)
                return False
            if o.get('distinct_snapshot_ids') is not None and o['attempted'] > o['distinct_snapshot_ids']:
                out.violation('delivery:sent-more-than-once', 'the service received %d send requests for %d distinct '
                                                              'snapshots (faults %s): a snapshot is sent once, also when '
                                                              'the send fails' % (o['attempted'], o['distinct_snapshot_ids'],
                                                                                  case['faults']), witness, replay)
                return False
            if o['accepted'] is not None and o['attempted'] < o['accepted']:
                out.violation('shutdown:delivery-not-drained', 'shutdown returned with %d of %d accepted snapshots not '
                                                               'yet attempted' % (o['accepted'] - o['attempted'],
                                                                                  o['accepted']), witness, replay)
                return False
    post = res.get('post') or {}
    for where, acts in post.items():
        out.count('post_shutdown_probes')
        if acts:
            out.violation('shutdown:acts-afterwards', 'after shutdown returned the agent still acted (%s) on %s' % (
                acts, where), witness, replay)
            return False
    if not case['no_trace'] and not res.get('acted_before_shutdown'):
        out.inconc('C14 the tracepoints never acted before shutdown (nothing to drain)')
        return False
    return True


def run_case(case, out, replay):
    res = e2e.call_child('vf.props.c14', 'child_lifecycle', case, timeout=120)
    ok = judge(case, res, out, replay)
    out.count('lifecycles')
    if case['faults']:
        out.count('faulted_shutdowns')
    if case['no_trace']:
        out.count('no_trace_lifecycles')
    if any(f.startswith('plugin') and f[6].isdigit() for f in case['faults']):
        out.count('plugin_shutdown_faults')
    out.case(case, nontrivial=bool(case['faults'] or case['pre_sys'] or case['pre_thr'] or len(case['ops']) > 2),
             sample={'lifecycle': case, 'observations': (res.get('obs') or [])[:4], 'post': res.get('post')})


def run_shard(spec, out):
    if spec['kind'] == 'fixed':
        for i, case in enumerate(spec['cases']):
            run_case(case, out, {'kind': 'fixed', 'cases': [case]})
    else:
        for seed in spec_seeds(spec):
            run_case(gen_case(seed), out, replay_spec(spec, seed))


# ------------------------------------------------------------------ child (fresh interpreter)
def child_lifecycle(case):
    import sys
    import threading
    import time
    import grpc
    from vf import plugins
    from vf.server import LoopbackServer
    from deepproto.proto.tracepoint.v1.tracepoint_pb2 import TracePointConfig, Metric, MetricType
    marks = e2e.marker_lines()
    srv = LoopbackServer()
    args = {'fire_count': '-1', 'fire_period': '0'}
    srv.set_config('cfg', [
        TracePointConfig(ID='snap', path='e2e_target.py', line_number=marks['deposit_mid'], args=args),
        TracePointConfig(ID='log', path='e2e_target.py', line_number=marks['transfer_mid'],
                         args=dict(args, log_msg='lifecycle {amount}', snapshot='no_collect')),
        TracePointConfig(ID='met', path='e2e_target.py', line_number=marks['transfer_last'],
                         args=dict(args, snapshot='no_collect', span='line'),
                         metrics=[Metric(name='life_metric', type=MetricType.COUNTER)]),
    ])
    names = []
    for i in range(case['nplug']):
        kinds = [['log', 'met'], ['span', 'dec'], ['res', 'met']][i]
        display = None
        if 'same_plugin_names' in case['faults']:
            display = 'Twin'               # e.g. two AuditPlugin classes from different packages
        if 'plugin_named_poll' in case['faults'] and i == 0:
            display = 'poll'
        plugins.make('Life%d' % i, kinds, order=i, display_name=display,
                     deregister=(i == 0 and 'deregistering_plugin0' in case['faults']))
        names.append('vf.plugins.Life%d' % i)
    for f in case['faults']:
        if f.startswith('plugin') and f[6].isdigit():
            plugins.FAULTS[('Life%s' % f[6], 'shutdown')] = '*'
            plugins.BARE_FAULTS[0] = case['nplug'] % 2 == 0     # half of the lifecycles: failures without a message
            if len(case['faults']) % 2 == 0:
                # ... and some fail the way a plugin does that hands in work while delivery is closed, or is cancelled:
                # with something that is not an Exception subclass
                plugins.FAULT_CLASS[0] = plugins.PluginCancelled

    def pre_sys(frame, event, arg):
        return None

    def pre_thr(frame, event, arg):
        return None

    def pre_sys2(frame, event, arg):
        return None

    def pre_thr2(frame, event, arg):
        return None

    if case['pre_thr']:
        threading.settrace(pre_thr)
    if case['pre_sys']:
        sys.settrace(pre_sys)

    def hooks():
        def name(f):
            if f is None:
                return None
            if f is pre_sys:
                return 'pre_sys'
            if f is pre_thr:
                return 'pre_thr'
            if f is pre_sys2:
                return 'pre_sys2'
            if f is pre_thr2:
                return 'pre_thr2'
            mod = getattr(getattr(f, '__self__', None), '__class__', type(None)).__module__
            return 'agent' if str(mod).startswith('deep.') or 'deep' in str(getattr(f, '__module__', '')) else 'other'
        return [name(sys.gettrace()), name(threading.gettrace())]

    named = {'seen': False}

    def timers():
        # by thread name when the agent names its timer thread that way; otherwise unknown (None) and the
        # poll-based observation below decides alone
        n = sum(1 for t in threading.enumerate() if t.name == 'Tracepoint Long Poll' and t.is_alive())
        if n:
            named['seen'] = True
        return n if named['seen'] else None

    import deep
    from vf.targets import e2e_target
    cfg = srv.config({'PLUGINS': names, 'POLL_TIMER': 0.1, 'NO_TRACE': case['no_trace']})
    if 'disable' in case['ops']:
        del cfg['NO_TRACE']     # the setting is left to the environment, which changes between the two starts
    obs = [{'op': 'before', 'hooks': hooks()}]
    agent = None
    accepted = [0]
    acted = False
    shutdown_raised = []
    nstart = 0
    park_enter = threading.Event()
    park_go = threading.Event()
    parked = {}

    def observe(op):
        ps = {}
        never_shut = {}     # plugin objects the agent created (also by an earlier start) and has not shut down
        for i in range(case['nplug']):
            insts = [x for lst in plugins.INSTANCES.values() for x in lst if x.class_name == 'Life%d' % i]
            if insts:
                ps['Life%d' % i] = len(plugins.events('Life%d' % i, 'shutdown'))
                shut = {e[4]['instance'] for e in plugins.events('Life%d' % i, 'shutdown') if e[4]}
                left = [x for x in insts if id(x) not in shut]
                if left:
                    never_shut['Life%d' % i] = len(left)
        growth = None
        timers_now = timers()        # read at the moment the operation returned
        if op.startswith('shutdown') and not case['no_trace']:
            n1 = len(srv.polls)
            time.sleep(0.45)           # 4+ poll intervals
            growth = len(srv.polls) - n1
        obs.append({'op': op, 'hooks': hooks(), 'timers': timers_now, 'polls_after_shutdown': growth,
                    'started': bool(agent.started),
                    'plugin_shutdowns': ps, 'plugin_objects_never_shut_down': never_shut, 'accepted': accepted[0] if op.startswith('shutdown') else None,
                    'attempted': len(srv.snapshots),
                    'distinct_snapshot_ids': len({bytes(rec[0].ID) for rec in srv.snapshots})})

    try:
        for op in case['ops']:
            if op == 'swap_live':
                # tracing is disabled by configuration: the hooks are the application's own business, also while the
                # agent runs
                sys.settrace(pre_sys2 if not case['pre_sys'] else None)
                threading.settrace(pre_thr2)
                obs.append({'op': 'swap', 'hooks': hooks()})
                continue
            if op == 'swap':
                # while the agent is shut down the application installs other hooks (or removes them)
                sys.settrace(pre_sys2 if case['pre_thr'] else None)
                threading.settrace(pre_thr2 if case['pre_sys'] else None)
                obs.append({'op': 'swap', 'hooks': hooks()})
                continue
            if op == 'disable':
                # tracing is switched off (DEEP_NO_TRACE) while the agent is shut down: the next start leaves the hooks alone
                import os
                os.environ['DEEP_NO_TRACE'] = '1'
                obs.append({'op': 'disable', 'hooks': hooks()})
                continue
            if op == 'start':
                nstart += 1
                if agent is None:
                    agent = deep.start(cfg)
                else:
                    agent.start()
                observe('start#%d' % nstart)
                if nstart == 1 and not case['no_trace']:
                    if not srv.wait_polls(1):
                        return {'inconclusive': 'no poll after start'}
                    # behavioural wait until the configuration is installed
                    end = time.monotonic() + 15
                    while time.monotonic() < end and not srv.snapshots:
                        e2e_target.run(1)
                        srv.wait_snapshots(1, 0.2)
                    acted = bool(srv.snapshots)
                    # a thread parks inside a traced frame (it has a local trace function) until after shutdown
                    def parked_body():
                        parked['out'] = e2e_target_parked(park_enter, park_go)
                    pt = threading.Thread(target=parked_body, name='parked')
                    pt.start()
                    park_enter.wait(10)
            else:
                if agent.started and not case['no_trace'] and 'armed' not in parked:
                    parked['armed'] = True
                    # arrange the faults, then hand over a few more snapshots right before shutdown
                    gate = None
                    if 'send_fails' in case['faults']:
                        srv.fail_send = grpc.StatusCode.UNAVAILABLE
                    if 'send_fails_during_flush' in case['faults'] and 'server_stopped' not in case['faults']:
                        srv.fail_send = grpc.StatusCode.INTERNAL
                        gate = threading.Event()
                        srv.send_gate = gate
                    if 'first_send_fails_rest_slow' in case['faults']:
                        # the oldest pending delivery fails at once, the others are still on their way
                        failed_first = []

                        def first_only(request):
                            with srv.lock:
                                if failed_first:
                                    return None
                                failed_first.append(1)
                            return grpc.StatusCode.UNAVAILABLE
                        srv.fail_send = first_only
                        srv.send_delay = 0.3
                    if 'update_queued_behind_sends' in case['faults']:
                        # both delivery workers are busy with sends the service answers slowly; a configuration update
                        # arrives and waits behind them; shutdown begins; the sends are answered. What was queued must
                        # not bring the tracepoints back after shutdown.
                        gate = threading.Event()
                        srv.send_gate = gate
                    if 'hits_during_shutdown' in case['faults']:
                        # another thread keeps reaching the tracepoints while shutdown runs (sends are answered slowly,
                        # so the drain takes a moment): whatever is still collected is also delivered
                        srv.send_delay = 0.15
                        hitter_stop = threading.Event()

                        def keep_hitting():
                            while not hitter_stop.is_set():
                                e2e_target.run(1)
                        hitter = threading.Thread(target=keep_hitting, name='hitter')
                        hitter.start()
                        parked['hitter'] = (hitter, hitter_stop)
                    if 'poll_errors' in case['faults']:
                        srv.script = [('error', grpc.StatusCode.UNAVAILABLE)] * 50
                    before = len(plugins.events(None, 'decorate')) + _count_snap_events(srv)
                    n_before = len(srv.snapshots)
                    e2e_target.run(2)
                    accepted[0] = n_before + 4   # deposit_mid is passed 4 times by run(2)
                    if 'server_stopped' in case['faults']:
                        accepted[0] = None
                        srv.stop()
                    if 'update_queued_behind_sends' in case['faults']:
                        n_p = len(srv.polls)
                        srv.set_config('cfg-late', [TracePointConfig(ID='snap', path='e2e_target.py',
                                                                     line_number=marks['deposit_mid'], args=args),
                                                    TracePointConfig(ID='late', path='e2e_target.py',
                                                                     line_number=marks['transfer_mid'],
                                                                     args=dict(args, log_msg='late {amount}',
                                                                               snapshot='no_collect'))])
                        srv.wait_polls(n_p + 2, 5)      # the poll that fetched it has been answered
                    if gate is not None:
                        threading.Timer(0.15, gate.set).start()
                    if 'poll_slow' in case['faults'] and 'server_stopped' not in case['faults']:
                        # the service answers slowly: shut down while a timer-driven poll is in flight
                        srv.poll_delay = 0.5
                        end = time.monotonic() + 5
                        with srv.lock:
                            while srv.polls_in_flight == 0 and time.monotonic() < end:
                                srv.lock.wait(0.05)
                try:
                    agent.shutdown()
                except BaseException as e:  # noqa
                    shutdown_raised.append(repr(e))
                if 'hitter' in parked:
                    hitter, hitter_stop = parked.pop('hitter')
                    hitter_stop.set()
                    hitter.join(20)
                    accepted[0] = None
                    time.sleep(0.5)     # (sends that were accepted are answered 0.15 s late)
                    decorated = {str(e[4]['snapshot']) for e in plugins.EVENTS if e[3] == 'decorate'}
                    received = {rec[0].ID.hex() for rec in srv.snapshots}
                    lost = sorted(x for x in decorated if x.replace('-', '') not in received and x not in received)
                    obs.append({'op': 'hits-during-shutdown', 'collected': len(decorated), 'never_sent': len(lost),
                                'hooks': hooks()})
                if 'server_stopped' in case['faults']:
                    accepted[0] = None
                observe('shutdown#%d' % (len([o for o in obs if o['op'].startswith('shutdown')]) + 1))
        # after the last shutdown: nothing may happen any more
        post = {}
        if agent is not None and not case['no_trace']:
            def delta(fn):
                n_ev = len(plugins.EVENTS)
                n_sn = len(srv.snapshots)
                fn()
                time.sleep(0.15)
                acts = sorted({e[3] for e in plugins.EVENTS[n_ev:] if e[3] in ('log', 'metric', 'span_open', 'decorate')})
                if len(srv.snapshots) > n_sn:
                    acts.append('send')
                return acts
            post['calling thread'] = delta(lambda: e2e_target.run(1))

            def in_thread():
                t = threading.Thread(target=e2e_target.run, args=(1,))
                t.start()
                t.join(20)
            post['a new thread'] = delta(in_thread)

            def resume_parked():
                park_go.set()
                for t in threading.enumerate():
                    if t.name == 'parked':
                        t.join(20)
            post['a thread that was inside a traced frame'] = delta(resume_parked)
        park_go.set()
        return {'obs': obs, 'post': post, 'shutdown_raised': shutdown_raised, 'acted_before_shutdown': acted}
    finally:
        park_go.set()
        try:
            srv.stop()
        except BaseException:  # noqa
            pass


def _count_snap_events(srv):
    return len(srv.snapshots)


def e2e_target_parked(enter, go):
    """Runs the fixed host code but parks between two traced lines of transfer()."""
    from vf.targets import e2e_target

    class Gate(e2e_target.Account):
        def deposit(self, amount):
            if amount < 0:
                enter.set()
                go.wait(60)
            return super().deposit(amount)

    a = Gate('ann', 10)
    b = e2e_target.Account('bob', 1)
    return e2e_target.transfer(a, b, 3)
