"""C07 Snapshot variable table is closed and de-duplicated by object identity.

Monitor: for every delivered snapshot of sharing/cycle-heavy frames, (1) closure - every id referenced from a frame,
a child list or a watch/capture result is a key of the table, (2) bijection - walking the reported structure in
lock-step with the real objects, one id never stands for two objects and one object never has two ids,
(3) watch results (incl. freshly allocated temporaries evaluated one after another) equal the recorder's own
evaluation, so an id can not silently be re-used for a later temporary, (4) termination (watchdog => inconclusive).
"""
import os

from vf import snapcheck, graphs, hostframe
from vf.props.c02 import compare_watch
from vf.rig import line_trigger, direct_trigger
from vf.snaprig import FrameCase, Workdir
from vf.util import Rng, split_seeds, spec_seeds, replay_spec, short

ID = 'C07'
LEVEL = 'exploration'
TECHNIQUE = 'runtime monitor: closure + identity-bijection oracle over delivered snapshots of generated shared/cyclic graphs'
RULE = ('frames with 1-6 locals drawn from a sharing-heavy generator (same object under several names and inside '
        'several containers, self/mutual cycles, a local holding locals()), 0-8 watches mixing values already in the '
        'frame with freshly allocated temporaries and failing expressions, 1-2 actions on the event, variable budget '
        'default or (calibrated) small enough to be hit; non-trivial = snapshot delivered and the frame contains '
        'sharing, a cycle or a watch; distinct by canonical case')
ASSUMPTIONS = ['identity of watch temporaries cannot be compared (they are freed); their type/text is compared instead']
RULE += '; a watch on a structure of some two hundred values that is not in the frame, followed by watches on parts of it'
REQUIRE = {'large_watch_followed_by_watches_on_its_parts': 40, 'capture_snapshots': 60, 'snapshots_checked': 300, 'references_resolved': 3000, 'shared_objects_seen': 100, 'cycles_seen': 50,
           'temp_watches': 200, 'budget_hit_cases': 10, 'locals_of_locals_cases': 10,
           'meetings_inside_the_collector': 15}


def plan(tier, seed):
    n = {'quick': 1920, 'thorough': 28800}[tier]
    return (split_seeds('d%s' % seed, n, 14, 'dedup') + split_seeds('k%s' % seed, n // 8, 2, 'capture') +
            split_seeds('m%s' % seed, n // 40, 2, 'meeting'))


TEMP_WATCHES = ['[{a}]', '({a}, {b})', 'str({a})', '{{"k": {a}}}', '[1, 2, 3]', '"lit" + "eral"', '1/0', 'nope_zz',
                '{a} is {b}', 'len(str({a}))', '[{b}, [{a}]]', 'repr({b})[:20]', '3.5 * 2', '({a},)', 'dict(x=1)',
                'ValueError("fresh")', '[].missing', 'int("x")']
REAL_WATCHES = ['{a}', '{b}', '{a} if True else None']

_cal = {}


def calibrated(wd):
    if 'ok' not in _cal:
        case = FrameCase(wd, ['seq'], [[[1], [2], [3], [4], [5], [6]]], tag='cal')
        seen = {}

        def on_hit(ev, frame, stack, new):
            for rec in new:
                seen['n'] = len(rec.snapshot.var_lookup)

        case.run([direct_trigger('cal', case.base, case.line, 'Snapshot', {'MAX_VARIABLES': 3})], on_hit)
        _cal['ok'] = seen.get('n') is not None and seen['n'] <= 4
    return _cal['ok']


def case_dedup(seed, out, spec, wd):
    r = Rng('c07', seed)
    special = r.pick(['none'] * 6 + ['locals_of_locals'])
    nloc = r.randrange(1, 7)
    names = ['n%d' % i for i in range(nloc)]
    gg = graphs.GraphGen(r, hostile_p=0.0, max_depth=r.pick([2, 3, 4]), width=r.pick([2, 3, 4]))
    values = []
    for i in range(nloc):
        if values and r.chance(0.3):
            values.append(r.pick(values))  # same object under two names
            gg.kinds.add('shared')
        else:
            values.append(gg.value())
    if r.chance(0.3) and len(values) >= 2 and isinstance(values[0], list):
        values[0].append(values[-1])
        gg.kinds.add('shared')
    budget = r.pick([None, None, None, 2, 4, 7, 12])
    wl = []
    if r.chance(0.2):
        # many short-lived temporaries of one allocation class in a row: freed ids get reused at once
        kind_ = r.pick(['float', 'str', 'int', 'list', 'mixed'])
        for j in range(r.randrange(5, 12)):
            k_ = kind_ if kind_ != 'mixed' else r.pick(['float', 'str', 'int', 'list'])
            wl.append({'float': '%d.5 * 3' % (j + 1), 'str': '"t%d-" + "x" * 3' % j, 'int': '10 ** 12 + %d' % j,
                       'list': '[%d, "l"]' % j}[k_])
    else:
        for _ in range(r.pick([0, 1, 2, 4, 8])):
            t = r.pick(TEMP_WATCHES + REAL_WATCHES + REAL_WATCHES)
            wl.append(t.format(a=names[0], b=names[-1]))
    big_watch = r.chance(0.12)
    if big_watch:
        # a watch on a large structure that is not in the frame (a registry, a cache: some two hundred values), followed
        # by watches on parts of it: whatever becomes of the large one, the later ones refer to entries that exist
        wl = ['BIG'] + r.sample(['BIG[2]', 'BIG[2][1]', 'BIG[-1][0]', '[BIG[1], BIG[1][2]]', 'BIG[0][0][1]'], r.randrange(1, 4)) + wl[:2]
    nact = r.pick([1, 1, 2])
    case = FrameCase(wd, names, values)
    if special == 'locals_of_locals':
        src = open(case.path).read().replace('    marker = 0  # @hit', '    mine = locals()\n    marker = 0  # @hit', 1)
        with open(case.path, 'w') as f:
            f.write(src)
        case.mod = hostframe.load(case.path)
        case.line = hostframe.markers(case.path)['hit']
    if big_watch:
        case.mod.BIG = [[[i * 100 + j * 10 + k + 1000 for k in range(3)] for j in range(6)] for i in range(8)]
    config = {'watches': list(wl), 'frame_type': r.pick(['single_frame', 'all_frame'])}
    if budget is not None:
        config['MAX_VARIABLES'] = budget
    trigs = []
    for i in range(nact):
        if budget is None and r.chance(0.5):
            args = {'frame_type': config['frame_type']}
            trigs.append(line_trigger('tp%d' % i, case.base, case.line, args, wl))
        else:
            trigs.append(direct_trigger('tp%d' % i, case.base, case.line, 'Snapshot', config))
    probs = snapcheck.Problems()
    st = {'snaps': 0, 'refs': 0, 'temp': 0, 'budget_hit': False}

    def on_hit(ev, frame, stack, new):
        local_ids = {id(v) for v in frame.f_locals.values()}
        for rec in new:
            snap = rec.snapshot
            st['snaps'] += 1
            snapcheck.check_closed(snap, probs)
            st['refs'] += sum(len(v.children) for v in snap.var_lookup.values()) + sum(
                len(f.variables) for f in snap.frames) + len(snap.watches)
            # the budget counts the per-frame wrapper entries too, which are not part of the delivered table
            hit = budget is not None and len(snap.var_lookup) + len(snap.frames) + 1 >= budget
            st['budget_hit'] = st['budget_hit'] or hit
            # lock-step walk over host frames: one id <-> one object
            reached = {}
            for fr, real in zip(snap.frames, stack):
                if not case.rig.is_host(real.file):
                    continue
                roots = [(v, real.locals[v.name]) for v in fr.variables if v.name in real.locals]
                got = snapcheck.check_table(snap.var_lookup, roots, snapcheck.default_limits()['max_str'], probs, strict_children=None,
                                            max_coll=None)
                for vid, obj in got.items():
                    if vid in reached and reached[vid] is not obj:
                        probs.add('identity:id-shared-by-different-objects',
                                  'id %s stands for two different objects across frames' % vid)
                    reached[vid] = obj
            by_obj = {}
            for vid, obj in reached.items():
                if id(obj) in by_obj and by_obj[id(obj)] != vid:
                    probs.add('identity:object-recorded-twice', 'one %s object is recorded under ids %s and %s' % (
                        snapcheck.type_name(obj), by_obj[id(obj)], vid))
                by_obj[id(obj)] = vid
            results = [w for w in snap.watches if w.source == 'WATCH']
            if [w.expression for w in results] != wl:
                probs.add('watch:results-list', 'watch results %r for configured %r' % (
                    [w.expression for w in results], wl))
                continue
            for w in results:
                try:
                    val, failed = eval(w.expression, frame.f_globals, frame.f_locals), None
                except BaseException as e:  # noqa
                    val, failed = None, e
                if failed is None and id(val) not in local_ids:
                    st['temp'] += 1
                if hit and failed is None and (w.error or w.result is None):
                    continue  # budget exhausted: an explicit error result for the watch is a legitimate outcome
                compare_watch(snap, w, val, failed, local_ids, probs)

    hung, _ = case.run(trigs, on_hit)
    replay = replay_spec(spec, seed)
    witness = {'locals': {n: short(_skel(v), 100) for n, v in zip(names, values)}, 'special': special,
               'watches': wl, 'budget': budget, 'actions': nact, 'kinds': sorted(gg.kinds),
               'agent_log': [short(x, 200) for x in case.rig.logs[-2:]]}
    if hung:
        out.inconc('C07 host did not terminate within the watchdog seed=%s' % seed)
        return
    if case.hits == 0:
        out.inconc('C07 marked line not reached seed=%s' % seed)
        return
    if budget is not None and probs and not calibrated(wd):
        out.inconc('MAX_VARIABLES key not honoured (calibration); budget case skipped')
        return
    if st['snaps'] < nact:
        out.violation('presence:no-snapshot', '%d actions due, %d snapshots delivered' % (nact, st['snaps']),
                      witness, replay)
    if case.rig.escapes:
        probs.add('containment:escape', 'collection raised into the host: %s' % case.rig.escapes[0][2][-300:])
    for mech, what in probs:
        out.violation(mech, what, witness, replay)
    out.count('snapshots_checked', st['snaps'])
    out.count('references_resolved', st['refs'])
    out.count('temp_watches', st['temp'])
    if big_watch and st['snaps']:
        out.count('large_watch_followed_by_watches_on_its_parts')
    if 'shared' in gg.kinds:
        out.count('shared_objects_seen')
    if 'cycle_self' in gg.kinds or 'cycle_mutual' in gg.kinds or special != 'none':
        out.count('cycles_seen')
    if st['budget_hit']:
        out.count('budget_hit_cases')
    if special == 'locals_of_locals':
        out.count('locals_of_locals_cases')
    out.case({'skel': [_skel(v) for v in values], 'w': wl, 'b': budget, 'a': nact, 's': special,
              'k': sorted(gg.kinds)},
             nontrivial=st['snaps'] > 0 and bool(gg.kinds & {'shared', 'cycle_self', 'cycle_mutual'} or wl or
                                                  special != 'none'),
             sample=dict(witness, snapshots=st['snaps'], references=st['refs']))


CAPTURE_HOST = '''"""c07 capture host"""
CATALOG = [{"n": i, "tags": [i, "t%d" % i]} for i in range(12)]


def churn(a, box, keep):
    first = box[0]
    del first
    box.clear()                      # the nested objects collected at entry are dropped here
    fresh = [a, "new-%s" % a]        # ... and fresh ones are allocated (often at the same address)
    again = {"k": a}
    return @RET@
'''


def case_capture(seed, out, spec, wd):
    """Deferred (method_capture) snapshots: the table stays closed and one id stays one object after the capture."""
    r = Rng('c07k', seed)
    ret = r.pick(['fresh', 'again', '[fresh, again]', '{"args": [a, keep], "fresh": fresh}', 'keep', '(a, keep)',
                  'CATALOG[0]', 'CATALOG[1]["tags"]', 'CATALOG[0]',
                  '[keep, keep]'])
    path = os.path.join(wd, 'c07cap_%s.py' % str(seed).replace(':', '_'))
    with open(path, 'w') as f:
        f.write(CAPTURE_HOST.replace('@RET@', ret))
    base = os.path.basename(path)
    mod = hostframe.load(path)
    from vf.rig import Rig
    rig = Rig(custom={}, host_dir=wd)
    wl = r.sample(['a', 'keep', '[a]', 'len(box)', 'keep["tags"]', '[keep, box]', 'dict(k=keep)', 'CATALOG', 'CATALOG',
                   'CATALOG[:6]'], r.randrange(0, 4))
    cfg = {'stage': 'method_capture', 'watches': wl, 'frame_type': r.pick(['single_frame', 'all_frame'])}
    budget = r.pick([None, None, 3, 4, 6, 9, 14, 18, 22, 26, 30, 36])
    if budget is not None:
        cfg['MAX_VARIABLES'] = budget      # the budget may run out in the frame, inside a watch, or in the capture
    rig.install([direct_trigger('cap', base, None, 'Snapshot', cfg, function='churn')])
    probs = snapcheck.Problems()
    st = {'n': 0}
    a = r.randrange(1000, 9999)
    keep = {'id': a, 'tags': ['t', a]}
    box = [[a, 'one', 1.5], {'n': a}, ['x' * 3]]

    def post(ev, frame, arg):
        if ev.kind == 'return' and ev.func == 'churn' and ev.base == base:
            for rec in [p for p in rig.push.pushed if p.ev is ev]:
                st['n'] += 1
                snap = rec.snapshot
                snapcheck.check_closed(snap, probs)
                caps = [w for w in snap.watches if w.source == 'CAPTURE']
                if budget is not None and (len(caps) != 1 or caps[0].result is None or
                                           getattr(caps[0].result, 'vid', None) is None):
                    continue   # the budget ran out: closure (checked above) is all that can be asked
                if len(caps) != 1 or caps[0].result is None:
                    probs.add('capture:missing', 'deferred snapshot carries %d capture results' % len(caps))
                    continue
                # the returned object is alive here: the capture entry must describe exactly it
                roots = [(caps[0].result, arg)]
                # arguments still bound in the frame are the same objects that were collected at entry
                for v in snap.frames[0].variables:
                    if v.name in ('a', 'keep') and v.name in frame.f_locals:
                        roots.append((v, frame.f_locals[v.name]))
                snapcheck.check_table(snap.var_lookup, roots, snapcheck.default_limits()['max_str'], probs, strict_children=None,
                                            max_coll=None)

    rig.post = post
    hung = False
    res, exc = rig.run(mod.churn, a, box, keep)
    rig.cleanup()
    replay = replay_spec(spec, seed)
    witness = {'returns': ret, 'watches': wl, 'budget': budget}
    if exc is not None:
        out.inconc('C07 capture host raised %r' % (exc,))
        return
    if st['n'] != 1:
        out.violation('presence:no-snapshot', 'method_capture due once, %d deferred snapshots delivered at return' % st['n'],
                      witness, replay)
    if rig.escapes:
        probs.add('containment:escape', 'trace handler raised: %s' % rig.escapes[0][2][-300:])
    for mech, what in probs:
        out.violation(mech, what, witness, replay)
    out.count('capture_snapshots', st['n'])
    out.count('snapshots_checked', st['n'])
    out.case({'ret': ret, 'w': wl, 'a': a}, nontrivial=st['n'] > 0, sample=dict(witness, delivered=st['n']))


def _skel(v, depth=0):
    if depth > 2:
        return snapcheck.type_name(v)
    if type(v) in (list, tuple):
        return [snapcheck.type_name(v)] + [_skel(x, depth + 1) for x in v[:4]]
    if type(v) is dict:
        return {str(k): _skel(x, depth + 1) for k, x in list(v.items())[:4]}
    return snapcheck.type_name(v)


class _MeetInside:
    """Rendering this value waits (briefly) for the other thread to be rendering its own: both threads are then inside
    the collector at the same moment."""

    BARRIERS = {}     # tag -> barrier (kept off the instances: their attributes are compared, and these change)
    MET = set()

    def __init__(self, tag):
        self.tag = tag

    def __str__(self):
        import threading as _t
        try:
            type(self).BARRIERS[self.tag].wait(0.5)
            type(self).MET.add(self.tag)
        except (_t.BrokenBarrierError, KeyError):
            pass
        return 'meet-%s' % self.tag


def case_meeting(seed, out, spec, wd):
    """Two threads reach (different) tracepoints at once and collect at the same time: each snapshot's table is its
    own - closed, and describing its own frame."""
    import threading
    from vf.rig import Rig
    r = Rng('c07m', seed)
    path = hostframe.write_host(wd, ['first', 'second', 'third'], tag='meet')
    base = os.path.basename(path)
    mod = hostframe.load(path)
    line = hostframe.markers(path)['hit']
    rig = Rig(custom={}, host_dir=wd, plugins=[])
    watches = r.pick([[], ['[first, second]'], ['second', 'len(str(third))']])
    rig.install([line_trigger('tpm', base, line, {'fire_count': '-1', 'fire_period': '0'}, watches)])
    barrier = threading.Barrier(2)
    _MeetInside.MET.clear()
    gg = graphs.GraphGen(r, hostile_p=0.0, max_depth=2, width=3)
    vals = {}
    for tag in ('a', 'b'):
        _MeetInside.BARRIERS[tag] = barrier
        vals[tag] = [_MeetInside(tag), gg.value(), [tag, gg.value()]]
    stacks = {}

    def post(ev, frame, arg):
        if ev.kind == 'line' and ev.line == line and ev.base == base:
            stacks[threading.current_thread().name] = snapcheck.read_stack(frame)

    rig.post = post

    def body():
        ts = [threading.Thread(target=mod.entry, args=tuple(vals[tag]), name='meet-' + tag) for tag in ('a', 'b')]
        for t in ts:
            t.start()
        for t in ts:
            t.join(20)
        return any(t.is_alive() for t in ts)

    hung, exc = rig.run(body)
    pushed = list(rig.push.pushed)
    rig.cleanup()
    replay = replay_spec(spec, seed)
    met = _MeetInside.MET == {'a', 'b'}
    _MeetInside.BARRIERS.clear()
    witness = {'watches': watches, 'threads_met_inside_the_collector': met, 'snapshots': len(pushed)}
    if hung or exc is not None:
        out.inconc('C07 meeting threads did not finish (%r)' % (exc,))
        return
    probs = snapcheck.Problems()
    if len(pushed) != 2:
        probs.add('presence:no-snapshot', '%d snapshots for two hits' % len(pushed))
    for rec in pushed:
        snap = rec.snapshot
        snapcheck.check_closed(snap, probs)
        tname = [n for n, st in stacks.items() if st and id(st[0].locals.get('first')) == id(vals[n[-1]][0])]
        who = next((n for n in stacks if any(str(id(vals[n[-1]][0])) == v.hash for v in snap.var_lookup.values())), None)
        if who is None:
            probs.add('fidelity:wrong-object', 'snapshot does not contain the first local of either thread')
            continue
        snapcheck.check_frame_vars(snap, stacks[who], 'single_frame', {'max_str': snapcheck.default_limits()['max_str'],
                                                                       'max_coll': None}, probs, strict_children=None)
        for w in snap.watches:
            if w.result is not None and w.result.vid not in snap.var_lookup:
                probs.add('closure:dangling-reference', 'watch %r -> id %r is not in this snapshot\'s table' % (
                    w.expression, w.result.vid))
    for mech, what in probs:
        out.violation(mech, what, witness, replay)
    out.count('meeting_cases')
    if met:
        out.count('meetings_inside_the_collector')
    out.case({'meeting': watches, 'seed': str(seed)}, nontrivial=met, sample=witness)


def run_shard(spec, out):
    wd = Workdir('c07')
    try:
        for seed in spec_seeds(spec):
            if spec['kind'] == 'capture':
                case_capture(seed, out, spec, wd.path)
            elif spec['kind'] == 'meeting':
                case_meeting(seed, out, spec, wd.path)
            else:
                case_dedup(seed, out, spec, wd.path)
    finally:
        wd.close()
