"""C05 Collection is bounded and spends its budget breadth-first.

Monitor: every delivered snapshot of generated graphs that exceed each limit is measured (table size, string
lengths + truncated flags, children per list/tuple/set, shortest nesting depth of every entry) and, when the variable
budget ran out, compared with the recorder's own level-order walk of the real graph: nothing at a deeper level may be
recorded while something shallower is missing, and no frame local may be missing when the locals fit the budget.
"""
from vf import snapcheck, graphs
from vf.rig import line_trigger, direct_trigger
from vf.snaprig import FrameCase, Workdir
from vf.util import Rng, split_seeds, spec_seeds, replay_spec, short

ID = 'C05'
LEVEL = 'exploration'
TECHNIQUE = 'runtime monitor over delivered snapshots: bound assertions + reference level-order walk of the real graph'
RULE = ('generated frames whose graph exceeds one or several of the four limits (wide lists/sets/tuples, long '
        'strings, deep nests, many variables, cycles), the big structure declared first / middle / last; limits at '
        'their defaults (1000 / 1024 / 10 / 5) and, when the per-action limit keys are honoured (calibrated at run '
        'time), drawn from 1-40 (depth also at its boundary settings 2, 1, 0, -1); watch, log and captured values under the '
        'same limits; non-trivial = at least one limit actually bit; distinct by canonical case')
ASSUMPTIONS = ['depth is counted from the frame variable (=1); the property bound is "not deeper than the maximum", '
               'the implementation stops earlier, which is allowed',
               'level-order oracle only uses kinds the documentation says have children (dict, list, tuple, set, '
               'frozenset, exception args, instances with attribute dictionaries)',
               'the 100 ms processing-time budget is taken out of play by freezing the clock inside each event']
REQUIRE = {'snapshots_measured': 150, 'bit_budget': 20, 'bit_string': 20, 'bit_collection': 20, 'bit_depth': 20,
           'order_checked': 20, 'capture_snapshots': 20}


default_limits = snapcheck.default_limits


def plan(tier, seed):
    n = {'quick': 640, 'thorough': 9600}[tier]
    return split_seeds('b%s' % seed, n, 14, 'bounds') + split_seeds('k%s' % seed, n // 8, 2, 'capture')


def big_value(r, kind, size):
    if kind == 'wide_list':
        return [('e%d' % i) for i in range(size)]
    if kind == 'wide_tuple':
        return tuple(range(1000, 1000 + size))
    if kind == 'wide_set':
        return set('s%d' % i for i in range(size))
    if kind == 'wide_dict':
        return {('key%d' % i): [i, 'v%d' % i] for i in range(size)}
    if kind == 'list_of_lists':
        return [[('c%d_%d' % (i, j)) for j in range(8)] for i in range(max(1, size // 8))]
    if kind == 'deep_list':
        v = ['bottom']
        for i in range(size):
            v = [v, 'lvl%d' % i]
        return v
    if kind == 'deep_dict':
        v = {'leaf': 1}
        for i in range(size):
            v = {'down': v, 'n': 'n%d' % i}
        return v
    if kind == 'deep_obj':
        v = graphs.Plain(end='end')
        for i in range(size):
            v = graphs.Plain(nxt=v, tag='t%d' % i)
        return v
    if kind == 'long_str':
        # (also text in decomposed form: letters followed by combining marks, which are code points of their own)
        unit = r.pick(['abcdefghij', 'é', '日本語', '\U0001F600x', 'aß', 'e\u0301', 'a\u0300\u0301\u0302\u0303\u0304',
                       'o\u0308\u0323'])
        return (unit * (size // len(unit) + 1))[:size]
    if kind == 'long_str_obj':
        class Loud:
            def __str__(self):
                return 'L' * size
        return Loud()
    if kind == 'cycle':
        a = ['a-node']
        b = {'peer': a, 'pad': ['p%d' % i for i in range(size)]}
        a.append(b)
        a.append(a)
        return a
    if kind == 'wide_exception':
        # the arguments of an exception are a collection like any other
        return ValueError(*['arg%d' % i for i in range(size)])
    if kind == 'obj_tree':
        def tree(d):
            if d == 0:
                return 'leaf'
            return graphs.Plain(left=tree(d - 1), right=tree(d - 1), val='v%d' % d)
        return tree(min(size, 9))
    raise ValueError(kind)


KINDS = ['wide_list', 'wide_tuple', 'wide_set', 'wide_dict', 'list_of_lists', 'deep_list', 'deep_dict', 'deep_obj',
         'long_str', 'long_str_obj', 'cycle', 'obj_tree', 'wide_exception']
SMALL = [lambda r: r.randrange(100), lambda r: 'small-%d' % r.randrange(100), lambda r: [1, 2], lambda r: None,
         lambda r: {'k': 'v'}, lambda r: graphs.Plain(a=1)]

_calib = {}


def calibrated(wd):
    """Are the per-action limit keys honoured at all? (If not, knob cases are inconclusive, never violations.)"""
    if 'ok' in _calib:
        return _calib['ok']
    case = FrameCase(wd, ['text', 'seq'], ['y' * 50, list(range(30))], tag='cal')
    trig = direct_trigger('cal', case.base, case.line, 'Snapshot',
                          {'MAX_STRING_LENGTH': 7, 'MAX_COLLECTION_SIZE': 3, 'MAX_VARIABLES': 500, 'MAX_VAR_DEPTH': 5})
    seen = {}

    def on_hit(ev, frame, stack, new):
        for rec in new:
            for v in rec.snapshot.var_lookup.values():
                if v.type == 'str' and v.value.startswith('y'):
                    seen['str'] = len(v.value)
                if v.type == 'list':
                    seen['list'] = len(v.children)

    case.run([trig], on_hit)
    _calib['ok'] = seen.get('str') == 7 and seen.get('list') == 3
    _calib['seen'] = seen
    return _calib['ok']


def ref_levels(local_values, max_coll, max_level):
    """Recorder's level-order walk: id -> level (1 = frame local), using only documented child kinds."""
    level = {}
    cur = []
    for v in local_values:
        if id(v) not in level:
            level[id(v)] = 1
            cur.append(v)
    lv = 1
    hold = list(local_values)
    while cur and lv < max_level:
        nxt = []
        for o in cur:
            if type(o) is dict:
                kids = list(o.values())
            elif type(o) in snapcheck.BUILTIN_SEQ:
                kids = list(tuple(o))[:max_coll]
            elif isinstance(o, Exception):
                kids = list(o.args)[:max_coll]
            elif isinstance(o, (graphs.Plain, graphs.Person)):
                kids = list(vars(o).values())
            else:
                kids = []
            for k in kids:
                if id(k) not in level:
                    level[id(k)] = lv + 1
                    nxt.append(k)
                    hold.append(k)
        cur = nxt
        lv += 1
    return level, hold


def case_bounds(seed, out, spec, wd):
    r = Rng('c05', seed)
    use_knobs = r.chance(0.6)
    if use_knobs:
        lim = {'max_vars': r.pick([1, 2, 3, 5, 8, 13, 20, 40]), 'max_str': r.pick([1, 4, 16, 40]),
               'max_coll': r.pick([1, 2, 3, 7, 10]), 'max_depth': r.pick([3, 4, 5, 6, 8])}
        if r.chance(0.12):
            lim['max_depth'] = r.pick([2, 1, 0, -1])    # boundary settings: next to nothing, nothing, less than nothing
            out.count('boundary_depth_settings')
    else:
        lim = default_limits()
    nloc = r.randrange(1, 7)
    names = ['v%d' % i for i in range(nloc)]
    big_at = r.pick(['first', 'middle', 'last'])
    idx = {'first': 0, 'middle': nloc // 2, 'last': nloc - 1}[big_at]
    kinds = [r.pick(KINDS) for _ in range(r.pick([1, 1, 2]))]
    values = [r.pick(SMALL)(r) for _ in names]
    sizes = []
    for j, k in enumerate(kinds):
        if k in ('deep_list', 'deep_dict', 'deep_obj'):
            size = lim['max_depth'] + r.pick([1, 3, 6])
        elif k in ('long_str', 'long_str_obj'):
            size = lim['max_str'] + r.pick([-1, 0, 1, 50, 2000])
        elif k == 'obj_tree':
            size = r.pick([3, 6, 9])
        else:
            size = r.pick([lim['max_coll'] - 1, lim['max_coll'], lim['max_coll'] + 1, lim['max_coll'] * 3 + 2,
                           lim['max_vars'] + 5, min(3000, lim['max_vars'] * 2 + 7)])
            if k in ('wide_dict', 'wide_list', 'wide_set') and r.chance(0.25):
                size = r.pick([5000, 9000])    # far more pending work than the budget will ever admit
        size = max(1, size)
        sizes.append(size)
        values[(idx + j) % nloc] = big_value(r, k, size)
    config = {'frame_type': 'single_frame'}
    watches = []
    if r.chance(0.35):
        # watch results are part of the snapshot: the same bounds apply to them
        watches = r.sample(['%s' % names[idx], '[%s, %s]' % (names[0], names[-1]), '"w" * 3000', 'list(range(50))',
                            '[[i] for i in range(30)]', 'str(%s) * 40' % names[0]], r.randrange(1, 3))
        config['watches'] = list(watches)
    if use_knobs:
        config.update({'MAX_VARIABLES': lim['max_vars'], 'MAX_STRING_LENGTH': lim['max_str'],
                       'MAX_COLLECTION_SIZE': lim['max_coll'], 'MAX_VAR_DEPTH': lim['max_depth']})
    case = FrameCase(wd, names, values)
    if use_knobs:
        trig = direct_trigger('tp5', case.base, case.line, 'Snapshot', config)
    else:
        trig = line_trigger('tp5', case.base, case.line, {}, watches)
    probs = snapcheck.Problems()
    st = {'snaps': 0, 'bits': set()}

    def on_hit(ev, frame, stack, new):
        for rec in new:
            st['snaps'] += 1
            measure(rec.snapshot, stack[0], names, lim, probs, st)

    hung, _ = case.run([trig], on_hit)
    replay = replay_spec(spec, seed)
    witness = {'limits': lim, 'knobs': use_knobs, 'kinds': kinds, 'sizes': sizes, 'big_at': big_at, 'locals': nloc,
               'watches': watches}
    if hung or case.hits == 0:
        out.inconc('C05 host did not run to the marked line seed=%s' % seed)
        return
    if use_knobs and probs and not calibrated(wd):
        out.inconc('per-action limit keys are not honoured (calibration saw %r); knob case skipped' % (
            _calib.get('seen'),))
        return
    if st['snaps'] == 0:
        out.violation('presence:no-snapshot', 'line reached, no snapshot delivered; %s' % short(case.rig.logs[-1:], 300),
                      witness, replay)
    for mech, what in probs:
        out.violation(mech, what, witness, replay)
    out.count('snapshots_measured', st['snaps'])
    for b in st['bits']:
        out.count('bit_' + b)
    if 'order' in st:
        out.count('order_checked')
    out.case(witness, nontrivial=bool(st['bits']) and st['snaps'] > 0,
             sample=dict(witness, limits_bit=sorted(st['bits']), table_size=st.get('table')))


def measure(snap, top, names, lim, probs, st):
    lookup = snap.var_lookup
    st['table'] = len(lookup)
    # (a) table size
    if len(lookup) > lim['max_vars'] + 1:
        probs.add('bounds:variable-count', 'table holds %d variables, maximum %d (+1 in progress)' % (
            len(lookup), lim['max_vars']))
    if len(lookup) >= lim['max_vars']:
        st['bits'].add('budget')
    # (b) strings
    for vid, v in lookup.items():
        if isinstance(v.value, str) and len(v.value) > lim['max_str']:
            probs.add('bounds:string-length', 'entry %s (%s) value has %d characters, maximum %d' % (
                vid, v.type, len(v.value), lim['max_str']))
        if v.truncated:
            st['bits'].add('string')
    # real objects by identity (for truncated flag, collection caps, levels)
    levels, hold = ref_levels([top.locals[n] for n in names if n in top.locals], lim['max_coll'], lim['max_depth'] + 4)
    objs = {id(o): o for o in hold}
    for vid, v in lookup.items():
        o = objs.get(_int(v.hash))
        if o is None and _int(v.hash) not in levels:
            continue
        if o is not None:
            p = snapcheck.value_problem(o, v, lim['max_str'])
            if p:
                probs.add('fidelity:value', 'entry %s: %s' % (vid, p))
            if isinstance(o, BaseException) and len(v.children) > lim['max_coll']:
                probs.add('bounds:collection-size', 'entry %s (%s with %d arguments) has %d children, maximum %d' % (
                    vid, v.type, len(o.args), len(v.children), lim['max_coll']))
            if type(o) in snapcheck.BUILTIN_SEQ:
                if len(v.children) > lim['max_coll']:
                    probs.add('bounds:collection-size', 'entry %s (%s of %d) has %d children, maximum %d' % (
                        vid, v.type, len(o), len(v.children), lim['max_coll']))
                if len(o) > lim['max_coll'] and len(v.children) == lim['max_coll']:
                    st['bits'].add('collection')
    for vid, v in lookup.items():
        if v.type in ('list', 'tuple', 'set', 'frozenset') and len(v.children) > lim['max_coll']:
            probs.add('bounds:collection-size', 'entry %s (%s) has %d children, maximum %d' % (
                vid, v.type, len(v.children), lim['max_coll']))
    # (d) nesting depth = shortest path from a frame variable (or watch result) in the reported structure
    depth = {}
    cur = [x.vid for x in snap.frames[0].variables if x.vid in lookup]
    cur += [w.result.vid for w in snap.watches if w.result is not None and w.result.vid in lookup]
    for c in cur:
        depth.setdefault(c, 1)
    d = 1
    while cur:
        nxt = []
        for vid in cur:
            for ch in lookup[vid].children:
                if ch.vid in lookup and ch.vid not in depth:
                    depth[ch.vid] = d + 1
                    nxt.append(ch.vid)
        cur = nxt
        d += 1
    if depth:
        deepest = max(depth.values())
        # (a frame variable or watch result itself is level 1 and not "nested": with a limit below 1 nothing under it may
        # appear)
        if deepest > max(lim['max_depth'], 1):
            probs.add('bounds:depth', 'an entry is nested %d levels below the frame, maximum depth %d' % (
                deepest, lim['max_depth']))
        # the limit bit if a real object exists below the deepest reported level and was cut off
        real_deepest = max(levels.values()) if levels else 0
        if real_deepest > deepest and len(lookup) < lim['max_vars']:
            st['bits'].add('depth')
    unreachable = [vid for vid in lookup if vid not in depth]
    if unreachable:
        probs.add('closure:orphan-entry', '%d table entries are not reachable from the frame variables (%s)' % (
            len(unreachable), unreachable[:4]))
    # (e) budget spent breadth-first
    frame_names = [x.name for x in snap.frames[0].variables]
    if len(names) + 1 <= lim['max_vars'] and lim['max_depth'] >= 2:
        missing = [n for n in names if n not in frame_names]
        if missing:
            probs.add('order:local-crowded-out', 'locals %s are missing although %d locals fit the budget of %d '
                                                 '(table holds %d entries)' % (missing, len(names), lim['max_vars'],
                                                                               len(lookup)))
    if len(lookup) >= lim['max_vars']:
        recorded = {_int(v.hash) for v in lookup.values()}
        rec_levels = [levels[i] for i in recorded if i in levels]
        missing_levels = [lv for i, lv in levels.items() if i not in recorded and lv <= lim['max_depth'] - 2]
        if rec_levels and missing_levels:
            st['order'] = True
            if max(rec_levels) > min(missing_levels):
                probs.add('order:deeper-before-shallower',
                          'budget exhausted with an object of level %d recorded while %d object(s) of level %d are '
                          'missing' % (max(rec_levels), sum(1 for x in missing_levels if x == min(missing_levels)),
                                       min(missing_levels)))
        elif rec_levels:
            st['order'] = True


CAP_HOST = '''"""c05 capture host"""


def inner(n):
    local = "inner-%d" % n  # @inner_line
    return local


def produce(n):
    inner(n)
    data = {"text": "z" * 90, "rows": [["cell-%d-%d" % (i, j) for j in range(12)] for i in range(12)],
            "deep": [[[[["bottom"]]]]]}
    return data
'''


def case_capture(seed, out, spec, wd):
    """A deferred (method_capture) snapshot with its own limits, while another tracepoint with other limits collects
    inside the invocation: the captured value must keep to the limits of the tracepoint it belongs to."""
    import os
    from vf import hostframe
    from vf.rig import Rig
    r = Rng('c05k', seed)
    path = os.path.join(wd, 'c05cap.py')
    if not os.path.exists(path):
        with open(path, 'w') as f:
            f.write(CAP_HOST)
    base = os.path.basename(path)
    marks = hostframe.markers(path)
    mod = hostframe.load(path)
    lim = {'max_vars': r.pick([30, 60, 200]), 'max_str': r.pick([8, 20, 40]), 'max_coll': r.pick([2, 3, 5]),
           'max_depth': r.pick([4, 5])}
    other = r.pick(['defaults', 'bigger', 'none'])
    trigs = [direct_trigger('cap', base, None, 'Snapshot', {
        'stage': 'method_capture', 'MAX_VARIABLES': lim['max_vars'], 'MAX_STRING_LENGTH': lim['max_str'],
        'MAX_COLLECTION_SIZE': lim['max_coll'], 'MAX_VAR_DEPTH': lim['max_depth']}, function='produce')]
    if other == 'defaults':
        trigs.append(line_trigger('in', base, marks['inner_line'], {}, ['local']))
    elif other == 'bigger':
        trigs.append(direct_trigger('in', base, marks['inner_line'], 'Snapshot',
                                    {'MAX_STRING_LENGTH': 500, 'MAX_COLLECTION_SIZE': 50, 'MAX_VAR_DEPTH': 9}))
    rig = Rig(custom={}, host_dir=wd)
    rig.install(trigs)
    res, exc = rig.run(mod.produce, r.randrange(100))
    snaps = [p.snapshot for p in rig.push.pushed if p.snapshot.tracepoint.id == 'cap']
    rig.cleanup()
    replay = replay_spec(spec, seed)
    witness = {'capture_limits': lim, 'other_tracepoint_inside': other}
    if exc is not None:
        out.inconc('C05 capture host raised %r' % (exc,))
        return
    if len(snaps) != 1:
        out.violation('presence:no-snapshot', 'method_capture due once, %d delivered' % len(snaps), witness, replay)
        return
    snap = snaps[0]
    if not calibrated(wd):
        out.inconc('per-action limit keys are not honoured (calibration); capture case skipped')
        return
    probs = snapcheck.Problems()
    lookup = snap.var_lookup
    if len(lookup) > lim['max_vars'] + 1:
        probs.add('bounds:variable-count', 'table holds %d variables, maximum %d' % (len(lookup), lim['max_vars']))
    for vid, v in lookup.items():
        if isinstance(v.value, str) and len(v.value) > lim['max_str']:
            probs.add('bounds:string-length', 'entry %s (%s) of the captured snapshot has %d characters, maximum %d' % (
                vid, v.type, len(v.value), lim['max_str']))
        if v.type in ('list', 'tuple', 'set', 'frozenset') and len(v.children) > lim['max_coll']:
            probs.add('bounds:collection-size', 'entry %s (%s) of the captured snapshot has %d children, maximum %d' % (
                vid, v.type, len(v.children), lim['max_coll']))
    roots = [w.result.vid for w in snap.watches if w.result is not None and w.result.vid in lookup]
    depth = {v_: 1 for v_ in roots}
    cur, d = list(roots), 1
    while cur:
        nxt = []
        for vid in cur:
            for ch in lookup[vid].children:
                if ch.vid in lookup and ch.vid not in depth:
                    depth[ch.vid] = d + 1
                    nxt.append(ch.vid)
        cur, d = nxt, d + 1
    if depth and max(depth.values()) > lim['max_depth']:
        probs.add('bounds:depth', 'captured value nested %d levels, maximum depth %d' % (max(depth.values()),
                                                                                       lim['max_depth']))
    for mech, what in probs:
        out.violation(mech, what, witness, replay)
    out.count('capture_snapshots')
    out.count('snapshots_measured')
    out.case({'lim': lim, 'other': other}, nontrivial=True, sample=dict(witness, table=len(lookup)))


def _int(s):
    try:
        return int(s)
    except (TypeError, ValueError):
        return -1


def run_shard(spec, out):
    wd = Workdir('c05')
    try:
        for seed in spec_seeds(spec):
            if spec['kind'] == 'capture':
                case_capture(seed, out, spec, wd.path)
            else:
                case_bounds(seed, out, spec, wd.path)
    finally:
        wd.close()
