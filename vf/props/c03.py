"""C03 Trigger placement: actions fire at exactly the configured locations.

Monitor: an independent recorder sees every trace event CPython delivers (all threads); from that stream and the
installed tracepoints it derives the multiset of (tracepoint, action kind, event) that must act; the actual multiset is
what the recording push / logger / metric / span plugins received, each tagged with the trace event during which it
arrived. Limits are switched off (fire_count=-1, fire_period=0), so the two multisets must be equal.
"""
import os

from vf import plugins, programs
from vf.rig import Rig, line_trigger
from vf.snaprig import Workdir
from vf.util import Rng, split_seeds, spec_seeds, replay_spec, short

ID = 'C03'
LEVEL = 'exploration'
TECHNIQUE = 'runtime monitor: reference event recorder vs recorded actions (multiset equality per trace event)'
RULE = ('generated multi-function / multi-thread programs (41 shapes: loops, recursion, exceptions, generators, coroutines with and without an asyncio event loop, '
        'iterators, with, closures, classes, threads) x 0-8 tracepoints: line tracepoints on executed and '
        'never-executed lines, def lines, the same line number in another file, several tracepoints on one line '
        '(separate triggers or merged as convert_response does), method tracepoints by name, the stage argument spelled out (with a line tracepoint also naming its function), tracepoints that are installed while functions of the program are already running, four action kinds; '
        'non-trivial = at least one action expected or a tracepoint installed on a never-matching location; '
        'distinct by (shapes, tracepoint set)')
ASSUMPTIONS = ['only events CPython delivers to the trace function are in the quantifier; the one case in which the agent '
               'declines a frame itself and this is accepted: the function was entered while no tracepoint at all was installed',
               'method tracepoints always carry method_name (the unnamed form is undocumented)']
REQUIRE = {'runs_with_coroutines': 15, 'sourceless_runs_with_a_nameless_method_tracepoint': 15, 'reference_events': 50000, 'expected_actions': 2000, 'runs_with_threads': 10, 'colocated_runs': 40,
           'method_tracepoint_hits': 100,
           'installed_via_convert_response': 60, 'updated_while_matching': 20, 'twin_file_runs': 60, 'explicit_stage_runs': 60, 'installed_while_program_running': 5}


def plan(tier, seed):
    n = {'quick': 480, 'thorough': 7200}[tier]
    return split_seeds('p%s' % seed, n, 16, 'place')


KINDS = ['snapshot', 'log', 'metric', 'span']


def make_tp(r, idx, base, line, method=None, kind=None):
    """Returns (tp_id, args, watches, metrics, kinds-expected, is_method)."""
    from deep.api.tracepoint.tracepoint_config import MetricDefinition
    tp_id = 'tp%d' % idx
    kind = kind or r.pick(['snapshot', 'snapshot', 'log', 'metric', 'span', 'log+snapshot', 'all'])
    args = {'fire_count': '-1', 'fire_period': '0'}
    metrics = []
    expect = []
    if kind in ('snapshot', 'log+snapshot', 'all'):
        expect.append('snapshot')
    else:
        args['snapshot'] = 'no_collect'
    if kind in ('log', 'log+snapshot', 'all'):
        args['log_msg'] = 'hit %s' % tp_id
        expect.append('log')
    if kind in ('metric', 'all'):
        metrics = [MetricDefinition('m_%s' % tp_id, r.pick(['counter', 'gauge', 'histogram', 'summary']))]
        expect.append('metric')
    if kind in ('span', 'all'):
        args['span'] = 'line' if method is None else 'method'
        expect.append('span')
    if method is not None:
        args['method_name'] = method
    return tp_id, args, metrics, expect


def case_place(seed, out, spec, wd):
    r = Rng('c03', seed)
    plugins.reset()
    sub = os.path.join(wd, 'case_%s' % abs(hash(seed)) if False else 'c%s' % str(seed).replace(':', '_'))
    os.makedirs(sub, exist_ok=True)
    os.makedirs(os.path.join(sub, 'other'), exist_ok=True)
    prog = programs.generate(r, sub, 'a', escaping=False)
    decoy = programs.generate(r, os.path.join(sub, 'other'), 'b', n_shapes=2, escaping=False)
    twin = r.chance(0.4)
    if twin:
        # a second file with the very same function names (and line numbers) as the first one
        with open(decoy.path, 'w') as f:
            f.write(prog.src)
        decoy.lines, decoy.func_lines, decoy.src = list(prog.lines), dict(prog.func_lines), prog.src
    mod = programs.load(prog.path)
    dmod = programs.load(decoy.path)
    ntp = r.pick([0, 1, 2, 3, 4, 6, 8])
    tps = []       # (tp_id, base, line|None, method|None, expect kinds)
    wire_protos = []
    triggers = {}
    colocated = False
    explicit_stage = False
    for i in range(ntp):
        c = r.randrange(10)
        base = prog.base
        method = None
        line = None
        if c <= 4:
            line = r.pick(prog.lines)
        elif c == 5 and tps and tps[-1][2] is not None:
            base, line = tps[-1][1], tps[-1][2]   # co-located with the previous one
            colocated = True
        elif c == 6:
            line = r.pick(list(prog.func_lines.values()))  # a def line
        elif c == 7:
            base, line = decoy.base, r.pick(decoy.lines)
        elif c == 8:
            base, line = r.pick(['nonexistent.py', 'prog_a.pyc', 'xprog_a.py']), r.pick(prog.lines)
        else:
            method = r.pick(list(prog.func_lines.keys()))
            line = prog.func_lines[method]
            if twin and r.chance(0.5):
                base = decoy.base
        tp_id, args, metrics, expect = make_tp(r, i, base, line, method)
        if r.chance(0.25):
            # the stage spelled out; a line tracepoint may also name its enclosing function (the stage decides)
            args['stage'] = 'line_start' if method is None else 'method_start'
            if method is None and r.chance(0.6):
                args['method_name'] = r.pick(list(prog.func_lines.keys()))
            explicit_stage = True
        trig = line_trigger(tp_id, base, line, args, [], metrics)
        if trig is None:
            continue
        tps.append((tp_id, base, None if method else line, method, expect))
        wire_protos.append((tp_id, base, line, args, metrics))
        # merged like convert_response (by location id) half of the time, else separate triggers
        if r.chance(0.5) and trig.id in triggers:
            triggers[trig.id].merge_actions(trig.actions)
            colocated = True
        else:
            triggers[trig.id + '#%d' % i if trig.id in triggers else trig.id] = trig
    rig = Rig(custom={'APP_ROOT': sub}, host_dir=sub,
              plugins=[plugins.RecLogger(), plugins.RecMetrics(), plugins.RecSpans()])
    rig.record_opted_out = True
    via_wire = r.chance(0.4)
    if via_wire:
        # the way the agent receives them: protobuf messages through convert_response (which merges by location)
        from deepproto.proto.tracepoint.v1.tracepoint_pb2 import TracePointConfig, Metric, MetricType
        from deep.grpc import convert_response
        protos = [TracePointConfig(ID=i_, path=b_, line_number=l_ or 0, args=a_,
                                   metrics=[Metric(name=m_.name, type=MetricType.Value(m_.type.upper())) for m_ in ms_])
                  for i_, b_, l_, a_, ms_ in wire_protos]
        installed = convert_response(protos)
    else:
        installed = list(triggers.values())
    mid_update = r.chance(0.15) and len(installed) >= 1
    if mid_update:
        # a configuration update lands while an event is being matched: the first trigger's location check installs
        # the new list (same tracepoints minus a decoy) - every tracepoint of both lists must still act at its event
        from deep.api.tracepoint.trigger import Trigger, LineLocation, Location
        keep = list(installed)
        # the update lands exactly while an event that has a tracepoint is being matched (if there is one)
        target = next(((b_, l_) for _, b_, l_, m_, _ in tps if l_ is not None and b_ == prog.base), None)
        if target is not None:
            keep.sort(key=lambda t: 0 if getattr(t, 'id', None) == '%s#%s' % target else 1)
        swapper = Trigger(LineLocation('never_%s.py' % seed, 1, Location.Position.START), [])
        orig = swapper.at_location
        fired = []

        # sometimes the tracepoints arrive only now: until this event the agent had a configuration (so it is tracing)
        # but nothing for this program's files; functions that are already running get their tracepoints as well
        late_install = r.chance(0.4)

        def swapping(event, file, line_, function_name, frame):
            if not late_install and not fired and event == 'line' and file == prog.base and (
                    target is None or line_ == target[1]):
                fired.append(0)
                rig.handler.new_config(list(keep))
            return orig(event, file, line_, function_name, frame)

        swapper.at_location = swapping

        def late_pre(ev, frame, arg):
            # (done from the recorder, which also sees frames the agent declined: before the agent gets this event)
            if late_install and not fired and ev.kind == 'line' and ev.base == prog.base and ev.func != 'main' and (
                    target is None or ev.line == target[1]):
                fired.append(ev.seq)
                rig.handler.new_config(list(keep))

        rig.pre = late_pre
        installed = [swapper] if late_install else [swapper] + keep
    sourceless = not mid_update and r.chance(0.12)
    if sourceless:
        # the program runs without its source file (a deployment of compiled files only), and one of the tracepoints is
        # a method span that names no method: the agent would have to read the source to place it. Whatever becomes of
        # that one, every other tracepoint still acts where it is configured.
        import linecache
        os.remove(prog.path)
        linecache.clearcache()
        nameless = line_trigger('tpNameless', prog.base, r.pick(prog.lines),
                                {'span': 'method', 'snapshot': 'no_collect', 'fire_count': '-1', 'fire_period': '0'}, [], [])
        if nameless is not None:
            installed = [nameless] + list(installed)
            out.count('sourceless_runs_with_a_nameless_method_tracepoint')
    rig.install(installed)
    actual = []   # (tp_id, kind, ev.seq)

    def hook(name, callback, payload):
        ev = rig.current_event()
        seq = ev.seq if ev is not None else -1
        if callback == 'log':
            ids = {payload['tp_id'], payload['ctx_id']} & {t[0] for t in tps}
            actual.append((sorted(ids)[0] if ids else '?', 'log', seq))
        elif callback == 'metric':
            actual.append((payload[1][2:] if payload[1].startswith('m_') else '?', 'metric', seq))
        elif callback == 'span_open':
            actual.append((payload['tp'], 'span', seq))

    plugins.HOOK[0] = hook
    use_decoy = r.chance(0.5)

    def body():
        log = []
        res = mod.main(log)
        if use_decoy:
            dmod.main([])
        return res

    result, exc = rig.run(body)
    plugins.HOOK[0] = None
    for rec in rig.push.pushed:
        actual.append((rec.snapshot.tracepoint.id, 'snapshot', rec.ev.seq if rec.ev is not None else -1))
    rig.cleanup()
    # expectation from the reference event stream
    expected = []
    by_line = {}
    by_func = {}
    for tp_id, base, line, method, expect in tps:
        if method is None:
            by_line.setdefault((base, line), []).append((tp_id, expect))
        else:
            by_func.setdefault((base, method), []).append((tp_id, expect))
    threads = set()
    method_hits = 0
    installed_from = fired[0] if (mid_update and late_install and fired) else (
        float('inf') if (mid_update and late_install) else -1)
    for ev in rig.events:
        threads.add(ev.tid)
        if ev.seq < installed_from:
            continue
        if ev.opted_out and ev.cfg_empty_at_call:
            continue   # a function entered while the agent had no tracepoint at all is not traced (events not delivered)
        if ev.kind == 'line':
            for tp_id, expect in by_line.get((ev.base, ev.line), ()):
                expected.extend((tp_id, k, ev.seq) for k in expect)
        elif ev.kind == 'call':
            for tp_id, expect in by_func.get((ev.base, ev.func), ()):
                method_hits += 1
                expected.extend((tp_id, k, ev.seq) for k in expect)
    replay = replay_spec(spec, seed)
    witness = {'shapes': prog.shapes, 'tracepoints': [[t[0], t[1], t[2], t[3], t[4]] for t in tps],
               'events': len(rig.events), 'agent_log': [short(x, 200) for x in rig.logs[-2:]]}
    if exc is not None:
        out.inconc('C03 host program raised %r (seed %s)' % (exc, seed))
        return
    actual = [a for a in actual if a[0] != 'tpNameless']
    exp_set, act_set = _multiset(expected), _multiset(actual)
    evmap = {ev.seq: ev for ev in rig.events}
    missing = [(k, n - act_set.get(k, 0)) for k, n in exp_set.items() if act_set.get(k, 0) < n]
    spurious = [(k, n - exp_set.get(k, 0)) for k, n in act_set.items() if exp_set.get(k, 0) < n]
    for (tp_id, kind, seq), n in missing[:3]:
        ev = evmap.get(seq)
        out.violation('placement:missing-%s' % kind,
                      'tracepoint %s (%s) did not act at %s' % (tp_id, kind, _evs(ev)), witness, replay)
    for (tp_id, kind, seq), n in spurious[:3]:
        ev = evmap.get(seq)
        where = _evs(ev) if ev is not None else 'a non-host event (seq %s)' % seq
        out.violation('placement:spurious-%s' % kind,
                      'tracepoint %s (%s) acted %s at %s where nothing is configured for it' % (
                          tp_id, kind, '%d extra time(s)' % n, where), witness, replay)
    if rig.escapes:
        out.violation('containment:escape', 'trace handler raised: %s' % rig.escapes[0][2][-300:], witness, replay)
    out.count('reference_events', len(rig.events))
    if any(x in ('coro_manual', 'asyncio_tasks') for x in prog.shapes):
        out.count('runs_with_coroutines')
    out.count('all_trace_events', rig.all_events)
    out.count('expected_actions', len(expected))
    out.count('method_tracepoint_hits', method_hits)
    if len(threads) > 1:
        out.count('runs_with_threads')
    if colocated:
        out.count('colocated_runs')
    if via_wire:
        out.count('installed_via_convert_response')
    if mid_update:
        out.count('updated_while_matching')
        if late_install and fired:
            out.count('installed_while_program_running')
    if twin:
        out.count('twin_file_runs')
    if explicit_stage:
        out.count('explicit_stage_runs')
    out.case({'shapes': prog.shapes, 'calls': prog.calls, 'tps': witness['tracepoints'], 'decoy': use_decoy},
             nontrivial=bool(expected) or bool(tps),
             sample={'shapes': prog.shapes, 'tracepoints': witness['tracepoints'], 'reference_events': len(rig.events),
                     'expected_actions': len(expected), 'observed_actions': len(actual), 'threads': len(threads)})


def _multiset(items):
    d = {}
    for it in items:
        d[it] = d.get(it, 0) + 1
    return d


def _evs(ev):
    if ev is None:
        return '<unknown event>'
    return '%s event %s:%s in %s() [thread %s]' % (ev.kind, ev.base, ev.line, ev.func, ev.tid)


def run_shard(spec, out):
    wd = Workdir('c03')
    try:
        for seed in spec_seeds(spec):
            case_place(seed, out, spec, wd.path)
    finally:
        wd.close()
