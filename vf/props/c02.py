"""C02 Snapshot fidelity: a snapshot truthfully describes the paused frame.

Monitor: an independent reading of the same frame at the same trace event (f_back chain, f_locals, the real object
graph by identity, own evaluation of the watches) compared field by field with every snapshot the agent hands to
delivery at that event. Rig U in quick; thorough adds rig E (same comparison on the protobuf the loopback server got).
"""
import os
import threading

from vf import snapcheck, graphs
from vf.rig import line_trigger
from vf.snaprig import FrameCase, Workdir, app_rule_for
from vf.util import Rng, split_seeds, spec_seeds, replay_spec, short

ID = 'C02'
LEVEL = 'exploration'
TECHNIQUE = 'differential runtime monitor: independent frame reader vs delivered snapshot, seeded object graphs'
RULE = ('seeded frames: 0-6 locals holding generated object graphs (scalars, nested containers, objects with private '
        'attributes, exceptions, shared and cyclic references) within the default limits, stack depth 1-12, function '
        'or method frame, frame_type single/all/no_frame/absent, 0-4 watches over locals and host-module globals, '
        'app-root/include/exclude prefix mixes; non-trivial = a snapshot was delivered and compared; distinct by '
        'canonical case (shape parameters + type skeleton of the locals)')
ASSUMPTIONS = ['values stay inside the default collection limits (limits are C05), friendly types only (hostile '
               'types are C06)', 'expressions are side-effect free, so evaluating them twice is sound',
               'order of variables within a frame is not part of the property']
RULE += '; the paused frame is a plain function, a method, a closure (free variables are locals too and visible to watches), a generator, a coroutine, a function of a function-local class or top-level code (<module> frame: the locals are the globals)'
REQUIRE = {'paused_frame_module': 15, 'paused_frame_closure': 20, 'paused_frame_generator': 20, 'paused_frame_coroutine': 20, 'paused_frame_nested_class': 20, 'snapshots_compared': 150, 'entries_compared': 1500, 'watches_compared': 50, 'frames_compared': 300,
           'time_budget_cases': 10}


def plan(tier, seed):
    n = {'quick': 1600, 'thorough': 24000}[tier]
    specs = split_seeds('s%s' % seed, n, 16, 'frame')
    if tier == 'thorough':
        specs += split_seeds('e%s' % seed, 48, 8, 'e2e')
    return specs


NAMES = ['alpha', 'beta', 'gamma', 'delta', 'items', 'cfg', '_hidden', 'x']
WATCHES = ['{n0}', 'len({n0}) if hasattr({n0}, "__len__") else -1', '[{n0}, {n1}]', '{n0} is {n1}',
           'str({n0})[:5]', 'MODULE_CONST', 'marker_fn()', 'undefined_name_zz', '1/0', '{n0}.nope_attr',
           '({n0}, 3)', 'type({n0}).__name__', '{{"k": {n1}}}']


def skeleton(v, depth=0):
    if depth > 2:
        return snapcheck.type_name(v)
    if type(v) in (list, tuple, set, frozenset):
        return [snapcheck.type_name(v), len(v)] + [skeleton(x, depth + 1) for x in list(v)[:3]]
    if type(v) is dict:
        return ['dict', len(v)]
    return snapcheck.type_name(v)


def case_frame(seed, out, spec, wd):
    r = Rng('c02', seed)
    nloc = r.randrange(0, 7)
    names = r.sample(NAMES, nloc)
    gg = graphs.GraphGen(r, hostile_p=0.0, max_depth=r.pick([1, 2, 3]), width=r.pick([2, 3, 5]))
    values = [gg.value() for _ in names]
    depth = r.pick([1, 1, 2, 3, 5, 8, 12])
    method = r.pick([False, False, False, True, True, 'falsy_len', 'falsy_bool'])
    frame_type = r.pick([None, 'single_frame', 'all_frame', 'no_frame'])
    kind = None
    wl = []
    if nloc >= 1 and r.chance(0.7):
        for _ in range(r.randrange(1, 5)):
            t = r.pick(WATCHES)
            wl.append(t.format(n0=names[0], n1=names[-1]))
    # prefix configuration
    mode = r.pick(['root', 'root', 'include', 'exclude', 'none', 'parent'])
    app_root = wd
    includes, excludes = [], []
    if mode == 'include':
        app_root = '/nonexistent-root'
        includes = [wd + os.sep]
    elif mode == 'exclude':
        excludes = [wd]
    elif mode == 'none':
        app_root = '/nonexistent-root'
    elif mode == 'parent':
        app_root = os.path.dirname(wd)
    custom = {'APP_ROOT': app_root, 'IN_APP_INCLUDE': list(includes), 'IN_APP_EXCLUDE': list(excludes)}
    slow = r.chance(0.04)
    if slow and names:
        # a value that takes longer to render than the agent's collection time budget (100 ms): the budget may cost
        # variables of the later frames, never the stack itself
        values[0] = _Slow()
        depth = max(depth, 3)
    caller_locals = r.chance(0.5)
    if not method and 'self' not in names:
        # the paused frame may also be a closure (free variables are locals too), a generator, a coroutine or a
        # function of a class defined inside a function
        kind = r.pick([None, None, 'closure', 'generator', 'coroutine', 'nested_class', 'module'])
    if kind == 'closure' and r.chance(0.7):
        # the free variables of the paused function are visible to expressions as well
        wl += ['captured_note', 'shared_cell[1] is captured_note'][:r.randrange(1, 3)]
    case = FrameCase(wd, names, values, depth=depth, method=method, caller_locals=caller_locals, custom=custom,
                     plugins=[_python_plugin()], kind=kind)
    if slow and names:
        case.rig.freeze = False
    case.mod.MODULE_CONST = 'host-global-%d' % r.randrange(100)
    case.mod.marker_fn = lambda: 'called'
    args = {}
    if frame_type is not None:
        args['frame_type'] = frame_type
    if r.chance(0.3):
        args['fire_count'] = '-1'
    tp_id = 'tp-%s' % r.randrange(10 ** 6)
    trig = line_trigger(tp_id, case.base, case.line, args, wl)
    rule = app_rule_for(app_root, includes, excludes)
    probs = snapcheck.Problems()
    stats = {'snaps': 0, 'entries': 0, 'watches': 0, 'frames': 0}

    def on_hit(ev, frame, stack, new):
        for rec in new:
            snap = rec.snapshot
            stats['snaps'] += 1
            if rec.tid != ev.tid:
                probs.add('fidelity:thread', 'snapshot handed over on thread %s, line reached on %s' % (rec.tid, ev.tid))
            snapcheck.check_frames(snap, stack, probs, app_rule=lambda f: _rule2(rule, f))
            stats['frames'] += len(stack)
            tn = dict(snap.attributes.items()).get('thread_name')
            if tn is not None and tn != threading.current_thread().name:
                probs.add('fidelity:thread', 'snapshot says thread %r, the line was reached on %r' % (
                    tn, threading.current_thread().name))
            if slow and names:
                stats['slow'] = True
                continue
            reached = snapcheck.check_frame_vars(snap, stack, frame_type or 'single_frame',
                                                 {'max_str': snapcheck.default_limits()['max_str'], 'max_coll': None},
                                                 probs, strict_children=2,
                                                 content_for=case.rig.is_host)
            stats['entries'] += len(reached)
            snapcheck.check_closed(snap, probs)
            _check_tracepoint(snap, tp_id, case.base, case.line, args, wl, probs)
            _check_watches(snap, frame, wl, probs, stats)

    hung, exc = case.run([trig], on_hit)
    replay = replay_spec(spec, seed)
    if hung:
        out.inconc('C02 host thread did not finish (watchdog) seed=%s' % seed)
        return
    witness = {'locals': {n: short(skeleton(v), 120) for n, v in zip(names, values)}, 'depth': depth,
               'method': method, 'frame_kind': kind, 'frame_type': frame_type, 'watches': wl, 'prefix_mode': mode}
    if case.hits == 0:
        out.inconc('C02 marked line never reached seed=%s' % seed)
        return
    if stats['snaps'] == 0:
        esc = case.rig.escapes[0][2][-500:] if case.rig.escapes else ''
        out.violation('presence:no-snapshot', 'the tracepoint line was reached but no snapshot was delivered %s' % esc,
                      witness, replay)
    for mech, what in probs:
        out.violation(mech, what, witness, replay)
    out.count('snapshots_compared', stats['snaps'])
    out.count('entries_compared', stats['entries'])
    out.count('watches_compared', stats['watches'])
    out.count('frames_compared', stats['frames'])
    if kind and stats['snaps']:
        out.count('paused_frame_' + kind)
    if stats.get('slow'):
        out.count('time_budget_cases')
    for k in gg.kinds:
        out.count('kind_' + k)
    out.case({'names': names, 'skel': [skeleton(v) for v in values], 'depth': depth, 'method': method,
              'ft': frame_type, 'w': wl, 'mode': mode}, nontrivial=stats['snaps'] > 0,
             sample=dict(witness, snapshots=stats['snaps'], entries_compared=stats['entries']))


_PLUGIN = []


def _python_plugin():
    """One plugin instance for the whole shard, as in a real agent: it sees many short-lived threads whose ids recur."""
    if not _PLUGIN:
        from deep.api.plugin.python import PythonPlugin
        _PLUGIN.append(PythonPlugin(config=None))
    return _PLUGIN[0]


class _Slow:
    def __str__(self):
        import time
        time.sleep(0.13)
        return 'slow-value'

    __repr__ = __str__


def _rule2(rule, f):
    app, shorts = rule(f)
    return app, _AnyOf(shorts)


class _AnyOf:
    def __init__(self, opts):
        self.opts = opts

    def __eq__(self, other):
        return other in self.opts

    def __ne__(self, other):
        return other not in self.opts

    def __repr__(self):
        return 'one of %r' % (sorted(self.opts),)


def _check_tracepoint(snap, tp_id, base, line, args, watches, probs):
    tp = snap.tracepoint
    if tp.id != tp_id:
        probs.add('naming:tracepoint-id', 'snapshot names tracepoint %r, fired %r' % (tp.id, tp_id))
    if tp.path != base:
        probs.add('naming:tracepoint-path', 'snapshot names path %r, configured %r' % (tp.path, base))
    if line is not None and tp.line_no != line:
        probs.add('naming:tracepoint-line', 'snapshot names line %r, configured %r' % (tp.line_no, line))
    for k, v in args.items():
        if k in tp.args and tp.args[k] != v:
            probs.add('naming:tracepoint-args', 'argument %s reported as %r, configured %r' % (k, tp.args[k], v))
    if list(tp.watches) != list(watches):
        probs.add('naming:tracepoint-watches', 'snapshot lists watches %r, configured %r' % (list(tp.watches), watches))


def _check_watches(snap, frame, watches, probs, stats):
    """Each configured watch has one result equal to the recorder's own evaluation in the same frame."""
    results = [w for w in snap.watches if w.source == 'WATCH']
    if [w.expression for w in results] != list(watches):
        probs.add('watch:results-list', 'watch results %r for configured %r' % ([w.expression for w in results], watches))
        return
    local_ids = {id(v) for v in frame.f_locals.values()}
    for w in results:
        stats['watches'] += 1
        try:
            val = eval(w.expression, frame.f_globals, frame.f_locals)
            failed = None
        except BaseException as e:  # noqa
            val, failed = None, e
        compare_watch(snap, w, val, failed, local_ids, probs)


def compare_watch(snap, w, val, failed, local_ids, probs):
    lookup = snap.var_lookup
    if failed is not None:
        # an error result in either wire form: error text, or a result typed as the exception
        if w.error:
            return
        ent = lookup.get(getattr(w.result, 'vid', None))
        if ent is None or ent.type != type(failed).__name__:
            mech = 'watch:error-not-reported'
            probs.add(mech, 'watch %r fails with %s in the frame but result is %r' % (
                w.expression, type(failed).__name__, (ent.type, ent.value[:60]) if ent else None))
        return
    if w.error:
        mech = 'scope:host-globals-invisible' if 'is not defined' in str(w.error) else 'watch:spurious-error'
        probs.add(mech, 'watch %r evaluates to %s in the frame but the agent reports error %r' % (
            w.expression, short(val, 60), w.error))
        return
    ent = lookup.get(getattr(w.result, 'vid', None))
    if ent is None:
        probs.add('closure:dangling-reference', 'watch %r result id %r not in the table' % (
            w.expression, getattr(w.result, 'vid', None)))
        return
    if ent.type == 'NameError' and not isinstance(val, NameError):
        probs.add('scope:host-globals-invisible', 'watch %r is %s in the frame (locals + module globals) but the '
                                                  'agent got %s' % (w.expression, short(val, 60), ent.value[:100]))
        return
    p = snapcheck.value_problem(val, ent, snapcheck.default_limits()['max_str'])
    if p:
        probs.add('watch:value', 'watch %r: %s' % (w.expression, p))
    if id(val) in local_ids and ent.hash != str(id(val)):
        probs.add('watch:identity', 'watch %r yields a frame local but the result entry has another identity' % (
            w.expression,))


def case_e2e(seed, out, spec, wd):
    from vf import e2e
    r = Rng('c02e', seed)
    frame_type = r.pick([None, 'single_frame', 'all_frame', 'no_frame'])
    marker = r.pick(['deposit_first', 'deposit_mid', 'deposit_last', 'transfer_first', 'transfer_mid',
                     'transfer_last', 'run_loop'])
    watches = r.sample(['amount', 'self.owner', 'len(self.history)', 'src is dst', 'label', 'nope', 'i'], r.randrange(0, 4))
    res = e2e.call_child('vf.props.c02', 'child_e2e', {'frame_type': frame_type, 'marker': marker,
                                                        'watches': watches})
    replay = replay_spec(spec, seed)
    if res.get('inconclusive'):
        out.inconc('e2e: ' + res['inconclusive'])
        return
    if res.get('child_failed'):
        out.violation('e2e:session-failed', 'agent session failed: %s' % res.get('stderr', '')[-600:],
                      {'marker': marker}, replay)
        return
    for mech, what in res['problems']:
        out.violation(mech, what, {'marker': marker, 'frame_type': frame_type, 'watches': watches}, replay)
    out.count('e2e_snapshots_compared', res['snaps'])
    out.count('snapshots_compared', res['snaps'])
    out.count('entries_compared', res['entries'])
    out.count('frames_compared', res['frames'])
    out.case({'e2e': marker, 'ft': frame_type, 'w': watches}, nontrivial=res['snaps'] > 0,
             sample={'rig': 'E', 'marker': marker, 'frame_type': frame_type, 'watches': watches,
                     'received_snapshots': res['snaps']})


def child_e2e(arg):
    """Fresh interpreter: real deep.start + loopback server; compare the *received protobuf* with the frame."""
    import sys
    import time
    from vf import e2e, clock
    from vf.server import LoopbackServer
    from deepproto.proto.tracepoint.v1.tracepoint_pb2 import TracePointConfig
    srv = LoopbackServer()
    line = e2e.marker_lines()[arg['marker']]
    args = {'fire_count': '1'}
    if arg['frame_type']:
        args['frame_type'] = arg['frame_type']
    srv.set_config('cfg1', [TracePointConfig(ID='tp-e2e', path='e2e_target.py', line_number=line, args=args,
                                             watches=arg['watches'])])
    import deep
    agent = deep.start(srv.config({'POLL_TIMER': 0.2, 'APP_ROOT': os.path.dirname(os.path.dirname(e2e.TARGET))}))
    probs = snapcheck.Problems()
    stats = {'snaps': 0, 'entries': 0, 'frames': 0}
    pending = []
    try:
        if not srv.wait_polls(1):
            return {'inconclusive': 'no poll'}
        # wait until the configuration is installed (behaviourally: the tracepoint acts)
        agent_trace = sys.gettrace()
        if agent_trace is None:
            return {'problems': [('e2e:not-installed', 'sys.gettrace() is None after start')], 'snaps': 0,
                    'entries': 0, 'frames': 0}

        # chain an observer in front of the agent's own function to read the frame at the event
        def observer(frame, event, argv):
            if event == 'line' and frame.f_lineno == line and frame.f_code.co_filename == e2e.TARGET:
                pending.append(_ProtoExpect(frame))
            r = agent_trace(frame, event, argv)
            return observer if r is not None else None

        from vf.targets import e2e_target
        end = time.monotonic() + 20
        # which reading belongs to the (single, fire_count=1) snapshot: the one taken for the event during which the
        # agent handed a snapshot to its push service (delivery is asynchronous and can take longer than one run)
        fired = []
        real_push = agent.push.push_snapshot

        def noting_push(snapshot):
            fired.append(len(pending) - 1)
            return real_push(snapshot)

        agent.push.push_snapshot = noting_push
        while not srv.snapshots and time.monotonic() < end:
            sys.settrace(observer)
            try:
                e2e_target.run(1)
            finally:
                sys.settrace(agent_trace)
            srv.wait_snapshots(1, 0.5)
        if not srv.snapshots:
            return {'inconclusive': 'no snapshot received within watchdog'}
        msg = srv.snapshots[0][0]
        stats['snaps'] = 1
        # the tracepoint fires once (fire_count=1): on the first time the line was reached in the run that produced it
        if len(fired) != 1 or not 0 <= fired[0] < len(pending):
            return {'inconclusive': 'could not tell which reading belongs to the received snapshot (%r)' % (fired,)}
        exp = pending[fired[0]]
        exp.compare(msg, arg, probs, stats)
    finally:
        try:
            agent.shutdown()
        except BaseException:  # noqa
            pass
        srv.stop()
    return {'problems': list(probs), 'snaps': stats['snaps'], 'entries': stats['entries'], 'frames': stats['frames']}


class _ProtoExpect:
    """Frame reading rendered eagerly (the frame moves on before the message arrives)."""

    def __init__(self, frame):
        self.stack = []
        f = frame
        while f is not None:
            loc = dict(f.f_locals)
            s = loc.get('self')
            self.stack.append({'file': f.f_code.co_filename, 'func': f.f_code.co_name, 'line': f.f_lineno,
                               'cls': type(s).__name__ if s is not None else None,
                               'locals': {k: (snapcheck.type_name(v), snapcheck.safe_str(v), id(v),
                                              len(v) if type(v) in (list, dict, tuple, set) else None)
                                          for k, v in loc.items()}})
            f = f.f_back
        self.thread = threading.current_thread().name

    def compare(self, msg, arg, probs, stats):
        ft = arg['frame_type'] or 'single_frame'
        if len(msg.frames) != len(self.stack):
            probs.add('fidelity:stack-length', 'received %d frames, real stack %d' % (len(msg.frames), len(self.stack)))
        for i, (fr, real) in enumerate(zip(msg.frames, self.stack)):
            stats['frames'] += 1
            if (fr.file_name, fr.method_name, fr.line_number) != (real['file'], real['func'], real['line']):
                probs.add('fidelity:frame', 'received frame %d %s:%s:%s, real %s:%s:%s' % (
                    i, os.path.basename(fr.file_name), fr.method_name, fr.line_number, os.path.basename(real['file']),
                    real['func'], real['line']))
            if (fr.class_name or None) != real['cls']:
                probs.add('fidelity:frame-class', 'received frame %d class %r, real %r' % (i, fr.class_name, real['cls']))
            wants = ft == 'all_frame' or (ft != 'no_frame' and i == 0)
            names = [v.name for v in fr.variables]
            if not wants:
                if names:
                    probs.add('fidelity:frame-type', 'frame %d carries variables under %s' % (i, ft))
                continue
            from vf import e2e as _e2e
            if real['file'] != _e2e.TARGET:
                continue  # harness / threading frames: their locals are the monitor's own moving state
            if set(names) != set(real['locals']):
                probs.add('fidelity:missing-local', 'received frame %d variables %s, locals %s' % (
                    i, sorted(names), sorted(real['locals'])))
            for v in fr.variables:
                if v.name not in real['locals']:
                    continue
                tname, sval, ident, ln = real['locals'][v.name]
                ent = msg.var_lookup.get(v.ID)
                if ent is None:
                    probs.add('closure:dangling-reference', 'received frame variable %s -> %s missing' % (v.name, v.ID))
                    continue
                stats['entries'] += 1
                if ent.type != tname or ent.hash != str(ident):
                    probs.add('fidelity:wrong-object', 'received %s: type %s hash %s, real %s %s' % (
                        v.name, ent.type, ent.hash, tname, ident))
                elif ln is not None:
                    if str(ln) not in ent.value:
                        probs.add('fidelity:value', 'received %s: container of %d rendered %r' % (v.name, ln, ent.value))
                elif sval is not None and ent.value != sval[:snapcheck.default_limits()['max_str']]:
                    probs.add('fidelity:value', 'received %s: value %r, real %r' % (v.name, ent.value[:60], sval[:60]))
        if msg.tracepoint.ID != 'tp-e2e' or msg.tracepoint.path != 'e2e_target.py':
            probs.add('naming:tracepoint-id', 'received tracepoint %s %s' % (msg.tracepoint.ID, msg.tracepoint.path))
        attrs = {kv.key: kv.value.string_value for kv in msg.attributes}
        if 'thread_name' in attrs and attrs['thread_name'] != self.thread:
            probs.add('fidelity:thread', 'received thread_name %r, line reached on %r' % (attrs['thread_name'], self.thread))


def run_shard(spec, out):
    wd = Workdir('c02')
    try:
        for seed in spec_seeds(spec):
            if spec['kind'] == 'frame':
                case_frame(seed, out, spec, wd.path)
            else:
                case_e2e(seed, out, spec, wd.path)
    finally:
        wd.close()
