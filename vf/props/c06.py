"""C06 Collection is total and per-tracepoint independent.

Monitor: hostile values (every class in vf.graphs.HOSTILE) are bound to frame locals, watch results, return values
and raised exceptions; for every due action the monitor requires one delivered snapshot that converts to a
serialisable message, names every local of the frame, and describes the friendly siblings truthfully (C02 reader).
With k tracepoints on one event each snapshot is checked on its own and their tables must be distinct objects.
"""
from vf import snapcheck, graphs
from vf.rig import line_trigger, direct_trigger
from vf.snaprig import FrameCase, Workdir
from vf.util import Rng, split_seeds, spec_seeds, replay_spec, short

ID = 'C06'
LEVEL = 'exploration'
TECHNIQUE = 'runtime monitor: hostile-value workloads, presence + per-snapshot fidelity + serialisation oracle'
RULE = ('frames with 1-5 locals of which 1-2 are hostile (bytes, datetime, deque, enum, slotted / dict-less objects, '
        'non-string-keyed dicts, objects whose str/repr/len/getattr/getattribute/eq/hash/bool/iter/__class__ raise '
        '(incl. BaseException), generators, iterators, modules, functions, lone surrogates, huge ints ...) placed '
        'directly, inside containers, as attribute, as watch result, as return value or as raised exception; 1-4 '
        'tracepoints on the same line (separate triggers or merged actions), optionally also logging the hostile value through a logger that writes UTF-8 lines; non-trivial = a hostile value was in '
        'reach of a due action; distinct by (hostile class, placement, tracepoint count, sibling skeleton)')
ASSUMPTIONS = ['placeholder text for an unrenderable value may be anything', 'children of hostile values are not required']
RULE += "; hostile classes added in round 7: text that refuses formatting (a str subclass with a raising __format__, as a value and as what __str__ answers), an instance - also as the frame's self - of a class whose __name__ is not text and has no text form"
REQUIRE = {'due_actions': 300, 'hostile_classes_seen': 40, 'multi_tracepoint_events': 50, 'capture_cases': 20,
           'watch_cases': 20, 'logged_cases': 100, 'logger_rejected_the_text': 4,
           'churn_cases_with_interleaving': 10}


def plan(tier, seed):
    n = {'quick': 1920, 'thorough': 28800}[tier]
    return split_seeds('h%s' % seed, n, 16, 'hostile') + split_seeds('u%s' % seed, {'quick': 48, 'thorough': 480}[tier],
                                                                       4, 'churn')


def case_hostile(seed, out, spec, wd, idx):
    r = Rng('c06', seed)
    # make sure every hostile class gets used: rotate deterministically, then randomise placement
    kind = graphs.HOSTILE_NAMES[idx % len(graphs.HOSTILE_NAMES)] if r.chance(0.8) else None
    kind, hv = graphs.hostile(r, kind)
    placement = r.pick(['local', 'local', 'in_list', 'in_dict', 'attr', 'dict_key_val', 'watch', 'capture_return',
                        'capture_raise', 'two'])
    names = ['first', 'second', 'third', 'fourth', 'fifth'][:r.randrange(1, 6)]
    if r.chance(0.25):
        names[r.randrange(len(names))] = 'self'   # a local called self need not be a well-behaved instance
    gg = graphs.GraphGen(r, hostile_p=0.0, max_depth=2, width=3)
    values = [gg.value() for _ in names]
    pos = r.randrange(len(names))
    if kind == 'class_name_is_not_text' and placement in ('local', 'two', 'watch') and r.chance(0.7):
        # the frame's own instance: its class is named on the frame
        names = [n_ if n_ != 'self' else 'sixth' for n_ in names]
        names[pos] = 'self'
    watches = []
    if placement in ('local', 'capture_return', 'capture_raise'):
        values[pos] = hv
    elif placement == 'in_list':
        values[pos] = ['before', hv, 'after']
    elif placement == 'in_dict':
        values[pos] = {'a': 1, 'h': hv, 'z': [2]}
    elif placement == 'attr':
        values[pos] = graphs.Plain(ok='fine', bad=hv, also=3)
    elif placement == 'dict_key_val':
        try:
            values[pos] = {hv: 'as-key', 'plain': 'p'}
        except BaseException:  # unhashable / raising hash
            values[pos] = {'k': hv}
    elif placement == 'watch':
        values[pos] = ['box', hv]
        watches = ['%s[1]' % names[pos], 'len(%s)' % names[pos]]
    elif placement == 'two':
        k2, hv2 = graphs.hostile(r)
        values[pos] = hv
        values[(pos + 1) % len(names)] = (hv2, 'tail')
        kind = kind + '+' + k2
    ntp = r.pick([1, 1, 2, 3, 4])
    merged = r.chance(0.5)
    capture = placement in ('capture_return', 'capture_raise')
    case = FrameCase(wd, names, values)
    base, line = case.base, case.line
    # the host returns / raises the hostile value for the capture placements
    if capture:
        src = open(case.path).read()
        if placement == 'capture_return':
            src = src.replace('    return marker\n\n\nclass Holder', '    return %s\n\n\nclass Holder' % names[pos])
        else:
            src = src.replace('    return marker\n\n\nclass Holder',
                              '    raise CaptureError(%s, "ctx")\n\n\nclass Holder' % names[pos])
            src = src.replace('"""generated host"""', '"""generated host"""\n\n\nclass CaptureError(Exception):\n    pass')
        with open(case.path, 'w') as f:
            f.write(src)
        from vf import hostframe
        case.mod = hostframe.load(case.path)
        case.line = line = hostframe.markers(case.path)['hit']
    ids = ['tp%d' % i for i in range(ntp)]
    # some tracepoints also log the hostile value through an ordinary logger that writes UTF-8 lines: whatever the
    # logger makes of the text, the snapshots of the event are still due
    field = {'local': names[pos], 'two': names[pos], 'in_list': '%s[1]' % names[pos], 'in_dict': "%s['h']" % names[pos],
             'attr': '%s.bad' % names[pos]}.get(placement)
    logged = field is not None and (r.chance(0.3) or kind.startswith('lone_surrogate'))
    args = {'log_msg': 'saw {%s} here' % field} if logged else {}
    from vf import plugins as vplugins
    stream_logger = vplugins.Utf8StreamLogger() if logged else None
    if logged:
        case.rig.config.plugins = list(case.rig.config.plugins) + [stream_logger]
    if capture:
        trigs = [direct_trigger(ids[0], base, None, 'Snapshot', {'stage': 'method_capture', 'watches': list(watches)},
                                function='leaf')]
        ids = ids[:1]
        ntp = 1
    elif merged and ntp > 1:
        from deep.api.tracepoint.trigger import Trigger
        t0 = line_trigger(ids[0], base, line, dict(args), watches)
        for i in ids[1:]:
            t0.merge_actions(line_trigger(i, base, line, dict(args), watches).actions)
        trigs = [t0]
    else:
        trigs = [line_trigger(i, base, line, dict(args), watches) for i in ids]
    probs = snapcheck.Problems()
    st = {'snaps': [], 'hit': 0}

    def on_hit(ev, frame, stack, new):
        st['hit'] += 1
        if capture:
            st.setdefault('stack', stack)   # the frame as it is when the deferred snapshot is opened (arguments only)
            return
        judge(new, ids, stack, watches, probs, st)

    hung, _ = case.run(trigs, on_hit)
    replay = replay_spec(spec, seed)
    witness = {'hostile': kind, 'placement': placement, 'tracepoints': ntp, 'merged': merged, 'locals': names,
               'agent_log': [short(x, 260) for x in case.rig.logs[-2:]]}
    if hung:
        out.inconc('C06 host hung (watchdog) seed=%s kind=%s' % (seed, kind))
        return
    if capture:
        # deferred snapshots are delivered when the invocation ends: judge what was pushed over the whole run
        recs = case.rig.push.pushed
        judge_capture(recs, ids, placement, probs, st.get('stack'))
        st['snaps'] = [r_.snapshot for r_ in recs]
        out.count('capture_cases')
    elif st['hit'] == 0:
        out.inconc('C06 marked line not reached seed=%s' % seed)
        return
    if case.rig.escapes:
        probs.add('containment:escape', 'collection raised into the host: %s' % case.rig.escapes[0][2][-300:])
    for mech, what in probs:
        out.violation(mech, what, witness, replay)
        out.count('viol_%s_%s_%s' % (mech, kind, placement))
    out.count('due_actions', ntp)
    out.distinct('hostile_classes_seen', kind.split('+')[0])
    if ntp > 1:
        out.count('multi_tracepoint_events')
    if placement == 'watch':
        out.count('watch_cases')
    if logged:
        out.count('logged_cases')
        if stream_logger.rejected:
            out.count('logger_rejected_the_text')
    out.case({'k': kind, 'p': placement, 'n': ntp, 'm': merged, 'names': names,
              'sib': [snapcheck.type_name(v) for v in values]}, nontrivial=True,
             sample=dict(witness, delivered=len(st['snaps'])))


def case_churn(seed, out, spec, wd):
    """A set / dict of the frame is being changed by another thread while the snapshot is taken: the snapshot is still
    delivered, the siblings are intact and the container is described with its elements (as many as the collection
    limit allows - the container never has fewer than that)."""
    import sys
    import threading
    r = Rng('c06u', seed)
    flavour = r.pick(['set', 'set', 'frozen_growing_dict'])
    size = r.pick([64, 300, 2000]) if flavour == 'set' else 64
    if flavour == 'set':
        shared = set(range(size))
    else:
        shared = {i: str(i) for i in range(size)}
    names = ['before', 'shared', 'after']
    values = [['b', 1], shared, {'a': (1, 2)}]
    case = FrameCase(wd, names, values)
    ntp = r.pick([1, 2])
    # a generous collection limit (when the per-action limit keys are honoured at all): walking a few thousand elements
    # takes long enough for the other thread to get its turns in between
    from vf.props.c05 import calibrated
    wide = flavour == 'set' and size >= 300 and r.chance(0.7) and calibrated(wd)
    if wide:
        trigs = [direct_trigger('tp%d' % i, case.base, case.line, 'Snapshot',
                                {'MAX_COLLECTION_SIZE': 3000, 'MAX_VARIABLES': 8000, 'MAX_STRING_LENGTH': 1024,
                                 'MAX_VAR_DEPTH': 5}) for i in range(ntp)]
    else:
        trigs = [line_trigger('tp%d' % i, case.base, case.line, {}, []) for i in range(ntp)]
    go, paused, stop = threading.Event(), threading.Event(), threading.Event()
    turns = [0]

    def mutate():
        i = size
        while not stop.is_set():
            if not go.is_set():
                paused.set()
                go.wait(0.05)
                continue
            paused.clear()
            turns[0] += 1
            if flavour == 'set':
                # grows by up to 1000 elements, shrinks back, and so on: the size never drops below the initial one
                if (i - size) // 1000 % 2 == 0:
                    shared.add(i)
                else:
                    shared.discard(i - 1000)
            else:
                # only grows (every key seen once stays), and not beyond what fits the variable budget with room
                # to spare: dictionaries are not cut at the collection size
                shared[i if len(shared) < size + 100 else size] = str(i)
            i += 1

    t = threading.Thread(target=mutate, name='vf-churn')
    old_switch = sys.getswitchinterval()
    sys.setswitchinterval(1e-6)
    t.start()                                   # started before the agent's hooks exist: not traced itself
    probs = snapcheck.Problems()
    st = {'snaps': [], 'hit': 0, 'turns': 0}

    def pre(ev, frame, arg):
        if ev.kind == 'line' and ev.line == case.line and ev.base == case.base:
            turns[0] = 0
            go.set()

    def on_hit(ev, frame, stack, new):
        go.clear()
        paused.wait(5)
        st['hit'] += 1
        st['turns'] += turns[0]
        limit = 3000 if wide else snapcheck.default_limits()['max_coll']
        got = {}
        for rec in new:
            got.setdefault(rec.snapshot.tracepoint.id, []).append(rec.snapshot)
        for i in range(ntp):
            ss = got.get('tp%d' % i, [])
            if len(ss) != 1:
                probs.add('totality:snapshot-lost', 'tracepoint tp%d is due at this event but %d snapshots were '
                                                    'delivered while another thread changed a %s of the frame' % (
                                                        i, len(ss), flavour))
                continue
            s = ss[0]
            st['snaps'].append(s)
            top = {v.name: s.var_lookup.get(v.vid) for v in s.frames[0].variables}
            for n in names:
                if top.get(n) is None:
                    probs.add('fidelity:missing-local', 'local %r is missing from the snapshot' % n)
            ent = top.get('shared')
            if ent is not None and len(ent.children) < min(limit, size):
                probs.add('totality:elements-lost', '%s of %d+ elements that another thread keeps changing is described '
                                                    'as %r with %d elements (collection limit %d)' % (
                                                        type(shared).__name__, size, ent.value, len(ent.children), limit))
            for n, v in (('before', values[0]), ('after', values[2])):
                e = top.get(n)
                if e is not None and (e.type != snapcheck.type_name(v) or len(e.children) != len(v)):
                    probs.add('fidelity:value', 'sibling %r changed: %s with %d children' % (n, e.type, len(e.children)))
            snapcheck.check_closed(s, probs)
            if not wide:     # (the hand-built action of the wide flavour carries numbers where the wire has text)
                convert_ok(s, probs)

    case.rig.pre = pre
    try:
        hung, _ = case.run(trigs, on_hit)
    finally:
        stop.set()
        go.set()
        t.join(10)
        sys.setswitchinterval(old_switch)
    replay = replay_spec(spec, seed)
    witness = {'container': flavour, 'size': size, 'tracepoints': ntp, 'collection_limit': 3000 if wide else 'default', 'mutator_turns_during_collection': st['turns'],
               'agent_log': [short(x, 260) for x in case.rig.logs[-2:]]}
    if hung or st['hit'] == 0:
        out.inconc('C06 churn case did not reach its line (seed %s)' % seed)
        return
    if case.rig.escapes:
        probs.add('containment:escape', 'collection raised into the host: %s' % case.rig.escapes[0][2][-300:])
    for mech, what in probs:
        out.violation(mech, what, witness, replay)
    out.count('churn_cases')
    if st['turns']:
        out.count('churn_cases_with_interleaving')
        out.count('mutator_turns_during_collection', st['turns'])
    out.count('due_actions', ntp)
    if wide:
        out.count('churn_cases_with_wide_limit')
    out.case({'churn': flavour, 'size': size, 'n': ntp, 'seed': str(seed)}, nontrivial=st['turns'] > 0,
             sample=dict(witness, delivered=len(st['snaps'])))


def judge(new, ids, stack, watches, probs, st):
    got = {}
    for rec in new:
        got.setdefault(rec.snapshot.tracepoint.id, []).append(rec.snapshot)
        st['snaps'].append(rec.snapshot)
    for i in ids:
        if len(got.get(i, [])) != 1:
            probs.add('totality:snapshot-lost', 'tracepoint %s is due at this event but %d snapshots were delivered '
                                                '(delivered for: %s)' % (i, len(got.get(i, [])), sorted(got)))
    snaps = [s for ss in got.values() for s in ss]
    for a in range(len(snaps)):
        for b in range(a + 1, len(snaps)):
            if snaps[a].var_lookup is snaps[b].var_lookup:
                probs.add('independence:shared-table', 'snapshots of %s and %s share one variable table object' % (
                    snaps[a].tracepoint.id, snaps[b].tracepoint.id))
    for s in snaps:
        before = len(probs)
        snapcheck.check_frames(s, stack, probs)
        snapcheck.check_frame_vars(s, stack, 'single_frame', {'max_str': snapcheck.default_limits()['max_str'], 'max_coll': None}, probs,
                                   strict_children=None)
        snapcheck.check_closed(s, probs)
        for w in watches:
            if not any(x.expression == w for x in s.watches):
                probs.add('totality:watch-lost', 'watch %r has no result on the snapshot of %s' % (w, s.tracepoint.id))
        if len(probs) > before and len(snaps) > 1:
            # attribute to independence when another snapshot of the same event is fine
            pass
        convert_ok(s, probs)


def judge_capture(recs, ids, placement, probs, stack=None):
    if len(recs) != 1:
        probs.add('totality:snapshot-lost', 'capture tracepoint is due once, %d snapshots delivered' % len(recs))
        return
    s = recs[0].snapshot
    if stack is not None:
        # the captured result is added to the snapshot, it must not replace or alter the frame's own variables
        snapcheck.check_frame_vars(s, stack, 'single_frame', {'max_str': snapcheck.default_limits()['max_str'],
                                                              'max_coll': None}, probs, strict_children=None)
    cap = [w for w in s.watches if w.source == 'CAPTURE']
    if len(cap) < 1:
        probs.add('totality:capture-lost', 'deferred snapshot has no captured %s' % placement)
    snapcheck.check_closed(s, probs)
    convert_ok(s, probs)


def convert_ok(s, probs):
    """The delivery path must be able to turn the snapshot into a message and into bytes."""
    from deep.push import convert_snapshot
    try:
        msg = convert_snapshot(s)
    except BaseException as e:  # noqa
        probs.add('totality:conversion-raised', 'convert_snapshot raised %r' % (e,))
        return
    if msg is None:
        probs.add('totality:conversion-dropped', 'convert_snapshot returned None: the snapshot would not be sent')
        return
    try:
        data = msg.SerializeToString()
        type(msg).FromString(data)
    except BaseException as e:  # noqa
        probs.add('totality:not-serialisable', 'converted snapshot cannot be serialised: %r' % (e,))


def run_shard(spec, out):
    wd = Workdir('c06')
    try:
        seeds = spec_seeds(spec)
        if spec.get('kind') == 'churn':
            for seed in seeds:
                case_churn(seed, out, spec, wd.path)
            return
        for i, seed in enumerate(seeds):
            idx = spec.get('lo', 0) + i
            try:
                idx = int(str(seed).split(':')[-1])
            except ValueError:
                pass
            case_hostile(seed, out, spec, wd.path, idx)
    finally:
        wd.close()
