"""C15 Deferred work (spans, captures) is completed exactly once, in its own thread.

Monitor: a recording span plugin and decorator/push recorders log every opening (span created, deferred snapshot
created) and every completion (span closed, deferred snapshot handed over) tagged with the trace event and thread they
happened in; the independent recorder keeps, per thread, the real invocation stack (call/return events, frame
identity, how each invocation ended). The history checker then requires for each opening: exactly one completion,
strictly after the opening event, not after the return event of the invocation that opened it, on the same thread;
for captures the reported value must be the real outcome of that invocation; nothing may complete on a thread that
did not open it.
"""
import os
import threading

from vf import plugins, programs, snapcheck
from vf.rig import Rig, line_trigger, direct_trigger
from vf.snaprig import Workdir
from vf.util import Rng, split_seeds, spec_seeds, replay_spec, short

ID = 'C15'
LEVEL = 'exploration'
TECHNIQUE = 'runtime monitor: open/close history checker joined with the recorder\'s per-thread invocation stack (frame identity)'
RULE = ('generated programs (recursion, mutual recursion, nested calls, caught / re-raised / propagating exceptions, '
        'finally, generators incl. send/throw/close and yield from, coroutines driven by hand (send / throw / close) and by an asyncio event loop (gathered tasks, a cancelled task, async generators left unfinished, async with), 1-3 worker threads, 2-3 threads driven in lock step through a seeded turn order so that invocations of one function overlap across threads), 1-3 span processors (one of which may decline spans), a 500+ deep recursion with two spans pending per invocation, x 1-5 deferred tracepoints: '
        'line spans, method spans (by name), method_capture / line_capture snapshots (direct actions), co-located '
        'line+method tracepoints on one function incl. its last line, fire_count 1 or unlimited; non-trivial = at '
        'least one opening observed; distinct by (shapes, tracepoints)')
ASSUMPTIONS = ['one generator / coroutine resume counts as one invocation (CPython reports call/return per resume)',
               'a captured exception may be rendered as the (type, value, traceback) triple CPython hands to tracers']
REQUIRE = {'openings': 1500, 'span_openings': 600, 'capture_openings': 300, 'recursive_openings': 60,
           'openings_in_threads': 40, 'exception_exits': 60,
           'withdrawn_mid_flight': 30, 'several_span_processors': 100,
           'openings_overlapping_same_function_in_another_thread': 40, 'deep_recursion_cases': 10, 'with_a_declining_span_processor': 30, 'snapshot_ahead_of_span': 15, 'with_spans_that_are_falsy_when_new': 30, 'captures_on_indirectly_recursive_functions': 10, 'captures_on_functions_sharing_their_name': 10,
           'openings_in_coroutines': 12, 'openings_in_generators': 60}


def plan(tier, seed):
    n = {'quick': 640, 'thorough': 9600}[tier]
    return split_seeds('d%s' % seed, n, 16, 'deferred')


FORCE = [['recursion'], ['mutual'], ['nested_calls'], ['try_caught'], ['finally_reraise'], ['propagate'],
         ['gen_full'], ['gen_send_throw'], ['yield_from'], ['threads'], ['method_exc'], ['else_finally'],
         ['uncaught_in_gen'], ['with_cm'], ['recursion', 'threads'], ['klass'], ['lockstep'], ['lockstep', 'mutual'], ['deep_recursion'], ['same_name'],
         ['coro_manual'], ['asyncio_tasks'], ['asyncio_tasks', 'recursion']]


class Inv:
    __slots__ = ('fid', 'func', 'base', 'tid', 'call_seq', 'ret_seq', 'outcome', 'pending_exc', 'depth', 'is_gen', 'is_coro',
                 'rendered')

    def __init__(self, ev, depth):
        self.fid, self.func, self.base, self.tid = ev.fid, ev.func, ev.base, ev.tid
        self.call_seq, self.ret_seq, self.outcome, self.pending_exc, self.depth = ev.seq, None, None, None, depth
        self.is_gen = False
        self.is_coro = False
        self.rendered = None


def case_deferred(seed, out, spec, wd, idx):
    r = Rng('c15', seed)
    plugins.reset()
    sub = os.path.join(wd, 'c%s' % str(seed).replace(':', '_'))
    os.makedirs(sub, exist_ok=True)
    prog = programs.generate(r, sub, 'a', n_shapes=r.randrange(2, 5), force=FORCE[idx % len(FORCE)], escaping=False)
    mod = programs.load(prog.path)
    funcs = [f for f in prog.func_lines if not f.startswith('__') and f != 'main']
    body_lines = [ln for ln in prog.lines]
    ntp = r.randrange(1, 6)
    tps = []
    trigs = []
    deep = [f for f in funcs if f.startswith('deep_rec_')]
    if deep:
        # more than a thousand pieces of deferred work pending at once in one thread: a method span and a line span
        # per invocation of a 500+ deep recursion
        f = deep[0]
        start = prog.func_lines[f]
        ln = next(n_ for n_ in body_lines if n_ > start and 'below = ' in prog.src.split('\n')[n_ - 1])
        common = {'fire_count': '-1', 'fire_period': '0', 'snapshot': 'no_collect'}
        trigs.append(line_trigger('deepM', prog.base, start, dict(common, span='method', method_name=f), [], []))
        trigs.append(line_trigger('deepL', prog.base, ln, dict(common, span='line'), [], []))
        tps += [('deepM', 'mspan', f, '-1'), ('deepL', 'lspan', ln, '-1')]
        ntp = r.randrange(0, 2)
        out.count('deep_recursion_cases')
    for i in range(ntp):
        kind = r.pick(['mspan', 'mspan', 'lspan', 'mcapture', 'mcapture', 'lcapture', 'colocated'])
        fc = r.pick(['-1', '-1', '1'])
        common = {'fire_count': fc, 'fire_period': '0'}
        tp_id = 'tp%d' % i
        twins = [f for f in funcs if f.startswith('run_')]
        if i == 0 and twins and not deep:
            # two different functions of one file that share their name, one calling the other: the outer one's pending
            # capture is completed by its own return
            f = twins[0]
            trigs.append(direct_trigger(tp_id, prog.base, None, 'Snapshot',
                                        dict(common, fire_count='-1', stage='method_capture', frame_type='no_frame'),
                                        function=f))
            tps.append((tp_id, 'mcapture', f, '-1'))
            out.count('captures_on_functions_sharing_their_name')
            continue
        mutual = [f for f in funcs if f.startswith(('is_even_', 'is_odd_'))]
        if i == 0 and mutual and not deep and idx % 2 == 1:
            # indirect recursion: the same function is running again further down, with another function between
            # the two invocations, while the outer invocation's deferred capture is pending
            f = mutual[idx // 2 % len(mutual)]
            trigs.append(direct_trigger(tp_id, prog.base, None, 'Snapshot',
                                        dict(common, fire_count='-1', stage='method_capture', frame_type='no_frame'),
                                        function=f))
            tps.append((tp_id, 'mcapture', f, '-1'))
            out.count('captures_on_indirectly_recursive_functions')
            continue
        if kind == 'mspan':
            f = r.pick(funcs)
            trigs.append(line_trigger(tp_id, prog.base, prog.func_lines[f],
                                      dict(common, span='method', method_name=f, snapshot='no_collect'), [], []))
            tps.append((tp_id, kind, f, fc))
        elif kind == 'lspan':
            ln = r.pick(body_lines)
            trigs.append(line_trigger(tp_id, prog.base, ln, dict(common, span='line', snapshot='no_collect'), [], []))
            tps.append((tp_id, kind, ln, fc))
        elif kind == 'mcapture':
            f = r.pick(funcs)
            trigs.append(direct_trigger(tp_id, prog.base, None, 'Snapshot',
                                        dict(common, stage='method_capture', frame_type='no_frame'), function=f))
            tps.append((tp_id, kind, f, fc))
        elif kind == 'lcapture':
            ln = r.pick(body_lines)
            trigs.append(direct_trigger(tp_id, prog.base, ln, 'Snapshot',
                                        dict(common, stage='line_capture', frame_type='no_frame')))
            tps.append((tp_id, kind, ln, fc))
        else:
            # a method span on a function plus a line span on one of its (often the last) lines
            f = r.pick(funcs)
            start = prog.func_lines[f]
            own = [ln for ln in body_lines if start < ln < start + 12]
            nxt = [v for v in prog.func_lines.values() if v > start]
            if nxt:
                own = [ln for ln in own if ln < min(nxt)]
            if not own:
                continue
            ln = own[-1] if r.chance(0.6) else r.pick(own)
            if r.chance(0.4):
                # an ordinary snapshot tracepoint on the same line, ahead of the span: if handing its snapshot over
                # fails, the span of that hit is opened and closed all the same
                trigs.append(line_trigger(tp_id + 'S', prog.base, ln, dict(common), [], []))
                out.count('snapshot_ahead_of_span')
            trigs.append(line_trigger(tp_id, prog.base, start,
                                      dict(common, span='method', method_name=f, snapshot='no_collect'), [], []))
            trigs.append(line_trigger(tp_id + 'L', prog.base, ln, dict(common, span='line', snapshot='no_collect'), [], []))
            tps.append((tp_id, 'mspan', f, fc))
            tps.append((tp_id + 'L', 'lspan', ln, fc))
    # one to three span processors: each of them gets its own span for every hit, closed exactly once
    n_proc = r.pick([1, 1, 2, 3])
    # (a later processor may decline spans - a sampling tracer returns None - the earlier ones' spans are still closed)
    decliner = r.chance(0.4)
    # (the spans of the third processor have a length - events added so far - and are therefore falsy while new)
    sized = r.chance(0.5)
    if sized and n_proc == 3:
        out.count('with_spans_that_are_falsy_when_new')
    span_plugins = [plugins.RecSpans(), plugins.make('RecSpans2', ['span_sampling' if decliner else 'span'], order=1)(),
                    plugins.make('RecSpans3', ['span_sized' if sized else 'span'], order=2)()][:n_proc]
    rig = Rig(custom={'APP_ROOT': sub}, host_dir=sub, plugins=span_plugins + [plugins.RecDecorator()])
    rig.install(trigs)
    if r.chance(0.2):
        # the first hand-over of a snapshot fails (delivery closed / queue full): it must not be handed over again
        failed_once = []

        refusal = r.pick(['exception', 'closed'])

        def fail_first(snapshot):
            if not failed_once:
                failed_once.append(snapshot.id_str)
                if refusal == 'closed':
                    # what the agent's own task handler raises once it has been flushed (not an Exception subclass)
                    from deep.task import IllegalStateException
                    raise IllegalStateException()
                raise RuntimeError('delivery refused')

        rig.push.fail = fail_first
    stacks = {}        # tid -> [Inv]
    invs = []          # all invocations
    by_event_inv = {}  # ev.seq -> Inv active at that event
    opens = []         # dict(kind, key, tp, ev, inv)
    withdrawn = []
    closes = []        # dict(kind, key, ev, tid, snapshot)
    lock = threading.Lock()

    # a configuration update may land between any two trace events: with some probability the tracepoints are
    # withdrawn (empty configuration installed, as a poll update would) while deferred work is open
    withdraw_at = r.randrange(1, 60) if r.chance(0.25) else None
    seen_open = [0]

    def pre(ev, frame, arg):
        if withdraw_at is not None and opens and not withdrawn:
            seen_open[0] += 1
            if seen_open[0] == withdraw_at:
                withdrawn.append(ev.seq)
                rig.install([])
        st = stacks.setdefault(ev.tid, [])
        if ev.kind == 'call':
            inv = Inv(ev, len(st))
            inv.is_gen = bool(frame.f_code.co_flags & 0x20)
            inv.is_coro = bool(frame.f_code.co_flags & 0x280)  # coroutine / asynchronous generator
            st.append(inv)
            with lock:
                invs.append(inv)
        inv = st[-1] if st else None
        if inv is not None and inv.fid == ev.fid:
            if ev.kind == 'exception':
                inv.pending_exc = arg
            elif ev.kind == 'line':
                inv.pending_exc = None
            elif ev.kind == 'return':
                inv.ret_seq = ev.seq
                if inv.pending_exc is not None and arg is None:
                    inv.outcome = ('exception', inv.pending_exc[1] if isinstance(inv.pending_exc, tuple) else inv.pending_exc)
                else:
                    inv.outcome = ('return', arg)
                    # rendered now: the text of a value can change later (e.g. a weakref whose referent dies)
                    inv.rendered = (type(arg).__name__, snapcheck.safe_str(arg),
                                    len(arg) if type(arg) in (dict,) + snapcheck.BUILTIN_SEQ else None)
        with lock:
            by_event_inv[ev.seq] = inv

    def post(ev, frame, arg):
        if ev.kind == 'return':
            st = stacks.get(ev.tid, [])
            if st and st[-1].fid == ev.fid:
                st.pop()

    def hook(name, callback, payload):
        ev = rig.current_event()
        rec = {'ev': ev, 'tid': threading.get_ident()}
        if callback == 'span_open':
            # the index the recording span will carry (taken under the recorder's lock, not re-read here: another
            # thread may have opened a span in between)
            rec.update(kind='span', key=(name, plugins.hook_call_index()), tp=payload['tp'])
            opens_span.append(rec)
            with lock:
                opens.append(rec)
        elif callback == 'span_close':
            rec.update(kind='span', span=(name, payload['span']))
            with lock:
                closes.append(rec)
        elif callback == 'decorate':
            rec.update(kind='capture', sid=payload['snapshot'])
            with lock:
                decorated.append(rec)

    opens_span = []
    decorated = []
    rig.pre, rig.post = pre, post
    plugins.HOOK[0] = hook

    def body():
        return programs.run_outcome(mod)

    try:
        outcome, exc = rig.run(body)
    finally:
        plugins.HOOK[0] = None
    pushed = list(rig.push.pushed)
    escapes = list(rig.escapes)
    logs = list(rig.logs)
    rig.cleanup()
    replay = replay_spec(spec, seed)
    witness = {'shapes': prog.shapes, 'tracepoints': tps, 'configuration_withdrawn_at_event': withdrawn[:1],
               'agent_log': [short(x, 200) for x in logs[-2:]]}
    if withdrawn:
        out.count('withdrawn_mid_flight')
    if n_proc > 1:
        out.count('several_span_processors')
        if decliner:
            out.count('with_a_declining_span_processor')
    if exc is not None:
        out.inconc('C15 harness body raised %r' % (exc,))
        return
    if escapes:
        out.violation('containment:escape', 'trace handler raised: %s' % escapes[0][2][-400:], witness, replay)
        return
    span_events = [e for e in plugins.EVENTS if e[3] in ('span_open', 'span_close')]
    # ---- spans: pair by span index (the recording span object knows its own index)
    close_by_idx = {}
    for c in closes:
        close_by_idx.setdefault(c['span'], []).append(c)
    n_open = 0
    probs = []
    for i, o in enumerate(opens_span):
        n_open += 1
        ev = o['ev']
        inv = by_event_inv.get(ev.seq) if ev is not None else None
        cs = close_by_idx.get(o['key'], [])
        where = '%s span of %s (processor %s) opened at %s:%s in %s()' % ('method' if ev and ev.kind == 'call' else 'line', o['tp'], o['key'][0],
                                                          ev.base if ev else '?', ev.line if ev else '?',
                                                          ev.func if ev else '?')
        if len(cs) == 0:
            probs.append(('deferred:span-never-closed', '%s was never closed' % where))
            continue
        if len(cs) > 1:
            probs.append(('deferred:span-closed-twice', '%s was closed %d times' % (where, len(cs))))
            continue
        c = cs[0]
        check_completion(where, o, c, inv, probs)
        out.count('span_openings')
        tally(out, inv, invs)
    # ---- deferred snapshots: opening = decoration of a snapshot of a capture tracepoint; completion = hand-over
    cap_ids = {t[0] for t in tps if t[1] in ('mcapture', 'lcapture')}
    pushes_by_sid = {}
    for p in pushed:
        pushes_by_sid.setdefault(p.snapshot.id_str, []).append(p)
    for d in decorated:
        ps = pushes_by_sid.get(d['sid'], [])
        snap_tp = ps[0].snapshot.tracepoint.id if ps else None
        ev = d['ev']
        inv = by_event_inv.get(ev.seq) if ev is not None else None
        where = 'deferred snapshot opened at %s:%s in %s()' % (ev.base if ev else '?', ev.line if ev else '?',
                                                               ev.func if ev else '?')
        if not ps:
            probs.append(('deferred:capture-never-completed', '%s was never handed over' % where))
            continue
        if snap_tp not in cap_ids:
            continue
        n_open += 1
        if len(ps) > 1:
            probs.append(('deferred:capture-completed-twice', '%s handed over %d times' % (where, len(ps))))
            continue
        p = ps[0]
        c = {'ev': p.ev, 'tid': p.tid}
        if check_completion(where, d, c, inv, probs):
            kind = [t[1] for t in tps if t[0] == snap_tp][0]
            if kind == 'mcapture':
                if inv is not None and p.ev is not None and p.ev.fid != inv.fid and p.ev.kind in ('return', 'exception'):
                    # completed by the end of *another* invocation while the opening one is still running (its result,
                    # even where it reads the same, is not the result of the invocation the tracepoint was hit in)
                    probs.append(('deferred:recursion-inner-result',
                                  '%s was completed at the %s of another invocation (%s() at line %s) while the opening '
                                  'invocation was still running' % (where, p.ev.kind, p.ev.func, p.ev.line)))
                    continue
                check_capture(where, p.snapshot, inv, probs)
        out.count('capture_openings')
        tally(out, inv, invs)
    for mech, what in probs[:6]:
        out.violation(mech, what, witness, replay)
    out.count('openings', n_open)
    out.case({'shapes': prog.shapes, 'calls': prog.calls, 'tps': tps, 'wd': withdraw_at}, nontrivial=n_open > 0,
             sample={'shapes': prog.shapes, 'tracepoints': tps, 'openings': n_open,
                     'completions': len(closes) + len(pushed), 'invocations_recorded': len(invs)})


def tally(out, inv, invs):
    if inv is None:
        return
    if inv.depth and any(x.func == inv.func and x.tid == inv.tid and x.call_seq < inv.call_seq and
                         (x.ret_seq is None or x.ret_seq > inv.call_seq) for x in invs):
        out.count('recursive_openings')
    if inv.tid != threading.main_thread().ident and threading.current_thread().ident != inv.tid:
        out.count('openings_in_threads')
    if inv.outcome and inv.outcome[0] == 'exception':
        out.count('exception_exits')
    if inv.is_coro:
        out.count('openings_in_coroutines')
    elif inv.is_gen:
        out.count('openings_in_generators')
    if inv.ret_seq is not None and any(x.func == inv.func and x.tid != inv.tid and x.call_seq < inv.ret_seq and
                                       (x.ret_seq is None or x.ret_seq > inv.call_seq) for x in invs):
        out.count('openings_overlapping_same_function_in_another_thread')


def check_completion(where, o, c, inv, probs):
    ev, cev = o['ev'], c['ev']
    if cev is None or ev is None:
        probs.append(('deferred:completed-outside-an-event', '%s completed outside any trace event' % where))
        return False
    if c['tid'] != o['tid']:
        probs.append(('deferred:completed-on-another-thread', '%s (thread %s) was completed on thread %s' % (
            where, o['tid'], c['tid'])))
        return False
    if cev.seq <= ev.seq:
        probs.append(('deferred:completed-during-triggering-event', '%s was completed during the event that opened it' % where))
        return False
    if inv is not None and inv.ret_seq is not None and cev.seq > inv.ret_seq:
        probs.append(('deferred:completed-after-invocation-ended',
                      '%s was completed at %s event %s:%s in %s(), after the opening invocation had %s' % (
                          where, cev.kind, cev.base, cev.line, cev.func,
                          'unwound' if inv.outcome and inv.outcome[0] == 'exception' else 'returned')))
        return False
    return True


def check_capture(where, snap, inv, probs):
    """method_capture: the captured value is the real outcome of the invocation that opened it."""
    caps = [w for w in snap.watches if w.source == 'CAPTURE']
    if inv is None or inv.outcome is None:
        return
    if len(caps) != 1:
        probs.append(('deferred:capture-missing', '%s carries %d captured results' % (where, len(caps))))
        return
    w = caps[0]
    kind, value = inv.outcome
    ent = snap.var_lookup.get(getattr(w.result, 'vid', None))
    if ent is None:
        probs.append(('deferred:capture-missing', '%s: captured result does not resolve' % where))
        return
    if kind == 'return':
        if w.expression != 'return':
            probs.append(('deferred:caught-exception-as-result',
                          '%s: the invocation returned %s but the capture reports %r (%s)' % (
                              where, short(value, 60), w.expression, ent.type)))
            return
        p = _rendered_problem(inv.rendered, ent) if inv.rendered else None
        if p:
            mech = 'deferred:recursion-inner-result' if inv.depth is not None and ent.type == type(value).__name__ \
                else 'deferred:capture-wrong-value'
            probs.append((mech, '%s: the invocation returned %s, the capture says %s=%r (%s)' % (
                where, short(value, 60), w.expression, ent.value[:60], p)))
    else:
        names = {ent.type} | {snap.var_lookup[c.vid].type for c in ent.children if c.vid in snap.var_lookup}
        if w.expression != 'exception' or type(value).__name__ not in names:
            probs.append(('deferred:capture-wrong-value', '%s: the invocation raised %s, the capture says %s of types %s' % (
                where, type(value).__name__, w.expression, sorted(names))))


def _rendered_problem(rendered, ent):
    tname, text, length = rendered
    if ent.type != tname:
        return 'type %r reported for a %s' % (ent.type, tname)
    if length is not None:
        import re
        if not re.search(r'(?<!\d)%d(?!\d)' % length, ent.value) and ent.value != (text or '')[:len(ent.value)]:
            return 'container of %d elements rendered as %r' % (length, ent.value[:60])
        return None
    if text is None or 'iterator' in tname or 'generator' in tname:
        return None
    lim = snapcheck.default_limits()['max_str']
    if ent.value != text[:lim]:
        return 'value %r is not str(obj)=%r' % (ent.value[:60], text[:60])
    return None


def run_shard(spec, out):
    wd = Workdir('c15')
    try:
        for i, seed in enumerate(spec_seeds(spec)):
            try:
                idx = int(str(seed).split(':')[-1])
            except ValueError:
                idx = i
            case_deferred(seed, out, spec, wd.path, idx)
    finally:
        wd.close()
