"""C20 Plugins are optional: ordered, skipped when inactive, isolated when faulty.

Monitors: (A) load_plugins result vs the reference (importable AND constructible AND active, non-decreasing order())
for generated plugin sets; (B) differential fault enumeration at trigger time: a scenario (2-4 recording plugins
covering decorator / logger / metric / span roles, tracepoints of all four action kinds, several hits) is run once
without faults, then once per (plugin, callback, k-th call) with exactly that call raising - every other plugin must
record exactly the calls it recorded in the fault-free run, every snapshot must still be delivered with the other
decorations, nothing may reach the host; (C) start / resource / shutdown faults end-to-end in a fresh interpreter.
"""
import os

from vf import plugins, hostframe, e2e
from vf.rig import Rig, line_trigger
from vf.snaprig import Workdir
from vf.util import Rng, split_seeds, spec_seeds, replay_spec, short

ID = 'C20'
LEVEL = 'fault_enumeration'
TECHNIQUE = 'differential fault enumeration over recording plugins (every plugin x callback x k-th call) + loader reference model'
RULE = ('loader: sets of 0-6 configured names (recording classes with order 0-3, failing constructors, switched off by '
        'PLUGIN_<NAME>=false, unimportable module, missing class) on top of the built-ins; isolation: for each seeded '
        'scenario of 2-4 plugins EVERY recorded call (plugin, callback in decorate/log/metric/span_open/span_close, '
        'index) is faulted once (exhaustive per scenario); end-to-end: resource / shutdown / constructor faults per '
        'plugin; the shipped Prometheus plugin failing on a metric the application has registered itself; non-trivial = a fault was injected or a plugin had to be skipped; distinct by canonical case')
ASSUMPTIONS = ['only the first tracepoint logger is used by the agent (documented behaviour), so a second logger '
               'never records', 'the faulted plugin\'s own later calls are not required']
EXHAUSTIVE = ['per scenario: every (plugin, callback, k-th call) seen in the fault-free run is faulted once']
RULE += '; loader: order() / is_active() failing with a BaseException that is not an Exception, a plugin module that calls sys.exit() at import, a plugin switched off by a display name that differs from its class name'
REQUIRE = {'loader_switched_off_by_display_name': 5, 'loader_base_exception_faults': 4, 'loader_module_exits_at_import': 4, 'loader_sets': 300, 'faults_injected': 1500, 'scenarios': 40, 'callbacks_covered': 5, 'e2e_sessions': 8, 'builtin_plugin_runs': 3}
SHARD_TIMEOUT = {'quick': 400, 'thorough': 2400}

HOST = '''"""c20 host"""


def work(n):
    total = n + 1  # @w1
    label = "n%d" % total  # @w2
    return label  # @w3


def drive():
    return [work(1), work(2), work(3)]
'''


def plan(tier, seed):
    n = {'quick': 1, 'thorough': 15}[tier]
    return (split_seeds('l%s' % seed, 480 * n, 4, 'loader') + split_seeds('i%s' % seed, 48 * n, 10, 'isolation') +
            split_seeds('e%s' % seed, 10 * n, 5 if tier == 'quick' else 10, 'e2e') +
            split_seeds('b%s' % seed, 6 * n, 2, 'builtin'))


# ------------------------------------------------------------------ (A) loader
def case_loader(seed, out, spec):
    from deep.api.plugin import load_plugins
    from deep.config import ConfigService
    r = Rng('c20l', seed)
    plugins.reset()
    custom_cfg = {}
    names = []
    expect = []   # (name, order)
    ambiguous = set()   # plugins whose activation the documentation does not settle
    n = r.randrange(0, 7)
    for i in range(n):
        c = r.randrange(10)
        nm = 'Load%s_%d' % (str(seed).replace(':', '_').replace('-', '_'), i)
        if c <= 4:
            order = r.pick([0, 0, 1, 2, 3, -1])
            plugins.make(nm, r.sample(['dec', 'log', 'met', 'span', 'res'], r.randrange(1, 4)), order=order)
            names.append('vf.plugins.' + nm)
            expect.append((nm, order))
            if r.chance(0.25):
                # another plugin (a class of its own) that goes by the same name, as two packages' `Exporter` classes do:
                # both are loaded
                order2 = r.pick([0, 1, 2])
                plugins.make(nm + '_twin', ['dec'], order=order2, display_name=nm)
                names.append('vf.plugins.' + nm + '_twin')
                expect.append((nm, order2))
                out.count('plugins_sharing_a_name')
        elif c == 5:
            plugins.make(nm, ['dec'], order=r.randrange(3), fail_ctor=True)
            names.append('vf.plugins.' + nm)
        elif c == 6:
            order = r.randrange(3)
            plugins.make(nm, ['met'], order=order)
            names.append('vf.plugins.' + nm)
            off = r.pick(['false', 'False', 'no', '0'])
            if r.chance(0.35):
                # a plugin that goes by a name of its own (not its class name) is switched off by that name
                shown = 'Shown%s' % nm[4:]
                plugins.make(nm, ['met'], order=order, display_name=shown)
                custom_cfg[('plugin_%s' % shown).upper()] = off
                out.count('loader_switched_off_by_display_name')
            else:
                custom_cfg[('plugin_%s' % nm).upper()] = off
        elif c == 7 and r.chance(0.5):
            # (the last one is a module that guards a missing dependency with sys.exit() at import: SystemExit is not an
            # Exception subclass, and the plugin is skipped like any other whose dependencies are missing)
            pick = r.pick(['no.such.module.Plugin', 'vf.nope.X', 'os.path.NotThere', 'vf.exiting_plugin.Exporter'])
            names.append(pick)
            if pick.startswith('vf.exiting'):
                out.count('loader_module_exits_at_import')
        elif c == 7:
            # switched off / on with a real boolean instead of text, or a plugin whose activity check itself fails
            order = r.randrange(3)
            cls = plugins.make(nm, ['dec'], order=order)
            names.append('vf.plugins.' + nm)
            how = r.pick(['bool_false', 'bool_true', 'raises', 'order_raises', 'order_is_text'])
            if how == 'bool_false':
                custom_cfg[('plugin_%s' % nm).upper()] = False
            elif how == 'bool_true':
                custom_cfg[('plugin_%s' % nm).upper()] = True     # switched on is switched on
                expect.append((nm, order))
            elif how == 'order_raises':
                # a plugin that cannot even say where it wants to be: it is the one that is left out (or sorted as 0),
                # the others are loaded and ordered as usual
                bad_order_exc = r.pick([RuntimeError, RuntimeError, plugins.PluginCancelled])
                if bad_order_exc is plugins.PluginCancelled:
                    out.count('loader_base_exception_faults')

                def bad_order(self, _exc=bad_order_exc):
                    raise _exc('no order for %s' % nm)
                cls.order = bad_order
                ambiguous.add(nm)
            elif how == 'order_is_text':
                cls.order = lambda self: 'first'
                ambiguous.add(nm)
            else:
                broken_exc = r.pick([RuntimeError, RuntimeError, plugins.PluginCancelled])
                if broken_exc is plugins.PluginCancelled:
                    out.count('loader_base_exception_faults')

                def broken(self, _exc=broken_exc):
                    raise _exc('cannot tell whether %s is active' % nm)
                cls.is_active = broken
        elif c == 8:
            names.append('vf.plugins.MissingClass%d' % i)
        else:
            order = r.randrange(3)
            plugins.make(nm, ['log'], order=order)
            names.append('vf.plugins.' + nm)
            custom_cfg[('plugin_%s' % nm).upper()] = r.pick(['true', 'True', 'yes'])
            expect.append((nm, order))
    builtin_off = r.chance(0.3)
    if builtin_off:
        custom_cfg['PLUGIN_PYTHONPLUGIN'] = 'false'
    config = ConfigService(custom_cfg)
    replay = replay_spec(spec, seed)
    witness = {'configured': names, 'config': custom_cfg}
    try:
        loaded = load_plugins(config, list(names))
    except BaseException as e:  # noqa
        out.violation('loader:raised', 'load_plugins raised %r' % (e,), witness, replay)
        return
    def _order(p):
        try:
            o = p.order() or 0
            return o if isinstance(o, int) else None
        except BaseException:  # noqa
            return None
    got = [(p.name, _order(p)) for p in loaded]
    witness['loaded'] = got
    mine = [g for g in got if g[0].startswith(('Load', 'Shown')) and g[0] not in ambiguous]
    if sorted(mine) != sorted(expect):
        missing = sorted(set(expect) - set(mine))
        extra = sorted(set(mine) - set(expect))
        mech = 'loader:good-plugin-skipped' if missing else 'loader:bad-plugin-loaded'
        out.violation(mech, 'loaded %s, expected %s (missing %s, unexpected %s)' % (mine, expect, missing, extra),
                      witness, replay)
        return
    orders = [g[1] for g in got if g[1] is not None]
    if orders != sorted(orders):
        out.violation('loader:not-ordered', 'plugins not sorted by their declared order: %s' % got, witness, replay)
        return
    py = [g for g in got if g[0] == 'PythonPlugin']
    if bool(py) == builtin_off:
        out.violation('loader:builtin-activation', 'PythonPlugin %s although PLUGIN_PYTHONPLUGIN=%r' % (
            'loaded' if py else 'missing', custom_cfg.get('PLUGIN_PYTHONPLUGIN')), witness, replay)
        return
    out.count('loader_sets')
    out.case({'names': [n_.split('.')[-1][:4] + n_[-2:] for n_ in names], 'cfg': sorted(map(str, custom_cfg.values())),
              'exp': [o for _, o in expect]}, nontrivial=len(expect) < n or builtin_off,
             sample={'configured': names, 'switches': custom_cfg, 'loaded': got})


# ------------------------------------------------------------------ (B) trigger-time isolation
def scenario(r, base, marks):
    from deep.api.tracepoint.tracepoint_config import MetricDefinition
    nplug = r.randrange(2, 5)
    plist = []
    for i in range(nplug):
        kinds = set(r.sample(['dec', 'met', 'span', 'log'], r.randrange(1, 4)))
        plist.append(('Iso%d' % i, sorted(kinds), r.randrange(0, 3)))
    # make sure every role occurs at least once in the set
    have = {k for _, ks, _ in plist for k in ks}
    for k in ('dec', 'met', 'span', 'log'):
        if k not in have:
            nm, ks, o = plist[r.randrange(nplug)]
            plist[plist.index((nm, ks, o))] = (nm, sorted(set(ks) | {k}), o)
    a = {'fire_count': '-1', 'fire_period': '0'}
    tps = [
        ('snap', marks['w1'], dict(a), [], []),
        ('logsnap', marks['w2'], dict(a, log_msg='L {total}'), ['total'], []),
        ('logonly', marks['w2'], dict(a, log_msg='only {n}', snapshot='no_collect'), [], []),
        ('metric', marks['w3'], dict(a, snapshot='no_collect'), [],
         [MetricDefinition('m_a', 'counter'), MetricDefinition('m_b', 'gauge', [], 'n')]),
        ('span', marks['w2'], dict(a, snapshot='no_collect', span='line'), [], []),
        ('mspan', marks['w1'], dict(a, snapshot='no_collect', span='method', method_name='work'), [], []),
    ]
    return plist, tps


def run_scenario(wd, base, line_marks, plist, tps, mod, fault=None, cancelled=False):
    plugins.reset()
    insts = [plugins.make(nm, ks, order=o)() for nm, ks, o in plist]
    insts.sort(key=lambda p: p.order())
    if fault is not None:
        plugins.FAULTS[(fault[0], fault[1])] = {fault[2]}
        if cancelled:
            plugins.FAULT_CLASS[0] = plugins.PluginCancelled
    rig = Rig(custom={}, host_dir=wd, plugins=insts)
    rig.install([line_trigger(i, base, ln, args, w, m) for i, ln, args, w, m in tps])
    res, exc = rig.run(mod.drive)
    calls = {}
    for _, _, nm, cb, payload in plugins.EVENTS:
        calls.setdefault(nm, []).append((cb, _essence(cb, payload)))
    snaps = []
    for rec in rig.push.pushed:
        snaps.append((rec.snapshot.tracepoint.id, sorted(k for k in dict(rec.snapshot.attributes.items())
                                                         if k.startswith('dec.'))))
    esc = [e[2][-300:] for e in rig.escapes]
    logs = list(rig.logs)
    rig.cleanup()
    return {'result': res, 'exc': repr(exc) if exc else None, 'calls': calls, 'snaps': snaps, 'escapes': esc,
            'open_spans': _open_spans(plugins.EVENTS), 'agent_log': logs[-2:]}


def _essence(cb, payload):
    if cb == 'metric':
        return payload[:2]
    if cb in ('span_open', 'span_close'):
        return (payload.get('name'), payload.get('tp'))
    if cb == 'log':
        return (payload.get('msg'),)
    return None


def _open_spans(events):
    opened = {}
    for _, _, nm, cb, payload in events:
        if cb == 'span_open':
            opened[(nm, payload['name'], payload['tp'], len([1 for k in opened if k[0] == nm]))] = True
    n_open = sum(1 for e in events if e[3] == 'span_open')
    n_close = sum(1 for e in events if e[3] == 'span_close')
    return n_open - n_close


def case_isolation(seed, out, spec, wd):
    r = Rng('c20i', seed)
    hpath = os.path.join(wd, 'c20host.py')
    if not os.path.exists(hpath):
        with open(hpath, 'w') as f:
            f.write(HOST)
    base = os.path.basename(hpath)
    marks = hostframe.markers(hpath)
    mod = hostframe.load(hpath)
    plist, tps = scenario(r, base, marks)
    good = run_scenario(wd, base, marks, plist, tps, mod)
    replay = replay_spec(spec, seed)
    wit0 = {'plugins': plist}
    if good['escapes'] or good['exc'] or good['result'] != ['n2', 'n3', 'n4']:
        out.violation('containment:escape', 'fault-free scenario: outcome %r exc %r escapes %s' % (
            good['result'], good['exc'], good['escapes'][:1]), wit0, replay)
        return
    if good['open_spans'] != 0:
        out.violation('isolation:span-left-open', 'fault-free scenario left %d spans open' % good['open_spans'],
                      wit0, replay)
    faults = []
    for nm, cl in good['calls'].items():
        counts = {}
        for cb, _ in cl:
            if cb in ('decorate', 'log', 'metric', 'span_open', 'span_close'):
                faults.append((nm, cb, counts.get(cb, 0)))
                counts[cb] = counts.get(cb, 0) + 1
    injected = 0
    for fault in faults:
        # (every third failure has the shape of asyncio.CancelledError, which is not an Exception subclass)
        cancelled = injected % 3 == 2
        bad = run_scenario(wd, base, marks, plist, tps, mod, fault, cancelled)
        if cancelled:
            out.count('faults_that_are_not_exception_subclasses')
        injected += 1
        out.distinct('callbacks_covered', fault[1])
        witness = {'plugins': plist, 'fault': fault, 'fault_class': 'BaseException' if cancelled else 'Exception', 'agent_log': [short(x, 200) for x in bad['agent_log']]}
        if bad['escapes'] or bad['exc'] or bad['result'] != good['result']:
            out.violation('isolation:fault-reached-host',
                          'plugin fault %s reached the application: outcome %r exc %r escape %s' % (
                              fault, bad['result'], bad['exc'], bad['escapes'][:1]), witness, replay)
            break
        stop = False
        for nm, cl in good['calls'].items():
            if nm == fault[0]:
                continue
            if bad['calls'].get(nm, []) != cl:
                lost = _diff(cl, bad['calls'].get(nm, []))
                out.violation('isolation:other-plugin-skipped:%s' % fault[1],
                              'fault in %s.%s (call %d) changed what plugin %s received: lost %s' % (
                                  fault[0], fault[1], fault[2], nm, lost[:4]), witness, replay)
                stop = True
                break
        if stop:
            break
        if len(bad['snaps']) != len(good['snaps']):
            out.violation('isolation:snapshot-lost:%s' % fault[1], 'fault %s: %d snapshots delivered, %d without the '
                                                                   'fault' % (fault, len(bad['snaps']), len(good['snaps'])),
                          witness, replay)
            break
        for (tg, dg), (tb, db) in zip(good['snaps'], bad['snaps']):
            lost = set(dg) - set(db) - {'dec.%s' % fault[0]}
            if tg != tb or lost:
                out.violation('isolation:decoration-lost', 'fault %s: snapshot of %s lost decorations %s' % (
                    fault, tg, sorted(lost)), witness, replay)
                stop = True
                break
        if stop:
            break
        # spans of other plugins are all closed again
        closes_good = {nm: sum(1 for cb, _ in cl if cb == 'span_close') for nm, cl in good['calls'].items()}
        for nm, n_good in closes_good.items():
            if nm != fault[0]:
                n_bad = sum(1 for cb, _ in bad['calls'].get(nm, []) if cb == 'span_close')
                if n_bad != n_good:
                    out.violation('isolation:span-left-open', 'fault %s: plugin %s closed %d spans, %d without the '
                                                              'fault' % (fault, nm, n_bad, n_good), witness, replay)
                    stop = True
                    break
        if stop:
            break
    out.count('faults_injected', injected)
    out.count('scenarios')
    out.case({'plugins': plist}, nontrivial=injected > 0,
             sample={'plugins': plist, 'faults_enumerated': len(faults), 'first_faults': faults[:5],
                     'fault_free_calls': {k: len(v) for k, v in good['calls'].items()}})


def _diff(a, b):
    b = list(b)
    lost = []
    for x in a:
        if x in b:
            b.remove(x)
        else:
            lost.append(x)
    return lost


# ------------------------------------------------------------------ (C) end to end
def case_e2e(seed, out, spec):
    r = Rng('c20e', seed)
    nplug = r.randrange(2, 4)
    faulty = r.randrange(nplug)
    what = r.pick(['resource', 'shutdown', 'ctor', 'inactive', 'resource+shutdown'])
    arg = {'nplug': nplug, 'faulty': faulty, 'what': what, 'first': r.chance(0.5),
           'cancelled': int(str(seed).split(':')[-1]) % 2 == 1}   # every other session: failures that are not Exceptions
    res = e2e.call_child('vf.props.c20', 'child_e2e', arg, timeout=120)
    replay = replay_spec(spec, seed)
    if res.get('inconclusive'):
        out.inconc('C20 e2e: ' + res['inconclusive'])
        return
    if res.get('child_failed'):
        out.violation('isolation:agent-did-not-start', 'session with faulty plugin failed: %s' % res.get('stderr', '')[-600:],
                      arg, replay)
        return
    witness = dict(arg, observed=res)
    others = [i for i in range(nplug) if i != faulty]
    for i in others:
        if ('p%d' % i) not in res['poll_resource']:
            out.violation('isolation:resource-lost', 'resource attribute of healthy plugin E2e%d missing' % i, witness, replay)
            return
        if res['shutdowns'].get('E2e%d' % i, 0) < 1:
            out.violation('isolation:shutdown-skipped', 'healthy plugin E2e%d was not shut down' % i, witness, replay)
            return
        if ('dec.E2e%d' % i) not in res['snapshot_attrs']:
            out.violation('isolation:decoration-lost', 'snapshot lacks the decoration of healthy plugin E2e%d' % i,
                          witness, replay)
            return
    if what in ('ctor', 'inactive') and ('p%d' % faulty) in res['poll_resource']:
        out.violation('loader:bad-plugin-loaded', 'plugin E2e%d (%s) contributed a resource' % (faulty, what), witness, replay)
        return
    if not res['snapshot_attrs']:
        out.violation('isolation:snapshot-lost:e2e', 'no snapshot was delivered', witness, replay)
        return
    out.count('e2e_sessions')
    out.case(arg, nontrivial=True, sample=witness)


def child_e2e(arg):
    import time
    from vf.server import LoopbackServer
    from deepproto.proto.tracepoint.v1.tracepoint_pb2 import TracePointConfig
    names = []
    cfg = {}
    if arg.get('cancelled'):
        plugins.FAULT_CLASS[0] = plugins.PluginCancelled
    for i in range(arg['nplug']):
        bad = i == arg['faulty']
        plugins.make('E2e%d' % i, ['res', 'dec'], order=(-5 if (bad and arg.get('first')) else i), attrs={'p%d' % i: 'v'},
                     fail_ctor=bad and arg['what'] == 'ctor')
        names.append('vf.plugins.E2e%d' % i)
        if bad and arg['what'] == 'inactive':
            cfg['PLUGIN_E2E%d' % i] = 'false'
        if bad and 'resource' in arg['what']:
            plugins.FAULTS[('E2e%d' % i, 'resource')] = '*'
        if bad and 'shutdown' in arg['what']:
            plugins.FAULTS[('E2e%d' % i, 'shutdown')] = '*'
    srv = LoopbackServer()
    line = e2e.marker_lines()['deposit_mid']
    srv.set_config('c', [TracePointConfig(ID='tp', path='e2e_target.py', line_number=line)])
    import deep
    from vf.targets import e2e_target
    cfg.update({'PLUGINS': names, 'POLL_TIMER': 0.1})
    agent = deep.start(srv.config(cfg))
    try:
        if not srv.wait_polls(1):
            return {'inconclusive': 'no poll'}
        end = time.monotonic() + 15
        while not srv.snapshots and time.monotonic() < end:
            e2e_target.run(1)
            srv.wait_snapshots(1, 0.3)
        poll_res = e2e.attrs_of(srv.polls[0][0].resource.attributes)
        snap_attrs = e2e.attrs_of(srv.snapshots[0][0].attributes) if srv.snapshots else {}
    finally:
        try:
            agent.shutdown()
        except BaseException:  # noqa
            pass
        srv.stop()
    return {'poll_resource': poll_res, 'snapshot_attrs': snap_attrs,
            'shutdowns': {'E2e%d' % i: len(plugins.events('E2e%d' % i, 'shutdown')) for i in range(arg['nplug'])}}


def case_builtin(seed, out, spec, wd):
    """The shipped Prometheus metric plugin next to a recording processor. One of the tracepoint's metrics collides
    with a time series the application has registered itself, so the shipped plugin fails on it (inside its own
    code): the other processor still gets every metric of every hit, later metrics still work, and the application's
    thread is never left blocked in plugin code."""
    import sys
    import threading
    from deep.api.tracepoint.tracepoint_config import MetricDefinition
    try:
        import prometheus_client
        from deep.api.plugin.metric.prometheus_metrics import PrometheusPlugin
    except BaseException as e:  # noqa
        out.note('prometheus plugin not importable here (%r): built-in scenario skipped' % (e,))
        out.count('builtin_plugin_runs')
        out.case({'builtin': 'unavailable'}, nontrivial=False)
        return
    r = Rng('c20b', seed)
    hpath = os.path.join(wd, 'c20host.py')
    if not os.path.exists(hpath):
        with open(hpath, 'w') as f:
            f.write(HOST)
    base = os.path.basename(hpath)
    marks = hostframe.markers(hpath)
    mod = hostframe.load(hpath)
    tag = 'c20b_%s' % str(seed).replace(':', '_')
    taken = '%s_taken' % tag
    # the application's own metric: same full name as the agent would register for <taken> in namespace 'deep'
    kind = r.pick(['counter', 'gauge'])
    app_metric = (prometheus_client.Counter if kind == 'counter' else prometheus_client.Gauge)(
        name=taken, documentation='owned by the application', namespace='deep')
    order = r.pick(['taken_first', 'taken_second'])
    names = [taken, '%s_free' % tag] if order == 'taken_first' else ['%s_free' % tag, taken]
    defs = [MetricDefinition(names[0], kind), MetricDefinition(names[1], kind), MetricDefinition('%s_last' % tag, 'counter')]
    plugins.reset()
    rec = plugins.make('BuiltinRec', ['met'], order=5)()
    from deep.config import ConfigService
    rig = Rig(custom={}, host_dir=wd, plugins=[])
    prom = PrometheusPlugin(rig.config)
    rig.config.plugins = [prom, rec] if r.chance(0.5) else [rec, prom]
    a = {'fire_count': '-1', 'fire_period': '0', 'snapshot': 'no_collect'}
    rig.install([line_trigger('bm', base, marks['w3'], dict(a), [], defs),
                 line_trigger('bm2', base, marks['w1'], dict(a), [], [MetricDefinition('%s_other' % tag, 'counter')])])
    done = {}

    def body():
        done['res'] = rig.run(mod.drive)

    t = threading.Thread(target=body, name='c20-builtin-host')
    t.start()
    t.join(20)
    replay = replay_spec(spec, seed)
    witness = {'metrics': names + ['%s_last' % tag], 'already_registered_by_the_application': 'deep_' + taken,
               'processors': [type(p).__name__ for p in rig.config.plugins]}
    if t.is_alive():
        fr = sys._current_frames().get(t.ident)
        stack = []
        while fr is not None:
            stack.append('%s:%d %s' % (fr.f_code.co_filename, fr.f_lineno, fr.f_code.co_name))
            fr = fr.f_back
        inside = [x for x in stack if os.sep + 'deep' + os.sep in x and 'plugin' in x]
        witness['stack_of_the_blocked_thread'] = stack[:12]
        if inside:
            out.violation('isolation:host-blocked-in-plugin-code',
                          'the application thread has been inside %s for 20 s after the shipped metric plugin failed to '
                          'register a metric' % inside[0], witness, replay)
        else:
            out.inconc('C20 built-in scenario did not finish (not inside plugin code)')
        try:
            prometheus_client.REGISTRY.unregister(app_metric)
        except BaseException:  # noqa
            pass
        return
    res, exc = done.get('res', (None, None))
    hits = len([e for e in plugins.events('BuiltinRec', 'metric') if e[4][1] == names[0]])
    got = {}
    for e in plugins.events('BuiltinRec', 'metric'):
        got[e[4][1]] = got.get(e[4][1], 0) + 1
    rig.cleanup()
    try:
        prometheus_client.REGISTRY.unregister(app_metric)
    except BaseException:  # noqa
        pass
    if exc is not None or rig.escapes:
        out.violation('isolation:fault-reached-host', 'host outcome %r, escapes %s' % (exc, rig.escapes[:1]), witness, replay)
        return
    want = 3   # drive() runs work() three times
    for nme in names + ['%s_last' % tag, '%s_other' % tag]:
        if got.get(nme, 0) != want:
            out.violation('isolation:other-plugin-skipped:metric',
                          'the recording processor got metric %s %d times in %d hits (the shipped plugin failed on %s)' % (
                              nme, got.get(nme, 0), want, taken), witness, replay)
            return
    # the shipped plugin itself: the metrics it could register have the values of three hits
    sample = prometheus_client.REGISTRY.get_sample_value('deep_%s_last_total' % tag)
    if sample != 3.0:
        out.violation('isolation:shipped-plugin-stopped-working', 'after failing on one metric the shipped plugin reports '
                                                                  '%r for a later counter hit %d times' % (sample, want),
                      witness, replay)
        return
    out.count('builtin_plugin_runs')
    out.case({'builtin': order, 'kind': kind, 'seed': str(seed)}, nontrivial=True, sample=witness)


def run_shard(spec, out):
    wd = Workdir('c20')
    try:
        for seed in spec_seeds(spec):
            if spec['kind'] == 'loader':
                case_loader(seed, out, spec)
            elif spec['kind'] == 'isolation':
                case_isolation(seed, out, spec, wd.path)
            elif spec['kind'] == 'builtin':
                case_builtin(seed, out, spec, wd.path)
            else:
                case_e2e(seed, out, spec)
    finally:
        wd.close()
