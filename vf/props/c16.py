"""C16 Log tracepoints emit the template with every field evaluated in place.

Monitor: an independent template renderer (own scanner for literal text, doubled braces and {expr} fields, fields
evaluated by the recorder in the paused frame) gives the expected message; a recording TracepointLogger plugin, the
real PythonPlugin logger and the delivered snapshot (log_msg, LOG watch results, context/tracepoint attributes)
give the observed side. Count of messages is checked against the permitted hits.
"""
import logging
import os
import threading
import re

from vf import clock, plugins, hostframe, snapcheck
from vf.rig import Rig, line_trigger
from vf.snaprig import Workdir
from vf.util import Rng, split_seeds, spec_seeds, replay_spec, short

ID = 'C16'
LEVEL = 'exploration'
TECHNIQUE = 'runtime monitor: independent template renderer + recording logger plugin vs emitted messages and snapshots'
RULE = ('templates from a grammar: literal runs (ascii, unicode, %, $, quotes), doubled braces, 0-5 fields naming '
        'locals, attributes, indexes, calls, host globals and failing expressions (no ":" "!" or braces inside a '
        'field); log-only and log+snapshot tracepoints, a logger that rejects text it cannot encode (with a co-located tracepoint), a logger with parameter names of its own, plugins configured again mid-run, empty containers and freshly computed temporaries as fields, fire_count 1/2/-1, 1-4 hits with changing frame state; '
        'malformed templates for containment only; non-trivial = a message was expected and compared; distinct by '
        '(template, frame inputs, mode)')
ASSUMPTIONS = ['field expressions avoid the characters the format mini-language gives a meaning to']
RULE += '; two threads building a message for one tracepoint at the same time (the first parked inside the text form of one of its fields while the second emits a whole message)'
REQUIRE = {'messages_built_while_another_thread_is_inside_its_message': 15, 'messages_compared': 1000, 'fields_compared': 1500, 'failing_fields': 150, 'snapshot_log_pairs': 300,
           'label_checks': 1000, 'python_plugin_messages': 100, 'malformed_templates': 30,
           'messages_the_logger_rejected': 40, 'logger_reconfigured_cases': 40}
T0 = 1_700_000_000_000_000_000

HOST = '''"""c16 host"""
LIMIT = 42
WORDS = ["zero", "one", "two"]
name = "module-level-name"
count = -7
data = "module-level-data"


def shout(s):
    return str(s).upper()


class Person:
    def __init__(self, name, age):
        self.name = name
        self.age = age
        self.tags = {"k": name, "n": age}

    def __str__(self):
        return "Person(%s)" % self.name


class NoStr:
    def __str__(self):
        raise RuntimeError("cannot print")


def leaf(count, name, person, data, weird):
    marker = 0  # @hit
    return marker
'''

FIELDS = ['count', 'name', 'person', 'person.name', 'person.age + 1', 'person.tags["k"]', "person.tags['n']",
          'data', 'data[0]', 'data[-1]', 'len(data)', 'WORDS[count % 3]', 'LIMIT', 'shout(name)', 'name.upper()',
          'count * 2', 'str(count) + name', 'sorted(data)', 'max(data)', 'None', 'True', '3.5', 'count > 1',
          # freshly computed numbers and strings: temporaries that exist only while the field is evaluated
          'count * 1.5', 'count / 3', 'person.age / 7', 'len(data) * 0.25', 'count * 1000 + 7', 'name * 3',
          'person.age * 12345',
          # parts that open a scope of their own still see the frame's variables
          'sum(d * count for d in data)', 'max((len(name) + d for d in data), default=count)',
          'sorted(w + name for w in WORDS)',
          # ... and the module's: a global read only inside the nested scope
          'sum(d * LIMIT for d in data)', 'sorted(shout(w) for w in [name, "b"])', '[WORDS[d % 3] for d in data]',
          # empty containers, stored and freshly made
          'data * 0', 'list()', 'dict()', 'tuple(data)', 'set()', 'sorted(data) * 0', 'dict(person.tags)']
FAILING = ['nope_zz', 'person.missing', 'data[99]', '1/0', 'person.tags["zz"]', 'int(name)', 'weird.attr', 'count.x']
LITERALS = ['', ' ', 'value=', 'hit ', ' -> ', 'ünï ✓ ', '100% ', '$x ', "it's ", '"q" ', 'a/b\\c ', 'tab\t', '[', ']',
            '(deep) ', 'x = ', ' , ', '#', '%s %d ']


def plan(tier, seed):
    n = {'quick': 960, 'thorough': 14400}[tier]
    return split_seeds('l%s' % seed, n, 16, 'log') + split_seeds('m%s' % seed, n // 16, 2, 'meet')


def gen_template(r):
    parts = []
    nfields = r.pick([0, 1, 1, 2, 3, 5])
    fields = []
    pieces = r.randrange(1, 4) + nfields
    slots = sorted(r.sample(range(pieces), nfields)) if nfields else []
    for i in range(pieces):
        if i in slots:
            f = r.pick(FAILING) if r.chance(0.25) else r.pick(FIELDS)
            if r.chance(0.15):
                f = ' ' + f if r.chance(0.5) else f + ' '
            fields.append(f)
            parts.append('{' + f + '}')
        else:
            c = r.randrange(6)
            if c == 0:
                parts.append('{{')
            elif c == 1:
                parts.append('}}')
            elif c == 2:
                parts.append('{{' + r.pick(LITERALS) + '}}')
            else:
                parts.append(r.pick(LITERALS))
    return ''.join(parts), fields


MALFORMED = ['{', '}', 'open {name', 'close name}', '{name}}', '{{name}', '{name!z}', '{name:>>>zz}', '{person.}',
             '{}{}', '{0} {1}', '{name!r:>5}', '{[}', '{name.__class__', '{' * 3 + 'x' + '}' * 2]


def render(template, frame):
    """Independent renderer. Returns (text, [(field, value, failed)])."""
    out = []
    fields = []
    i, n = 0, len(template)
    while i < n:
        ch = template[i]
        if ch == '{':
            if i + 1 < n and template[i + 1] == '{':
                out.append('{')
                i += 2
                continue
            j = template.index('}', i)
            expr = template[i + 1:j]
            try:
                val, failed = snapcheck.eval_in_frame(expr, frame), None
            except BaseException as e:  # noqa
                val, failed = None, e
            fields.append((expr, val, failed))
            out.append(str(failed) if failed is not None else snapcheck.safe_str(val))
            i = j + 1
        elif ch == '}':
            if i + 1 < n and template[i + 1] == '}':
                out.append('}')
                i += 2
                continue
            raise ValueError('single }')
        else:
            out.append(ch)
            i += 1
    return ''.join(x if x is not None else '<unprintable>' for x in out), fields


def case_log(seed, out, spec, wd):
    r = Rng('c16', seed)
    plugins.reset()
    path = os.path.join(wd, 'c16host.py')
    if not os.path.exists(path):
        with open(path, 'w') as f:
            f.write(HOST)
    base = os.path.basename(path)
    line = hostframe.markers(path)['hit']
    mod = hostframe.load(path)
    malformed = r.chance(0.07)
    if malformed:
        template, fields = r.pick(MALFORMED), []
    else:
        template, fields = gen_template(r)
    collect = r.chance(0.5)
    logger = r.pick(['rec', 'rec', 'rec', 'python'])
    # a logger that writes UTF-8 lines (file, socket) cannot take every text: it raises after receiving it. The
    # messages of that hit - also those of a co-located tracepoint - are still all due.
    strict = (not malformed) and r.chance(0.12)
    if strict:
        logger = 'rec'
        template = 'n={name} ' + template
    fc = r.pick([1, 2, -1])
    args = {'log_msg': template, 'fire_count': str(fc), 'fire_period': '0'}
    if not collect:
        args['snapshot'] = 'no_collect'
    tp_id = 'tp-%d' % r.randrange(10 ** 6)
    trigs = [line_trigger(tp_id, base, line, args, [], [])]
    other_id = None
    if r.chance(0.3) or strict:   # a second, well-formed log tracepoint on the same line must be unaffected
        other_id = 'other-%d' % r.randrange(10 ** 6)
        trigs.append(line_trigger(other_id, base, line, {'log_msg': 'other {count}', 'snapshot': 'no_collect',
                                                        'fire_count': '-1', 'fire_period': '0'}, [], []))
    if logger == 'python':
        from deep.api.plugin.python import PythonPlugin
        plist = [PythonPlugin(config=None)]
    else:
        # a logger object may well be falsy (e.g. it implements __len__ and is empty): it is still the logger
        # (and it may name its parameters as it likes: the three values are given by position)
        plist = [plugins.make('RecLogger', [r.pick(['log', 'log', 'logp'])],
                              falsy=r.pick([None, None, None, 'len', 'bool']))()]
    rig = Rig(custom={}, host_dir=wd, plugins=plist)
    rig.install(trigs)
    nhits = r.randrange(1, 5)
    inputs = []
    for _ in range(nhits):
        data = [r.randrange(9) for _ in range(r.randrange(0 if r.chance(0.3) else 1, 5))]
        if collect and r.chance(0.15):
            # a frame far larger than the snapshot's variable limit: the message must still render every field
            data = [[[i * 100 + j * 10 + k for k in range(10)] for j in range(10)] for i in range(11)]
        inputs.append((r.randrange(0, 7),
                       r.pick(['bad\udcffname', '\ud800']) if strict else
                       r.pick(['ann', 'bob', '7', 'Ünï', '  padded  ', 'two\nlines', '', '{braces}', '%d']), r.pick(['p1', 'p2']),
                       data, r.pick(['nostr', 'plain'])))
    rejected = []
    expected = []   # per hit: (text, fields)
    observed = {}   # hit -> [(tp_id_arg, ctx_arg, msg)]
    pylog = {}
    cur = {'hit': -1}
    snaps = {}

    def pre(ev, frame, arg):
        if ev.kind == 'line' and ev.line == line and ev.base == base:
            cur['hit'] += 1
            if malformed:
                expected.append(None)
            else:
                expected.append(render(template, frame))

    def post(ev, frame, arg):
        if ev.kind == 'line' and ev.line == line and ev.base == base:
            snaps[cur['hit']] = [p.snapshot for p in rig.push.pushed if p.ev is ev]

    def hook(name, callback, payload):
        if callback == 'log':
            observed.setdefault(cur['hit'], []).append((payload['tp_id'], payload['ctx_id'], payload['msg'], name))
            if strict:
                try:
                    payload['msg'].encode('utf-8')
                except UnicodeEncodeError:
                    rejected.append(cur['hit'])
                    raise

    class H(logging.Handler):
        def emit(self, record):
            if record.levelno == logging.INFO:
                try:
                    pylog.setdefault(cur['hit'], []).append(record.getMessage())
                except BaseException:  # noqa
                    pylog.setdefault(cur['hit'], []).append(str(record.msg))

    handler = H()
    deep_logger = logging.getLogger('deep')
    old_level = deep_logger.level
    if logger == 'python':
        deep_logger.addHandler(handler)
        deep_logger.setLevel(logging.INFO)
    rig.pre, rig.post = pre, post
    plugins.HOOK[0] = hook

    # the plugins may be configured again while the agent lives (it is started again): from then on the messages go
    # to the logger configured last
    swap_at = r.randrange(1, nhits) if (logger == 'rec' and nhits > 1 and r.chance(0.25)) else None

    def body():
        for i, (count, name, pname, data, weird) in enumerate(inputs):
            if i == swap_at:
                rig.config.plugins = [plugins.make('RecLoggerB', ['log'])()]
            clock.set_virtual(T0 + i * 1000000)
            mod.leaf(count, name, mod.Person(pname, 30 + i), data, mod.NoStr() if weird == 'nostr' else 'plain')

    try:
        _, exc = rig.run(body)
    finally:
        clock.set_virtual(None)
        plugins.HOOK[0] = None
        deep_logger.removeHandler(handler)
        deep_logger.setLevel(old_level)
    rig.cleanup()
    replay = replay_spec(spec, seed)
    witness = {'logger_replaced_before_hit': swap_at, 'template': template, 'collect': collect, 'logger': logger, 'logger_rejects_unencodable_text': strict, 'fire_count': fc, 'inputs': inputs,
               'second_tracepoint': other_id is not None, 'agent_log': [short(x, 160) for x in rig.logs[-2:]]}
    if exc is not None:
        out.inconc('C16 host raised %r' % (exc,))
        return
    if rig.escapes:
        out.violation('containment:escape', 'trace handler raised for template %r: %s' % (
            template, rig.escapes[0][2][-300:]), witness, replay)
    permitted = list(range(nhits)) if fc == -1 else list(range(min(fc, nhits)))
    nfail = 0
    compared = 0
    for h in range(nhits):
        mine = [o for o in observed.get(h, []) if tp_id in (o[0], o[1])] if logger == 'rec' else pylog.get(h, [])
        if logger == 'python' and other_id:
            mine = [m for m in mine if '[deep] other ' not in m]
        if other_id:
            others = [o for o in observed.get(h, []) if other_id in (o[0], o[1])] if logger == 'rec' else [
                m for m in pylog.get(h, []) if '[deep] other ' in m]
            if len(others) != 1:
                out.violation('isolation:colocated-log-lost', 'hit %d: the well-formed co-located log tracepoint emitted '
                                                              '%d messages (template of the first: %r)' % (
                                                                  h, len(others), template), witness, replay)
                return
        if malformed:
            continue  # containment only
        want = 1 if h in permitted else 0
        if len(mine) != want:
            out.violation('log:message-count', 'hit %d: %d messages emitted, %d permitted (fire_count=%s)' % (
                h, len(mine), want, fc), witness, replay)
            return
        if not want:
            continue
        text, fvals = expected[h]
        exp_msg = '[deep] ' + text
        unprintable = any(f is None and snapcheck.safe_str(v) is None for _, v, f in fvals)
        nfail += sum(1 for _, _, f in fvals if f is not None)
        if logger == 'rec':
            a_tp, a_ctx, msg, a_logger = mine[0]
            want_logger = 'RecLoggerB' if (swap_at is not None and h >= swap_at) else 'RecLogger'
            if a_logger != want_logger:
                out.violation('log:wrong-logger', 'hit %d: the message went to logger %s, the configured one is %s' % (
                    h, a_logger, want_logger), witness, replay)
                return
            if msg != exp_msg and not unprintable:
                out.violation('log:text', 'hit %d: logged %r, the template renders to %r' % (h, msg, exp_msg),
                              witness, replay)
                return
            compared += 1
            if a_tp != tp_id:
                mech = 'log:labels-swapped' if a_ctx == tp_id else 'log:wrong-tracepoint-id'
                out.violation(mech, 'logger was given tracepoint id %r and context id %r for tracepoint %r' % (
                    a_tp, a_ctx, tp_id), witness, replay)
                return
            if not re.fullmatch(r'[0-9a-f-]{32,36}', str(a_ctx)) or a_ctx == tp_id:
                out.violation('log:wrong-context-id', 'context id given to the logger is %r' % (a_ctx,), witness, replay)
                return
            out.count('label_checks')
            ctx_id = a_ctx
        else:
            msg = mine[0]
            if not msg.startswith(exp_msg) and not unprintable:
                out.violation('log:text', 'hit %d: python logger got %r, the template renders to %r' % (
                    h, msg, exp_msg), witness, replay)
                return
            tail = msg[len(exp_msg):] if msg.startswith(exp_msg) else msg
            # the default logger labels the two ids; whatever the exact layout, an id that follows the word
            # "tracepoint" must be the tracepoint's and one that follows "ctx"/"context" must not be
            m_tp = re.search(r'tracepoint\W{0,3}([\w-]+)', tail)
            m_ctx = re.search(r'(?:ctx|context)\W{0,3}([\w-]+)', tail)
            if tp_id not in tail or (m_tp and m_tp.group(1) != tp_id) or (m_ctx and m_ctx.group(1) == tp_id):
                mech = 'log:labels-swapped' if (m_ctx and m_ctx.group(1) == tp_id) else 'log:wrong-tracepoint-id'
                out.violation(mech, 'python logger line ends %r for tracepoint %r' % (tail, tp_id), witness, replay)
                return
            ids = re.findall(r'[0-9a-f]{8}-[0-9a-f]{4}-[0-9a-f]{4}-[0-9a-f]{4}-[0-9a-f]{12}', tail)
            ctx_id = m_ctx.group(1) if m_ctx else (ids[0] if ids else None)
            compared += 1
            out.count('python_plugin_messages')
            out.count('label_checks')
        if collect:
            ss = [s for s in snaps.get(h, []) if s.tracepoint.id == tp_id]
            if len(ss) != 1:
                out.violation('log:snapshot-missing', 'hit %d: log+snapshot tracepoint delivered %d snapshots' % (
                    h, len(ss)), witness, replay)
                return
            s = ss[0]
            if s.log_msg != (mine[0][2] if logger == 'rec' else exp_msg) and not unprintable:
                out.violation('log:snapshot-log-msg', 'snapshot.log_msg %r differs from the logged text %r' % (
                    s.log_msg, exp_msg), witness, replay)
                return
            lw = [w for w in s.watches if w.source == 'LOG']
            if [w.expression for w in lw] != [f for f, _, _ in fvals]:
                out.violation('log:snapshot-watches', 'LOG watch results %r for fields %r' % (
                    [w.expression for w in lw], [f for f, _, _ in fvals]), witness, replay)
                return
            probs = snapcheck.Problems()
            from vf.props.c02 import compare_watch
            budget_hit = len(s.var_lookup) + len(s.frames) + 1 >= snapcheck.default_limits()['max_vars']
            for w, (f, v, failed) in zip(lw, fvals):
                if budget_hit and failed is None and w.error:
                    continue   # the variable limit is used up: an explicit error result is legitimate, the text is not
                compare_watch(s, w, v, failed, set(), probs)
            snapcheck.check_closed(s, probs)
            for mech, what in probs:
                out.violation(mech, what, witness, replay)
            attrs = dict(s.attributes.items())
            if attrs.get('tracepoint') != tp_id or (ctx_id is not None and attrs.get('context') != ctx_id):
                out.violation('log:snapshot-labels', 'snapshot attributes context=%r tracepoint=%r, logger was given '
                                                     'context %r for tracepoint %r' % (attrs.get('context'),
                                                                                      attrs.get('tracepoint'), ctx_id,
                                                                                      tp_id), witness, replay)
                return
            out.count('snapshot_log_pairs')
        out.count('fields_compared', len(fvals))
    out.count('messages_compared', compared)
    if rejected:
        out.count('messages_the_logger_rejected', len(rejected))
    if swap_at is not None:
        out.count('logger_reconfigured_cases')
    out.count('failing_fields', nfail)
    if malformed:
        out.count('malformed_templates')
    out.case({'t': template, 'c': collect, 'l': logger, 'fc': fc, 'in': inputs, 'o': other_id is not None},
             nontrivial=compared > 0 or malformed,
             sample={'template': template, 'collect': collect, 'logger': logger,
                     'expected_first': ('[deep] ' + expected[0][0]) if expected and expected[0] else None,
                     'messages_compared': compared})


class _Parks:
    """A field value whose text form parks its thread (once) until the monitor lets it go on."""

    def __init__(self, label, hold):
        self.label, self.hold = label, hold
        self.parked, self.release = threading.Event(), threading.Event()
        self.seen = False

    def __str__(self):
        if self.hold and not self.seen:
            self.seen = True
            self.parked.set()
            self.release.wait(5)
        return 'gate-%s' % self.label

    __repr__ = __str__


def case_meet(seed, out, spec, wd):
    """Two threads build a message for the same log tracepoint at the same time: the first is parked in the middle of
    its message (inside the text form of one of its fields) while the second builds and emits a whole message; then the
    first goes on. Each message is rendered from its own frame."""
    r = Rng('c16m', seed)
    plugins.reset()
    path = os.path.join(wd, 'c16host.py')
    if not os.path.exists(path):
        with open(path, 'w') as f:
            f.write(HOST)
    base = os.path.basename(path)
    line = hostframe.markers(path)['hit']
    mod = hostframe.load(path)
    before = r.sample(['count', 'name', 'name.upper()', 'person.age + 1', 'len(data)'], r.randrange(1, 3))
    after = r.sample(['count * 2', 'shout(name)', 'person.name', 'sorted(data)', 'sum(d * count for d in data)'],
                     r.randrange(1, 3))
    template = 'meet ' + ' '.join('{%s}' % f for f in before) + ' <{weird}> ' + ' '.join('{%s}' % f for f in after)
    args = {'log_msg': template, 'fire_count': '-1', 'fire_period': '0'}
    if r.chance(0.5):
        args['snapshot'] = 'no_collect'
    rig = Rig(custom={}, host_dir=wd, plugins=[plugins.make('RecLogger', ['log'])()])
    rig.install([line_trigger('tp-meet', base, line, args, [], [])])
    gates = [_Parks('A', True), _Parks('B', False)]
    inputs = [(r.randrange(1, 7), r.pick(['ann', 'bob']), 'p1', [r.randrange(9) for _ in range(3)]),
              (r.randrange(7, 13), r.pick(['cyd', 'dee']), 'p2', [r.randrange(9) for _ in range(2)])]
    want = {}
    for i, (count, name, pname, data) in enumerate(inputs):
        ns = {'count': count, 'name': name, 'person': mod.Person(pname, 40 + i), 'data': data, 'shout': mod.shout}
        want[i] = '[deep] meet ' + ' '.join(str(eval(f, dict(ns))) for f in before) + ' <gate-%s> ' % 'AB'[i] + \
            ' '.join(str(eval(f, dict(ns), dict(ns))) if 'for' not in f else str(sum(d * count for d in data))
                     for f in after)
    got = {}

    def hook(name, callback, payload):
        if callback == 'log':
            got.setdefault(threading.current_thread().name, []).append(payload['msg'])

    plugins.HOOK[0] = hook

    def worker(i):
        count, name, pname, data = inputs[i]
        mod.leaf(count, name, mod.Person(pname, 40 + i), data, gates[i])

    def body():
        ta = threading.Thread(target=worker, args=(0,), name='meet-A')
        tb = threading.Thread(target=worker, args=(1,), name='meet-B')
        ta.start()
        met = gates[0].parked.wait(5)
        tb.start()
        tb.join(10)
        gates[0].release.set()
        ta.join(10)
        return met, ta.is_alive() or tb.is_alive()

    try:
        res, exc = rig.run(body)
    finally:
        plugins.HOOK[0] = None
    rig.cleanup()
    if exc is not None or res is None or res[1]:
        out.inconc('C16 meet: threads did not finish (%r)' % (exc,))
        return
    witness = {'template': template, 'first_thread_parked_inside_its_message': res[0], 'messages': got, 'expected': want}
    replay = replay_spec(spec, seed)
    for i, tname in enumerate(['meet-A', 'meet-B']):
        msgs = got.get(tname, [])
        if len(msgs) != 1:
            out.violation('log:message-count', 'thread %s reached the log tracepoint once and %d messages were emitted '
                          'for it (the other thread was building its own message at the same time)' % (tname, len(msgs)),
                          witness, replay)
            return
        if msgs[0] != want[i]:
            out.violation('log:text', 'thread %s: message %r, its frame renders %r (another thread was building its '
                          'message at the same time)' % (tname, msgs[0], want[i]), witness, replay)
            return
    if res[0]:
        out.count('messages_built_while_another_thread_is_inside_its_message')
    out.case({'meet': template, 'in': inputs}, nontrivial=bool(res[0]), sample=witness)


def run_shard(spec, out):
    wd = Workdir('c16')
    try:
        for seed in spec_seeds(spec):
            if spec.get('kind') == 'meet':
                case_meet(seed, out, spec, wd.path)
            else:
                case_log(seed, out, spec, wd.path)
    finally:
        wd.close()
