"""C04 Rate limiting: fire_count, fire_period and time window are never exceeded.

Monitors: (1) reference limiter over virtual-clock hit histories for all four action kinds and parsable/unparsable
settings - forbidden collections and (single-threaded) missing collections both refute; (2) gated concurrent hits: N
threads reach one tracepoint while a host local whose __str__ parks the collecting thread keeps every collection open
until all threads have either been refused or are collecting - the number of collections must still respect
fire_count / fire_period; (3) free-running thread stress with a tiny switch interval.
"""
import sys
import threading
import time

from vf import clock, plugins, hostframe
from vf.rig import Rig, line_trigger, direct_trigger
from vf.snaprig import Workdir
from vf.util import Rng, split_seeds, spec_seeds, replay_spec, short

ID = 'C04'
LEVEL = 'exploration'
TECHNIQUE = 'runtime monitor: reference rate limiter over virtual-clock histories + gated concurrent schedules'
RULE = ('seeded hit-time sequences (bursts, exact period boundaries, window edges) x fire_count in '
        '{-1,0,1,2,3,10,"abc","1.5","",absent} x fire_period in {0,1,10,1000,"abc",absent} x window (none, start, end, '
        'both) x action kind (snapshot, log, metric, span), via direct actions and via build_trigger; concurrent: 2-8 '
        'threads on one tracepoint under the parked-__str__ gate and free-running, hits parked while their condition is '
        'evaluated, a second hit run at every line event of the first one\'s limit check (sys.monitoring), sequential hits '
        'after everything settled; non-trivial = at least one hit '
        'was refused by a limit or threads reached the tracepoint while a collection was held open; distinct by canonical history')
ASSUMPTIONS = ['time is the agent\'s own reading of time.time_ns (virtual clock)',
               'under concurrency only the upper bounds are asserted (count <= fire_count, spacing >= period); '
               'must-collect is asserted single-threaded']
RULE += '; free-running threads on an unlimited tracepoint (every hit is due); a hit whose condition holds arriving while a hit of another thread is parked inside the evaluation of a condition that then rejects it'
REQUIRE = {'stress_hits_on_an_unlimited_tracepoint': 600, 'true_hits_while_a_false_condition_was_being_evaluated': 3, 'hits_checked': 5000, 'refused_by_count': 200, 'refused_by_period': 200, 'refused_by_window': 100,
           'boundary_hits': 50, 'gated_cases': 30, 'hostile_schedules': 30,
           'overlap_cases': 30, 'hits_while_collection_open': 30, 'interpose_points': 15,
           'overlap_cases_with_condition': 8, 'sequential_probe_hits': 60,
           'line_preemption_points': 40, 'line_preemptions_where_second_hit_completed': 2,
           'window_argument_cases': 6, 'straggler_cases': 6, 'settings_that_are_not_text': 30, 'two_tracepoint_cases': 4}
T0 = 1_700_000_000_000_000_000
MS = 1_000_000

HOST = '''"""c04 host"""


def leaf(gate, flag=True):
    marker = 0  # @hit
    return marker
'''


def plan(tier, seed):
    n = {'quick': 1, 'thorough': 15}[tier]
    specs = split_seeds('h%s' % seed, 1600 * n, 10, 'hist')
    specs += split_seeds('g%s' % seed, 96 * n, 4, 'gate')
    specs += split_seeds('s%s' % seed, 16 * n, 2, 'stress')
    specs += split_seeds('o%s' % seed, 64 * n, 4, 'overlap')
    specs += split_seeds('i%s' % seed, 12 * n, 3, 'interpose')
    specs += split_seeds('l%s' % seed, 8 * n, 4, 'linepreempt')
    specs += split_seeds('w%s' % seed, 8 * n, 1, 'argwindow')
    specs += split_seeds('z%s' % seed, 8 * n, 1, 'straggler')
    specs += split_seeds('t%s' % seed, 6 * n, 1, 'twotp')
    return specs


def parse_int(v, default):
    """Documented fall-back: unparsable numbers behave as the default."""
    try:
        return int(v)
    except (ValueError, TypeError):
        return default


def ref_limiter(times, fc, period_ms, window, flags=None):
    """Reference limiter: list of booleans (collect?) and the reason for each refusal."""
    out = []
    count, last = 0, None
    for t in times:
        reason = None
        if fc != -1 and count >= fc:
            reason = 'count'
        elif not in_window(window, t):
            reason = 'window'
        elif last is not None and (t - last) < period_ms * MS:
            reason = 'period'
        if reason is None and flags is not None and not flags[len(out)]:
            reason = 'condition'   # rejected by its condition: collects nothing and uses no budget
        if reason is None:
            count += 1
            last = t
        out.append(reason)
    return out


def in_window(w, t):
    s, e = w
    if s == 0 and e == 0:
        return True
    if s == 0:
        return t <= e
    if e == 0:
        return s <= t
    return s <= t <= e


def setup_host(wd, tag):
    import os
    path = os.path.join(wd, 'c04host_%s.py' % tag)
    with open(path, 'w') as f:
        f.write(HOST)
    return path, hostframe.load(path), hostframe.markers(path)['hit']


def build(kind, base, line, cfg, via_wire, tp_id='tp', condition=None, broken_tail=False):
    from deep.api.tracepoint.tracepoint_config import MetricDefinition
    if via_wire:
        args = {k: str(v) for k, v in cfg.items() if k in ('fire_count', 'fire_period')}
        metrics = []
        if kind != 'snapshot':
            args['snapshot'] = 'no_collect'
        if kind == 'log':
            args['log_msg'] = 'L'
        if kind == 'metric':
            metrics = [MetricDefinition('m', 'counter')]
        if kind == 'span':
            args['span'] = 'line'
        if condition:
            args['condition'] = condition
        return line_trigger(tp_id, base, line, args, [], metrics)
    config = dict(cfg)
    if kind == 'log':
        config['log_msg'] = 'L'
    if kind == 'metric':
        config['metrics'] = [MetricDefinition('m', 'counter')]
        if broken_tail:
            # a second definition the action cannot work through (its labels are a mapping, not a list): the hit has
            # acted for the first one all the same, and it counts
            config['metrics'].append(MetricDefinition('m_unusable', 'counter', {'k': 'v'}))
    if kind == 'span':
        config['span'] = 'line'
    return direct_trigger(tp_id, base, line, {'snapshot': 'Snapshot', 'log': 'Log', 'metric': 'Metric',
                                              'span': 'Span'}[kind], config, condition=condition)


def case_hist(seed, out, spec, wd):
    r = Rng('c04', seed)
    plugins.reset()
    kind = r.pick(['snapshot', 'snapshot', 'log', 'metric', 'span'])
    fc_raw = r.pick([-1, 0, 1, 1, 2, 3, 10, '2', '-1', 'abc', '1.5', '', 'absent', ' 3 ', -2, '-100'])
    fp_raw = r.pick([0, 1, 10, 1000, '10', 'abc', 'absent', '0'])
    via_wire = r.chance(0.35)
    if not via_wire and r.chance(0.08):
        # a setting that is not even text (given in code): as unparsable as 'abc'
        if r.chance(0.5):
            fc_raw = r.pick([None, [], (2,)])
        else:
            fp_raw = r.pick([None, [], {}])
        out.count('settings_that_are_not_text')
    win_kind = 'none' if via_wire else r.pick(['none', 'none', 'start', 'end', 'both'])
    cfg = {}
    if fc_raw != 'absent':
        cfg['fire_count'] = fc_raw
    if fp_raw != 'absent':
        cfg['fire_period'] = fp_raw
    fc = parse_int(fc_raw, 1) if fc_raw != 'absent' else 1
    fp = parse_int(fp_raw, 1000) if fp_raw != 'absent' else 1000
    if via_wire:
        fc = parse_int(str(fc_raw), 1) if fc_raw != 'absent' else 1
        fp = parse_int(str(fp_raw), 1000) if fp_raw != 'absent' else 1000
    nhits = r.randrange(2, 14)
    times = []
    t = T0 + r.randrange(0, 5) * MS
    boundary = 0
    for i in range(nhits):
        if i:
            step = r.pick(['zero', 'ns', 'under', 'exact', 'over', 'ms', 'big'])
            p = max(fp, 0) * MS
            d = {'zero': 0, 'ns': 1, 'under': max(p - 1, 0), 'exact': p, 'over': p + 1,
                 'ms': r.randrange(1, 50) * MS, 'big': r.randrange(1, 5) * 1000 * MS}[step]
            if step in ('under', 'exact', 'over') and p > 0:
                boundary += 1
            t += d
        times.append(t)
    window = (0, 0)
    if win_kind == 'start':
        window = (r.pick(times) + r.pick([-1, 0, 1]), 0)
    elif win_kind == 'end':
        window = (0, r.pick(times) + r.pick([-1, 0, 1]))
    elif win_kind == 'both':
        a, b = sorted([r.pick(times), r.pick(times)])
        window = (a + r.pick([0, 1]), b + r.pick([-1, 0]))
        if window[0] > window[1]:
            window = (a, b)
    if win_kind != 'none':
        cfg['window_start'], cfg['window_end'] = window
    path, mod, line = setup_host(wd, 'h')
    import os
    base = os.path.basename(path)
    use_cond = r.chance(0.3)
    flags = [r.chance(0.5) for _ in times] if use_cond else None
    broken_tail = kind == 'metric' and not via_wire and r.chance(0.4)
    if broken_tail:
        out.count('actions_failing_half_way')
    trig = build(kind, base, line, cfg, via_wire, condition='flag' if use_cond else None, broken_tail=broken_tail)
    rig = Rig(custom={}, host_dir=wd, plugins=[plugins.RecLogger(), plugins.RecMetrics(), plugins.RecSpans()])
    rig.install([trig])
    acted = []   # hit indexes at which the action acted
    hit_no = [-1]

    hit_of_event = {}

    def pre(ev, frame, arg):
        if ev.kind == 'line' and ev.line == line and ev.base == base:
            hit_no[0] += 1
            hit_of_event[ev.seq] = hit_no[0]

    def hook(name, callback, payload):
        if callback in ('log', 'metric', 'span_open'):
            acted.append(hit_no[0])

    rig.pre = pre
    plugins.HOOK[0] = hook

    def body():
        for i_, t_ in enumerate(times):
            clock.set_virtual(t_)
            mod.leaf(None, True if flags is None else flags[i_])

    try:
        _, exc = rig.run(body)
    finally:
        clock.set_virtual(None)
        plugins.HOOK[0] = None
    if kind == 'snapshot':
        # each delivery is tagged with the trace event during which it was handed over
        acted = [hit_of_event.get(rec.ev.seq, -1) if rec.ev is not None else -1 for rec in rig.push.pushed]
    rig.cleanup()
    reasons = ref_limiter(times, fc, fp, window, flags)
    replay = replay_spec(spec, seed)
    witness = {'condition_flags': flags, 'kind': kind, 'fire_count': fc_raw, 'fire_period': fp_raw, 'window': window, 'via_wire': via_wire,
               'times_ms_from_t0': [round((x - T0) / MS, 6) for x in times], 'acted_at_hits': acted,
               'reference': ['collect' if x is None else 'refuse:' + x for x in reasons],
               'agent_log': [short(x, 200) for x in rig.logs[-2:]]}
    if exc is not None:
        out.inconc('C04 host raised %r' % (exc,))
        return
    if hit_no[0] + 1 != len(times):
        out.inconc('C04 recorder saw %d hits for %d calls' % (hit_no[0] + 1, len(times)))
        return
    actual = set(acted)
    if len(acted) != len(actual):
        out.violation('ratelimit:collected-twice-on-one-hit', 'one hit produced two collections', witness, replay)
    for i, reason in enumerate(reasons):
        if reason == 'condition' and i in actual:
            out.violation('condition:collected-on-false', 'hit %d collected although its condition is false' % i,
                          witness, replay)
            break
        if reason is not None and i in actual:
            out.violation('ratelimit:exceeded-%s' % reason,
                          'hit %d collected although the %s limit forbids it (fire_count=%r fire_period=%r window=%r)' % (
                              i, reason, fc_raw, fp_raw, window), witness, replay)
            break
        if reason is None and i not in actual:
            out.violation('condition:rejected-hit-used-budget' if (flags and not all(flags[:i])) else
                          'ratelimit:due-hit-not-collected',
                          'hit %d is allowed by every limit but did not collect (fire_count=%r fire_period=%r)' % (
                              i, fc_raw, fp_raw), witness, replay)
            break
    if rig.escapes:
        out.violation('containment:escape', 'trace handler raised: %s' % rig.escapes[0][2][-300:], witness, replay)
    out.count('hits_checked', len(times))
    for x in reasons:
        if x is not None:
            out.count('refused_by_' + x)
    out.count('boundary_hits', boundary)
    out.case({'k': kind, 'fc': fc_raw, 'fp': fp_raw, 'w': win_kind, 'wire': via_wire, 'fl': flags,
              'dt': [b - a for a, b in zip(times, times[1:])], 'win': [window[0] - T0 if window[0] else 0,
                                                                      window[1] - T0 if window[1] else 0]},
             nontrivial=any(x is not None for x in reasons), sample={k: witness[k] for k in (
                 'kind', 'fire_count', 'fire_period', 'window', 'times_ms_from_t0', 'acted_at_hits', 'reference')})


def _hit_of(rec, times, already):
    """Which hit a snapshot belongs to: by its own timestamp (agent's reading of the clock), ties by order."""
    ts = rec.snapshot.ts_nanos
    cands = [i for i, t in enumerate(times) if t == ts and i not in already]
    if cands:
        return cands[0]
    cands = [i for i, t in enumerate(times) if t == ts]
    return cands[0] if cands else -1


class Gate:
    """Host local whose __str__ parks the collecting thread until every thread is refused or collecting."""

    def __init__(self, n, patience=0.5):
        self.n = n
        self.cv = threading.Condition()
        self.parked = 0
        self.finished = 0
        self.open = False
        self.patience = patience
        self.max_overlap = 0
        self.timed_out = False
        self._seen = threading.local()

    def __str__(self):
        if getattr(self._seen, 'done', False):
            return 'gate'
        self._seen.done = True
        with self.cv:
            self.parked += 1
            self.max_overlap = max(self.max_overlap, self.parked)
            self.cv.notify_all()
            end = time.monotonic() + self.patience
            while not self.open and self.parked + self.finished < self.n:
                left = end - time.monotonic()
                if left <= 0:
                    self.timed_out = True
                    break
                self.cv.wait(left)
            self.open = True
            self.cv.notify_all()
        return 'gate'

    __repr__ = __str__

    def done(self):
        with self.cv:
            self.finished += 1
            self.cv.notify_all()


def case_gate(seed, out, spec, wd):
    r = Rng('c04g', seed)
    plugins.reset()
    n = r.pick([2, 3, 4, 6, 8])
    kind = r.pick(['snapshot', 'snapshot', 'log'])
    fc = r.pick([1, 1, 2, 3])
    fp = r.pick([0, 1000, 100000])
    path, mod, line = setup_host(wd, 'g')
    import os
    base = os.path.basename(path)
    cfg = {'fire_count': fc, 'fire_period': fp}
    if kind == 'log':
        cfg['log_msg'] = 'gate {gate}'
        trig = direct_trigger('tp', base, line, 'Log', cfg)
    else:
        trig = direct_trigger('tp', base, line, 'Snapshot', cfg)
    rig = Rig(custom={}, host_dir=wd, plugins=[plugins.RecLogger()])
    rig.install([trig])
    gate = Gate(n)
    logs = []

    def hook(name, callback, payload):
        if callback == 'log':
            logs.append(1)

    plugins.HOOK[0] = hook
    clock.set_virtual(T0)

    def worker():
        try:
            mod.leaf(gate)
        finally:
            gate.done()

    def body():
        ts = [threading.Thread(target=worker) for _ in range(n)]
        for t in ts:
            t.start()
        for t in ts:
            t.join(30)
        return any(t.is_alive() for t in ts)

    try:
        hung, exc = rig.run(body)
    finally:
        clock.set_virtual(None)
        plugins.HOOK[0] = None
    collected = len(rig.push.pushed) if kind == 'snapshot' else len(logs)
    rig.cleanup()
    replay = replay_spec(spec, seed)
    witness = {'threads': n, 'kind': kind, 'fire_count': fc, 'fire_period': fp, 'collections': collected,
               'max_overlapping_collections': gate.max_overlap, 'gate_timed_out': gate.timed_out}
    if hung:
        out.inconc('C04 gated threads did not finish (watchdog)')
        return
    allowed = fc if fp == 0 else 1   # all hits share one timestamp: with a period only one may collect
    if collected > fc:
        out.violation('ratelimit:concurrent-count-exceeded',
                      '%d threads hit a fire_count=%d tracepoint together: %d collections' % (n, fc, collected),
                      witness, replay)
    elif collected > allowed:
        out.violation('ratelimit:concurrent-period-violated',
                      '%d collections at one instant with fire_period=%d ms' % (collected, fp), witness, replay)
    if collected == 0:
        out.violation('ratelimit:due-hit-not-collected', 'no thread collected although the limits allow %d' % allowed,
                      witness, replay)
    if rig.escapes:
        out.violation('containment:escape', 'trace handler raised: %s' % rig.escapes[0][2][-300:], witness, replay)
    out.count('gated_cases')
    out.count('hostile_schedules', 1 if (n > 1 and not gate.timed_out) else 0)
    out.count('overlapping_collections', 1 if gate.max_overlap > 1 else 0)
    out.distinct('gate_outcomes', [n, fc, fp, collected, gate.max_overlap])
    out.case({'n': n, 'k': kind, 'fc': fc, 'fp': fp}, nontrivial=True, sample=witness)


def case_stress(seed, out, spec, wd):
    r = Rng('c04s', seed)
    plugins.reset()
    n = r.pick([4, 8])
    fc = r.pick([1, 2, 5, -1, -1])   # (-1 with fire_period 0: every one of the hits is due, whatever the threads do)
    per_thread = 150
    path, mod, line = setup_host(wd, 's')
    import os
    base = os.path.basename(path)
    trig = direct_trigger('tp', base, line, 'Snapshot', {'fire_count': fc, 'fire_period': 0})
    rig = Rig(custom={}, host_dir=wd)
    rig.keep_events = False
    rig.install([trig])
    old = sys.getswitchinterval()
    sys.setswitchinterval(1e-6)
    payload = ['x' * 10 for _ in range(40)]

    def worker():
        for _ in range(per_thread):
            mod.leaf(payload)

    def body():
        ts = [threading.Thread(target=worker) for _ in range(n)]
        for t in ts:
            t.start()
        for t in ts:
            t.join(60)
        return any(t.is_alive() for t in ts)

    try:
        hung, exc = rig.run(body)
    finally:
        sys.setswitchinterval(old)
    collected = len(rig.push.pushed)
    rig.cleanup()
    witness = {'threads': n, 'hits': n * per_thread, 'fire_count': fc, 'collections': collected}
    if hung:
        out.inconc('C04 stress threads did not finish')
        return
    if fc == -1:
        out.count('stress_hits_on_an_unlimited_tracepoint', n * per_thread)
        if collected != n * per_thread:
            out.violation('ratelimit:due-hit-not-collected', 'free-running: %d threads hit an unlimited tracepoint '
                          '(fire_count=-1, fire_period=0) %d times, %d hits collected' % (n, n * per_thread, collected),
                          witness, replay_spec(spec, seed))
    elif collected > fc:
        out.violation('ratelimit:concurrent-count-exceeded', 'free-running: %d collections for fire_count=%d' % (
            collected, fc), witness, replay_spec(spec, seed))
    out.count('stress_hits', n * per_thread)
    out.case({'stress': seed, 'n': n, 'fc': fc}, nontrivial=True, sample=witness)


class HoldGate:
    """Host local whose __str__ keeps the collection open until the monitor releases it."""

    def __init__(self, hold):
        self.hold = hold
        self.parked = threading.Event()
        self.release = threading.Event()
        self.timed_out = False
        self._seen = False
        self.cond = True

    def _park_once(self):
        if self.hold and not self._seen:
            self._seen = True
            self.parked.set()
            if not self.release.wait(4):
                self.timed_out = True

    def __str__(self):
        self._park_once()
        return 'hold'

    __repr__ = __str__

    def check(self):
        """Used as the tracepoint's condition: the hit is parked while its condition is being evaluated."""
        self._park_once()
        return self.cond


def case_overlap(seed, out, spec, wd):
    """Collections of earlier hits are still open while later hits (at later clock values) reach the tracepoint."""
    r = Rng('c04o', seed)
    plugins.reset()
    import os
    path, mod, line = setup_host(wd, 'o')
    base = os.path.basename(path)
    fc = r.pick([-1, -1, 2, 3, 5])
    fp = r.pick([0, 1000, 1000, 100])
    kind = r.pick(['snapshot', 'snapshot', 'log'])
    cfg = {'fire_count': fc, 'fire_period': fp}
    # some tracepoints carry a condition, and a hit can be parked while its condition is evaluated (then rejected)
    use_cond = r.chance(0.4)
    condition = 'gate.check()' if use_cond else None
    if kind == 'log':
        cfg['log_msg'] = 'o {gate}'
        trig = direct_trigger('tp', base, line, 'Log', cfg, condition=condition)
    else:
        trig = direct_trigger('tp', base, line, 'Snapshot', cfg, condition=condition)
    rig = Rig(custom={}, host_dir=wd, plugins=[plugins.RecLogger()])
    rig.install([trig])
    n = r.randrange(3, 7)
    steps = []
    t = 0
    for i in range(n):
        if i:
            t += r.pick([0, 1, fp // 10 if fp else 5, fp - 1 if fp else 3, fp, fp + 1, fp * 3 // 2 + 7, fp * 2 + 100,
                         -3, -1])
            # (a small step backwards: a thread whose event began a little earlier reaches the limiter a little later)
        steps.append({'t_ms': max(t, 0), 'hold': r.chance(0.5), 'release_after': None,
                      'condition_true': (not use_cond) or r.chance(0.5)})
    for i, st in enumerate(steps):
        if st['hold']:
            st['release_after'] = r.randrange(i, n) if r.chance(0.7) else n - 1
    directed = use_cond and r.chance(0.4)
    if directed:
        # a hit that its condition is about to reject is parked inside the evaluation of that condition while a hit of
        # another thread, whose condition holds, reaches the tracepoint: the rejected hit uses no budget, in whatever
        # order the two are thought to happen, so the second one collects
        n = 2
        steps = [{'t_ms': 0, 'hold': True, 'release_after': 1, 'condition_true': False},
                 {'t_ms': r.pick([0, 1, 3]), 'hold': False, 'release_after': None, 'condition_true': True}]
    gates = [HoldGate(st['hold']) for st in steps]
    for g, st in zip(gates, steps):
        g.cond = st['condition_true']
    probe_n = r.randrange(1, 4)
    before_probe = [None]
    go = [threading.Event() for _ in steps]
    done = [threading.Event() for _ in steps]
    logged_at = []

    def hook(name, callback, payload):
        if callback == 'log':
            logged_at.append(clock.time_ns())

    plugins.HOOK[0] = hook

    def worker(i):
        go[i].wait(30)
        try:
            mod.leaf(gates[i], True)
        finally:
            done[i].set()

    stuck = []

    def body():
        ths = [threading.Thread(target=worker, args=(i,)) for i in range(n)]
        for th in ths:
            th.start()
        for i, st in enumerate(steps):
            clock.set_virtual(T0 + st['t_ms'] * MS)
            go[i].set()
            # settle: the thread finished its hit, or is parked inside its collection
            end = time.monotonic() + 3
            while not done[i].is_set() and not gates[i].parked.is_set() and time.monotonic() < end:
                time.sleep(0.001)
            if not done[i].is_set() and not gates[i].parked.is_set():
                stuck.append(i)   # e.g. an implementation that serialises collections: only upper bounds are judged
            for j, sj in enumerate(steps[:i + 1]):
                if sj['hold'] and sj['release_after'] == i:
                    gates[j].release.set()
                    done[j].wait(5)
        for g in gates:
            g.release.set()
        for th in ths:
            th.join(20)
        if any(th.is_alive() for th in ths):
            return True
        # everything has settled: whatever budget is left must be usable by later, well separated, sequential hits
        before_probe[0] = len(rig.push.pushed) if kind == 'snapshot' else len(logged_at)
        t_end = max(st['t_ms'] for st in steps)
        for j in range(probe_n):
            clock.set_virtual(T0 + (t_end + (j + 1) * (2 * fp + 1000)) * MS)
            mod.leaf(HoldGate(False), True)
        return False

    try:
        hung, exc = rig.run(body)
    finally:
        clock.set_virtual(None)
        plugins.HOOK[0] = None
    if kind == 'snapshot':
        got_ts = sorted(rec.snapshot.ts_nanos for rec in rig.push.pushed)
    else:
        got_ts = sorted(logged_at)
    rig.cleanup()
    replay = replay_spec(spec, seed)
    witness = {'fire_count': fc, 'fire_period_ms': fp, 'kind': kind, 'steps': steps,
               'collections_at_ms': [round((x - T0) / MS, 3) for x in got_ts], 'threads_that_blocked': stuck}
    if hung:
        out.inconc('C04 overlap threads did not finish')
        return
    n_true = sum(1 for st in steps if st['condition_true'])
    witness['conditional'] = use_cond
    witness['sequential_hits_afterwards'] = probe_n
    if before_probe[0] is not None and not stuck:
        got_probe = len(got_ts) - before_probe[0]
        want_probe = probe_n if fc == -1 else max(0, min(probe_n, fc - before_probe[0]))
        if got_probe < want_probe:
            out.violation('ratelimit:due-hit-not-collected',
                          'after all overlapping hits had finished (%d collected, fire_count=%d) %d later sequential hits '
                          '(each more than fire_period apart) produced %d collections instead of %d: a finished or '
                          'rejected hit still counts' % (before_probe[0], fc, probe_n, got_probe, want_probe),
                          witness, replay)
        out.count('sequential_probe_hits', probe_n)
        got_ts_all, got_ts = got_ts, got_ts[:before_probe[0]]
    if use_cond:
        out.count('overlap_cases_with_condition')
    if directed and not stuck and before_probe[0] is not None:
        out.count('true_hits_while_a_false_condition_was_being_evaluated')
        if before_probe[0] < 1:
            out.violation('ratelimit:due-hit-not-collected',
                          'a hit whose condition holds (fire_count=%d, fire_period=%d ms, nothing collected before) was '
                          'refused because a hit of another thread was still having its condition evaluated - a '
                          'condition that then rejected it' % (fc, fp), witness, replay)
    if fc != -1 and len(got_ts) > fc:
        out.violation('ratelimit:concurrent-count-exceeded', '%d collections with fire_count=%d while earlier '
                                                             'collections were still open' % (len(got_ts), fc),
                      witness, replay)
    for a, b in zip(got_ts, got_ts[1:]):
        if (b - a) < fp * MS:
            out.violation('ratelimit:concurrent-period-violated',
                          'collections %.3f ms apart with fire_period=%d ms (an earlier collection was still open)' % (
                              (b - a) / MS, fp), witness, replay)
            break
    if not got_ts and not use_cond:
        out.violation('ratelimit:due-hit-not-collected', 'no hit collected although the first one is within every limit',
                      witness, replay)
    elif fc == -1 and fp == 0 and len(got_ts) != n_true and not stuck:
        out.violation('ratelimit:due-hit-not-collected', 'unlimited tracepoint (fire_count=-1, fire_period=0): %d of %d '
                                                         'hits whose condition holds were collected' % (
                                                             len(got_ts), n_true), witness, replay)
    open_overlaps = sum(1 for i, st in enumerate(steps) if st['hold'] and st['release_after'] is not None and
                        st['release_after'] > i)
    out.count('overlap_cases')
    out.count('hits_while_collection_open', open_overlaps)
    out.case({'fc': fc, 'fp': fp, 'k': kind, 'steps': steps}, nontrivial=open_overlaps > 0, sample=witness)


def case_interpose(seed, out, spec, wd):
    """Pre-emption points between the limiter's steps: after every call thread A makes on the action object (all of
    its public methods are interposed from outside), a second thread performs a complete hit. Every point is tried."""
    r = Rng('c04i', seed)
    import os
    path, mod, line = setup_host(wd, 'i')
    base = os.path.basename(path)
    fc = r.pick([1, 1, 2])
    fp = r.pick([0, 1000])
    kind = r.pick(['snapshot', 'log'])
    cond = r.pick([None, None, 'flag'])
    points = 0
    k = 0
    while k < 40:
        plugins.reset()
        cfg = {'fire_count': fc, 'fire_period': fp}
        if kind == 'log':
            cfg['log_msg'] = 'i'
        trig = direct_trigger('tp', base, line, 'Log' if kind == 'log' else 'Snapshot', cfg, condition=cond)
        rig = Rig(custom={}, host_dir=wd, plugins=[plugins.RecLogger()])
        rig.install([trig])
        action = trig.actions[0]
        a_tid = [None]
        calls = [0]
        go_b, b_done = threading.Event(), threading.Event()
        fired = [False]
        names = []

        def wrap(name, fn):
            def inner(*a, **kw):
                res = fn(*a, **kw)
                if threading.get_ident() == a_tid[0] and name != 'with_location':
                    n = calls[0]
                    calls[0] = n + 1
                    names.append(name)
                    if n == k and not fired[0]:
                        fired[0] = True
                        go_b.set()
                        b_done.wait(2)     # B finishes its whole hit here (or is blocked by A: then we go on)
                return res
            return inner

        for name in dir(action):
            if name.startswith('_'):
                continue
            try:
                attr = getattr(action, name)
            except BaseException:  # noqa
                continue
            if callable(attr) and not isinstance(attr, type):
                try:
                    setattr(action, name, wrap(name, attr))
                except BaseException:  # noqa
                    pass
        logs = []
        plugins.HOOK[0] = lambda nm, cb, payload: logs.append(1) if cb == 'log' else None
        clock.set_virtual(T0)

        def thread_a():
            a_tid[0] = threading.get_ident()
            mod.leaf(None, True)
            go_b.set()

        def thread_b():
            go_b.wait(10)
            try:
                mod.leaf(None, True)
            finally:
                b_done.set()

        def body():
            ta, tb = threading.Thread(target=thread_a), threading.Thread(target=thread_b)
            tb.start()
            ta.start()
            ta.join(20)
            tb.join(20)
            return ta.is_alive() or tb.is_alive()

        try:
            hung, exc = rig.run(body)
        finally:
            clock.set_virtual(None)
            plugins.HOOK[0] = None
        collected = len(rig.push.pushed) if kind == 'snapshot' else len(logs)
        rig.cleanup()
        if hung:
            out.inconc('C04 interpose threads did not finish')
            return
        allowed = fc if fp == 0 else 1
        witness = {'fire_count': fc, 'fire_period': fp, 'kind': kind, 'condition': cond,
                   'second_hit_after_call': '%d (%s)' % (k, names[k] if k < len(names) else '-'),
                   'calls_on_action_by_first_thread': names, 'collections': collected}
        if fired[0]:
            points += 1
            if collected > allowed:
                mech = 'ratelimit:concurrent-count-exceeded' if collected > fc else 'ratelimit:concurrent-period-violated'
                out.violation(mech, 'a second thread hit the tracepoint right after the first thread\'s %s(): %d '
                                    'collections, the limits allow %d' % (names[k] if k < len(names) else '?',
                                                                          collected, allowed), witness,
                              replay_spec(spec, seed))
                break
            if collected == 0:
                out.violation('ratelimit:due-hit-not-collected', 'two hits, none collected', witness, replay_spec(spec, seed))
                break
        if k >= calls[0]:
            break
        k += 1
    out.count('interpose_points', points)
    out.case({'fc': fc, 'fp': fp, 'k': kind, 'c': cond}, nontrivial=points > 0,
             sample={'fire_count': fc, 'fire_period': fp, 'kind': kind, 'condition': cond,
                     'preemption_points_tried': points})




def case_argwindow(seed, out, spec, wd):
    """The time window given the way every other setting is given: as tracepoint arguments (service or
    register_tracepoint). The window chosen lies wholly in the past, or wholly in the future, whatever unit the values
    are read in - so no hit may act."""
    import os
    r = Rng('c04w', seed)
    plugins.reset()
    path, mod, line = setup_host(wd, 'w')
    base = os.path.basename(path)
    kind = r.pick(['snapshot', 'log', 'metric', 'span'])
    which = r.pick(['ended_long_ago', 'starts_in_far_future'])
    cfg = {'fire_count': '-1', 'fire_period': '0'}
    if which == 'ended_long_ago':
        cfg['window_end'] = '1'
        if r.chance(0.5):
            cfg['window_start'] = '0'
    else:
        cfg['window_start'] = str(10 ** 22)
    from deep.api.tracepoint.tracepoint_config import MetricDefinition
    args = dict(cfg)
    metrics = []
    if kind != 'snapshot':
        args['snapshot'] = 'no_collect'
    if kind == 'log':
        args['log_msg'] = 'W'
    if kind == 'metric':
        metrics = [MetricDefinition('m', 'counter')]
    if kind == 'span':
        args['span'] = 'line'
    trig = line_trigger('tp', base, line, args, [], metrics)
    rig = Rig(custom={}, host_dir=wd, plugins=[plugins.RecLogger(), plugins.RecMetrics(), plugins.RecSpans()])
    rig.install([trig] if trig is not None else [])
    acted = []

    def hook(name, callback, payload):
        if callback in ('log', 'metric', 'span_open'):
            acted.append(callback)

    plugins.HOOK[0] = hook
    nhits = r.randrange(1, 5)

    def body():
        for i in range(nhits):
            clock.set_virtual(T0 + i * 2000 * MS)
            mod.leaf(None, True)

    try:
        _, exc = rig.run(body)
    finally:
        clock.set_virtual(None)
        plugins.HOOK[0] = None
    n_acted = len(acted) + len(rig.push.pushed)
    rig.cleanup()
    replay = replay_spec(spec, seed)
    witness = {'kind': kind, 'arguments': cfg, 'hits': nhits, 'actions_seen': n_acted}
    if exc is not None or rig.escapes:
        out.violation('containment:escape', 'host outcome %r / %s' % (exc, rig.escapes[:1]), witness, replay)
    elif n_acted:
        out.violation('window:arguments-not-enforced',
                      'a %s tracepoint whose arguments give a window that %s acted %d time(s) in %d hits' % (
                          kind, 'ended long ago' if which == 'ended_long_ago' else 'starts in the far future',
                          n_acted, nhits), witness, replay)
    out.count('window_argument_cases')
    out.case({'argwindow': which, 'kind': kind, 'n': nhits}, nontrivial=True, sample=witness)


def case_straggler(seed, out, spec, wd):
    """A hit whose time stamp lies *between* two collections that have already been recorded (its thread took the time
    stamp, was held up, and reaches the limiter after later hits were collected): its distance to the nearest collection
    decides, not its distance to the latest one."""
    import os
    r = Rng('c04z', seed)
    plugins.reset()
    path, mod, line = setup_host(wd, 'z')
    base = os.path.basename(path)
    fp = r.pick([100, 1000, 50])
    kind = r.pick(['snapshot', 'log'])
    cfg = {'fire_count': -1, 'fire_period': fp}
    if kind == 'log':
        cfg['log_msg'] = 'z'
    trig = direct_trigger('tp', base, line, 'Log' if kind == 'log' else 'Snapshot', cfg)
    rig = Rig(custom={}, host_dir=wd, plugins=[plugins.RecLogger()])
    rig.install([trig])
    first = r.randrange(1, 50)
    second = first + fp + r.randrange(0, 3 * fp)
    late = first + r.randrange(1, fp)            # closer than one period to the first collection
    order = [first, second, late]
    logged_at = []

    def hook(name, callback, payload):
        if callback == 'log':
            logged_at.append(clock.time_ns())

    plugins.HOOK[0] = hook

    def body():
        for t_ms in order:
            clock.set_virtual(T0 + t_ms * MS)
            mod.leaf(None, True)

    try:
        _, exc = rig.run(body)
    finally:
        clock.set_virtual(None)
        plugins.HOOK[0] = None
    got = sorted(rec.snapshot.ts_nanos for rec in rig.push.pushed) if kind == 'snapshot' else sorted(logged_at)
    rig.cleanup()
    replay = replay_spec(spec, seed)
    witness = {'fire_period_ms': fp, 'hits_reach_the_limiter_in_this_order_ms': order,
               'collections_at_ms': [round((x - T0) / MS, 3) for x in got]}
    gaps = [b - a for a, b in zip(got, got[1:])]
    if exc is not None or rig.escapes:
        out.violation('containment:escape', 'host outcome %r / %s' % (exc, rig.escapes[:1]), witness, replay)
    elif any(g < fp * MS for g in gaps):
        out.violation('ratelimit:period-violated-by-straggler',
                      'collections %s ms with fire_period=%d: the hit stamped %d ms reached the limiter after the one '
                      'stamped %d ms had been collected and was only compared with that one' % (
                          witness['collections_at_ms'], fp, late, second), witness, replay)
    elif len(got) < 2:
        out.violation('ratelimit:due-hit-not-collected', 'the two hits more than a period apart were not both collected: %s' % (
            witness['collections_at_ms'],), witness, replay)
    out.count('straggler_cases')
    out.case({'straggler': order, 'fp': fp, 'kind': kind}, nontrivial=True, sample=witness)


def case_twotp(seed, out, spec, wd):
    """Two tracepoints on neighbouring lines. One thread is held inside the collection of the first; a second thread
    is refused there (rightly: the first hit is still open) and goes on to the second tracepoint, whose own budget is
    untouched: it acts for that thread, whatever the first tracepoint is doing."""
    import os
    r = Rng('c04t', seed)
    plugins.reset()
    path, mod, line = setup_host(wd, 't')
    base = os.path.basename(path)
    a_cfg = {'fire_count': r.pick([1, 2]), 'fire_period': r.pick([0, 1000])}
    b_cfg = {'fire_count': r.pick([1, 1, 3]), 'fire_period': r.pick([1000, 0]), 'log_msg': 'second tracepoint'}
    trig_a = direct_trigger('A', base, line, 'Snapshot', a_cfg)
    trig_b = direct_trigger('B', base, line + 1, 'Log', b_cfg)
    rig = Rig(custom={}, host_dir=wd, plugins=[plugins.RecLogger()])
    rig.install([trig_a, trig_b])
    gate = HoldGate(True)
    logs = []

    def hook(name, callback, payload):
        if callback == 'log':
            logs.append(threading.current_thread().name)

    plugins.HOOK[0] = hook
    seen = {}

    def body():
        clock.set_virtual(T0)
        t1 = threading.Thread(target=mod.leaf, args=(gate, True), name='held-in-first')
        t1.start()
        if not gate.parked.wait(5):
            gate.release.set()
            t1.join(10)
            return 'not-parked'
        clock.set_virtual(T0 + r.pick([0, 1, 5]) * MS)
        t2 = threading.Thread(target=mod.leaf, args=(HoldGate(False), True), name='passes-by')
        t2.start()
        t2.join(10)
        seen['while_first_is_open'] = list(logs)
        gate.release.set()
        t1.join(10)
        return 'ok' if not (t1.is_alive() or t2.is_alive()) else 'hung'

    try:
        res, exc = rig.run(body)
    finally:
        clock.set_virtual(None)
        plugins.HOOK[0] = None
    rig.cleanup()
    replay = replay_spec(spec, seed)
    witness = {'first_tracepoint': a_cfg, 'second_tracepoint': b_cfg, 'second_tracepoint_acted_for': list(logs),
               'acted_while_first_was_open': seen.get('while_first_is_open')}
    if res != 'ok' or exc is not None:
        out.inconc('C04 two-tracepoint schedule did not run as planned (%r, %r)' % (res, exc))
        return
    if 'passes-by' not in (seen.get('while_first_is_open') or []):
        out.violation('ratelimit:due-hit-not-collected',
                      'the second tracepoint (own budget untouched: %s) did not act for a thread that reached it while '
                      'another thread was inside the collection of the first tracepoint' % (b_cfg,), witness, replay)
    if len(logs) > (b_cfg['fire_count']):
        out.violation('ratelimit:exceeded-count', 'second tracepoint acted %d times with fire_count=%d' % (
            len(logs), b_cfg['fire_count']), witness, replay)
    out.count('two_tracepoint_cases')
    out.case({'twotp': [a_cfg, b_cfg]}, nontrivial=True, sample=witness)


def case_linepreempt(seed, out, spec, wd):
    """Pre-emption inside the limiter itself: thread A asks the action whether its hit may collect; at its k-th line
    inside deep/api/tracepoint (every k is tried, sys.monitoring LINE events) a second thread performs a complete hit
    (ask, then record). Both use the action exactly as the agent's action context does: can_trigger(ts), then
    record_triggered(ts) or release(ts). However the two interleave, the limits hold, and a budget that is left can
    be used afterwards."""
    import os
    from vf import inject
    r = Rng('c04l', seed)
    fc = r.pick([1, 1, 2])
    fp = r.pick([0, 0, 1000])
    a_outcome = r.pick(['record', 'record', 'release'])
    target = os.path.join('deep', 'api', 'tracepoint')
    points = 0
    k = 0
    overlapped = 0
    while k < 60:
        trig = direct_trigger('tp', 'x.py', 1, 'Snapshot', {'fire_count': fc, 'fire_period': fp})
        action = trig.actions[0]
        ts_a, ts_b = T0, T0 + r.pick([0, 1, 5 * MS])
        a_tid = [None]
        count = [0]
        go_b, b_done = threading.Event(), threading.Event()
        res = {}
        hit_point = [False]

        def on_line(code, line):
            if threading.get_ident() != a_tid[0] or hit_point[0]:
                return None
            n = count[0]
            count[0] = n + 1
            if n == k:
                hit_point[0] = True
                go_b.set()
                b_done.wait(0.08)    # B finishes its hit here - or is blocked by a lock A holds: then A goes on
                res['b_completed_inside'] = b_done.is_set()
            return None

        def thread_a():
            a_tid[0] = threading.get_ident()
            res['a'] = action.can_trigger(ts_a)
            a_tid[0] = None
            if res['a']:
                (action.record_triggered if a_outcome == 'record' else action.release)(ts_a)

        def thread_b():
            if not go_b.wait(3):
                return
            res['b'] = action.can_trigger(ts_b)
            if res['b']:
                action.record_triggered(ts_b)
            b_done.set()

        with inject.LineInjector(lambda f: target in f, on_line):
            tb = threading.Thread(target=thread_b)
            ta = threading.Thread(target=thread_a)
            tb.start()
            ta.start()
            ta.join(10)
            go_b.set()
            tb.join(10)
        if ta.is_alive() or tb.is_alive():
            out.inconc('C04 line pre-emption threads did not finish')
            return
        if not hit_point[0]:
            break            # A's hit has fewer than k+1 lines: every point has been tried
        points += 1
        granted = int(bool(res.get('a'))) + int(bool(res.get('b')))
        collected = int(bool(res.get('a')) and a_outcome == 'record') + int(bool(res.get('b')))
        if res.get('b_completed_inside'):
            overlapped += 1
        replay = replay_spec(spec, seed)
        witness = {'fire_count': fc, 'fire_period_ms': fp, 'first_thread_preempted_at_its_line_event': k,
                   'first_thread': {'asked_at_ms': 0, 'granted': res.get('a'), 'then': a_outcome},
                   'second_thread': {'asked_at_ms': (ts_b - T0) / MS, 'granted': res.get('b')}}
        # (a first hit that gives its claim back - condition not met - does not count: the second may then be allowed)
        if a_outcome == 'release':
            granted = int(bool(res.get('b')))
        if granted > fc:
            out.violation('ratelimit:concurrent-count-exceeded', '%d hits were allowed to collect at once with fire_count=%d '
                                                                 '(second thread ran while the first was at line event %d '
                                                                 'of its limit check)' % (granted, fc, k), witness, replay)
            return
        if fp and granted > 1:
            out.violation('ratelimit:concurrent-period-violated', 'two hits %s ms apart were both allowed with '
                                                                  'fire_period=%d' % ((ts_b - T0) / MS, fp), witness, replay)
            return
        # afterwards: what is left of the budget can be used by a later hit, and no more than that
        later = T0 + 10 * (fp + 1000) * MS
        extra = 0
        for j in range(fc + 1):
            if action.can_trigger(later + j * (fp + 1000) * MS):
                action.record_triggered(later + j * (fp + 1000) * MS)
                extra += 1
        if collected + extra != fc:
            mech = 'ratelimit:due-hit-not-collected' if collected + extra < fc else 'ratelimit:exceeded-count'
            out.violation(mech, 'after the two overlapping hits (%d collected) %d later hits were allowed: %d in total with '
                                'fire_count=%d' % (collected, extra, collected + extra, fc), witness, replay)
            return
        k += 1
    out.count('line_preemption_points', points)
    out.count('line_preemptions_where_second_hit_completed', overlapped)
    out.case({'fc': fc, 'fp': fp, 'a': a_outcome, 'seed': str(seed)}, nontrivial=points > 0,
             sample={'fire_count': fc, 'fire_period_ms': fp, 'preemption_points_tried': points,
                     'second_hit_completed_inside': overlapped})


CASES = {'hist': case_hist, 'gate': case_gate, 'stress': case_stress, 'overlap': case_overlap,
         'interpose': case_interpose, 'linepreempt': case_linepreempt, 'argwindow': case_argwindow, 'straggler': case_straggler, 'twotp': case_twotp}


def run_shard(spec, out):
    wd = Workdir('c04')
    try:
        for seed in spec_seeds(spec):
            CASES[spec['kind']](seed, out, spec, wd.path)
    finally:
        wd.close()
