"""C10 Conditions and expressions: gate firing, frame scope, errors contained.

Monitor: at every hit the recorder evaluates the condition itself in the paused frame (eval with the frame's globals
and locals) and feeds the truth into the reference limiter of C04; collections must be exactly the hits that are
due AND true, so a rejected hit may not use budget. Watch / log-field / metric expression results are compared with
the recorder's own evaluation (names from locals, host-module globals, builtins, closure cells; agent-module names
must be invisible), and a failing expression may only affect its own result.
"""
import os
import threading

from vf import clock, plugins, hostframe, snapcheck
from vf.props.c02 import compare_watch
from vf.rig import Rig, line_trigger, direct_trigger
from vf.snaprig import Workdir
from vf.util import Rng, split_seeds, spec_seeds, replay_spec, short

ID = 'C10'
LEVEL = 'exploration'
TECHNIQUE = 'runtime monitor: recorder-side evaluation of every condition/expression in the paused frame + reference limiter'
RULE = ('repeated hits (3-12 per case, varying locals) of a tracepoint placed in a function, a method, a nested '
        'function with closure cells or at module level; conditions boolean-valued or failing (incl. BaseException '
        'and error texts that read like "true"), fire_count 1/2/3/-1; watches, log fields and metric expressions over '
        'locals, host-module globals, builtins, closure cells and agent-module names, some padded with blanks / tabs; a metric '
        'riding on a conditional collecting tracepoint; non-trivial = a hit was rejected '
        'by its condition and a later one was due, or an expression named a non-local; distinct by canonical case')
ASSUMPTIONS = ['conditions are boolean-valued or failing; expressions are side-effect free',
               'an error result may be carried either in the error field or as a result typed as the exception']
RULE += '; a condition whose value cannot be turned into text'
REQUIRE = {'neighbour_with_own_condition': 100, 'hits_checked': 3000, 'rejected_then_due': 150, 'failing_conditions': 100, 'global_scope_exprs': 150,
           'agent_name_exprs': 50, 'module_level_cases': 20, 'closure_cases': 20,
           'padded_expression_cases': 80}
T0 = 1_700_000_000_000_000_000
MS = 1_000_000

HOST = '''"""c10 host"""
GLOBAL_LIMIT = 3
NAMES = ["ann", "bob", "cy"]
v = -100            # shadowed by the parameter v of the functions below
name = "module-level-name"
flag = "module-level-flag"
format = "csv"       # module-level names that happen to be names of builtins as well
filter = ["active"]
id = 77
MOD_MARK = GLOBAL_LIMIT + 1  # @hit_mod


def helper(v):
    return v > 1


def fail_with(msg):
    raise ValueError(msg)


def raise_base():
    raise KeyboardInterrupt("kb")


class NoText:
    """Evaluates fine, cannot be turned into text: as a condition it is not met (and nothing else is affected)."""

    def __str__(self):
        raise RuntimeError("no text form")

    __repr__ = __str__


class Obj:
    def __init__(self, ok):
        self.ok = ok
        self.silent = NoText()
        self.tags = ["t", ok]
        self.problem = KeyError("kept for later", ok)


def make(base):
    captured = base * 2

    def inner(v, flag, name, obj):
        use = captured + 0
        marker = 0  # @hit_inner
        return marker

    return inner


def leaf(v, flag, name, obj):
    marker = 0  # @hit
    return marker


class K:
    scale = 10

    def meth(self, v, flag, name, obj):
        marker = 0  # @hit_m
        return marker
'''

CONDS_FN = ['"yes"[1:2]', '""', '","', 'name[5:]',    # text that is not one of the words for yes: the condition is not met
            'any(len(n_) == len(name) for n_ in NAMES)', '(lambda k: k + v)(1) > 2', 'sum(1 for _ in range(v)) > 1',
            'v > 2', 'flag', 'not flag', 'v % 2 == 0', 'GLOBAL_LIMIT < v', 'helper(v)', 'obj.ok', 'len(name) == 3',
            'name in NAMES', 'True', 'False', '', '   ', 'v / 0 > 1', 'undefined_zz > 1', 'raise_base()',
            'fail_with("1")', 'fail_with("true")', 'fail_with("boom")', 'obj.missing', 'v == 1 or flag',
            'isinstance(v, int) and v >= GLOBAL_LIMIT', 'all([flag, obj.ok])', 'uuid is not None',
            '10 / v > 2', 'NAMES[v] == "ann"', 'name[2] == "n"', 'NAMES[v + 1] != "zz"', 'int(name) > 0 or True',
            '[0, 1][v] == 1', 'v > 0 and NAMES[v - 1] == "ann"',
            'FrameCollector is not None', 'bool(v)', 'v in (1, 3, 5)',
            'format == "csv"', 'format != "csv"', 'id > 70 + v', 'len(filter) == v',
            '(lambda: GLOBAL_LIMIT)() < v', 'any(x == GLOBAL_LIMIT for x in (v, 1))',
            # a name bound inside one expression is that expression's own: the next one sees the frame again
            '(v := v + 100) > 102', '(name := "ann") in NAMES',
            # a condition whose value has no text form: not met, and the tracepoints next to it are judged on their own
            'obj.silent', 'obj.silent']
CONDS_MOD = ['GLOBAL_LIMIT == 3', 'GLOBAL_LIMIT > 5', 'helper is not None', 'len(NAMES) == 3', 'nope_zz', '',
             'uuid is not None', '"MOD_MARK" in dir()', 'format == "csv"', 'id < 5']
EXPRS = ['ValueError("kept", v)', 'obj.problem',      # expressions whose *value* is an exception object (nothing is raised)
         'sum(x * v for x in [1, 2, 3])', '(lambda: name.upper())()', 'sorted(n_ + name for n_ in NAMES)',
         'v', 'name', 'v + 1', 'GLOBAL_LIMIT', 'NAMES', 'helper(v)', 'len(NAMES)', 'NAMES[0] + name', 'obj.ok',
         'obj.tags', 'sorted(NAMES)', 'max(v, GLOBAL_LIMIT)', 'uuid', 'FrameCollector', 'time_ns', 'deep',
         'undefined_zz', '1/0', 'fail_with("x")', 'raise_base()', 'str(flag)', '[v, GLOBAL_LIMIT]', 'abs(-v)',
         'format', 'id + v', 'filter', 'format.upper() + name',
         # a module global that is read only inside a nested scope of the expression
         '(v := v * 1000)', '(brand_new := v + 1)', 'brand_new',
         'sum(x * GLOBAL_LIMIT for x in [1, 2, v])', '(lambda k: k + GLOBAL_LIMIT)(v)', '[helper(x) for x in (v, 0)]']
EXPRS_INNER = ['captured', 'captured + v', 'use']
EXPRS_METH = ['self.scale', 'self.scale * v', 'K.scale']
AGENT_NAMES = ('uuid', 'FrameCollector', 'time_ns', 'deep')
NONLOCAL = ('format', 'filter', 'GLOBAL_LIMIT', 'NAMES', 'helper', 'fail_with', 'raise_base', 'sorted', 'max', 'len', 'abs', 'K.')


def plan(tier, seed):
    n = {'quick': 960, 'thorough': 14400}[tier]
    return split_seeds('x%s' % seed, n, 16, 'cond')


def rec_eval(expr, frame):
    try:
        return snapcheck.eval_in_frame(expr, frame), None
    except BaseException as e:  # noqa
        return None, e


def case_cond(seed, out, spec, wd):
    from deep.api.tracepoint.tracepoint_config import MetricDefinition
    r = Rng('c10', seed)
    plugins.reset()
    place = r.pick(['func', 'func', 'method', 'inner', 'module'])
    path = os.path.join(wd, 'c10host_%s.py' % str(seed).replace(':', '_'))
    with open(path, 'w') as f:
        f.write(HOST)
    base = os.path.basename(path)
    marks = hostframe.markers(path)
    line = marks[{'func': 'hit', 'method': 'hit_m', 'inner': 'hit_inner', 'module': 'hit_mod'}[place]]
    cond = r.pick(CONDS_MOD if place == 'module' else CONDS_FN)
    fc = r.pick([1, 1, 2, 3, -1])
    kind = r.pick(['snapshot', 'snapshot', 'log', 'metric'])
    pool = list(EXPRS if place != 'module' else ['GLOBAL_LIMIT', 'NAMES', 'len(NAMES)', 'uuid', 'nope_zz', 'helper(2)'])
    if place == 'inner':
        pool += EXPRS_INNER * 3
    if place == 'method':
        pool += EXPRS_METH * 3
    exprs = [r.pick(pool) for _ in range(r.randrange(0, 5))]
    if r.chance(0.2):
        # as typed into a form: blanks or a tab around the expression text (python's eval does not mind them)
        pad = lambda t: r.pick([' ', '  ', '\t', '']) + t + r.pick([' ', '\t', ''])  # noqa
        exprs = [pad(e) for e in exprs]
        if cond != '':
            cond = pad(cond)
        out.count('padded_expression_cases')
    args = {'fire_count': str(fc), 'fire_period': '0'}
    if cond != '' or r.chance(0.5):
        args['condition'] = cond
    metrics = []
    if kind == 'snapshot':
        watches = exprs
    else:
        watches = []
        args['snapshot'] = 'no_collect'
        if kind == 'log':
            # (a ':' inside a log field starts a format specification: expressions with a lambda are not used as fields)
            exprs = [e for e in exprs if ':' not in e]
            args['log_msg'] = ' | '.join('{%s}' % e for e in exprs) or 'plain'
        else:
            metrics = [MetricDefinition('m%d' % i, 'gauge', [], e) for i, e in enumerate(exprs)] or [
                MetricDefinition('m0', 'counter')]
    # a collecting tracepoint may carry a metric as well: both actions are gated by the one condition
    companion = kind == 'snapshot' and 'condition' in args and r.chance(0.4)
    if companion:
        metrics = [MetricDefinition('companion', 'counter')]
        out.count('snapshot_with_companion_metric')
    trig = line_trigger('tp', base, line, args, watches, metrics)
    rig = Rig(custom={}, host_dir=wd, plugins=[plugins.RecLogger(), plugins.RecMetrics()])
    # a neighbour on the same line with a condition of its own (unlimited log tracepoint): each tracepoint is judged by
    # its own condition at every hit, whichever of the two is looked at first
    cond2 = None
    if place != 'module' and r.chance(0.35):
        cond2 = r.pick([c_ for c_ in CONDS_FN if c_.strip() and c_ != cond.strip()])
        trig_n = line_trigger('tpN', base, line, {'fire_count': '-1', 'fire_period': '0', 'condition': cond2,
                                                  'snapshot': 'no_collect', 'log_msg': 'neighbour'}, [], [])
        rig.install([trig_n, trig] if r.chance(0.5) else [trig, trig_n])
        out.count('neighbour_with_own_condition')
    else:
        rig.install([trig])
    truth_n, logs_n = [], []
    nhits = r.randrange(3, 13)
    inputs = [(r.randrange(0, 6), r.chance(0.5), r.pick(['ann', 'bo', 'cy', 'zed', '7']), r.chance(0.5)) for _ in range(nhits)]
    truth = []        # per hit: (cond_true, failed_exc_name)
    expected_vals = []  # per hit: [(expr, value, failed)] as seen by the recorder
    acted = []        # per hit index: list of observations
    cur = {'hit': -1, 'frame': None}
    probs = snapcheck.Problems()
    logs, mets = {}, {}

    def pre(ev, frame, arg):
        if ev.kind == 'line' and ev.line == line and ev.base == base:
            cur['hit'] += 1
            c = args.get('condition')
            if c is None or not c.strip():
                truth.append((True, None))
            else:
                val, failed = rec_eval(c, frame)
                truth.append((failed is None and val is True, type(failed).__name__ if failed else None))
            expected_vals.append([(e,) + rec_eval(e, frame) for e in exprs])
            if cond2 is not None:
                val, failed = rec_eval(cond2, frame)
                truth_n.append(failed is None and val is True)

    def post(ev, frame, arg):
        if ev.kind == 'line' and ev.line == line and ev.base == base:
            h = cur['hit']
            local_ids = {id(v) for v in frame.f_locals.values()}
            for rec in [p for p in rig.push.pushed if p.ev is ev]:
                acted.append(h)
                snap = rec.snapshot
                results = [w for w in snap.watches if w.source == 'WATCH']
                if [w.expression for w in results] != exprs:
                    probs.add('watch:results-list', 'hit %d: watch results %r for %r' % (
                        h, [w.expression for w in results], exprs))
                    continue
                for w, (e, val, failed) in zip(results, expected_vals[h]):
                    compare_watch(snap, w, val, failed, local_ids, probs)
                snapcheck.check_closed(snap, probs)

    def hook(name, callback, payload):
        h = cur['hit']
        if callback == 'log' and payload.get('tp_id') == 'tpN':
            logs_n.append(h)
        elif callback == 'log':
            logs.setdefault(h, []).append(payload['msg'])
        elif callback == 'metric':
            mets.setdefault(h, []).append(payload)

    rig.pre, rig.post = pre, post
    plugins.HOOK[0] = hook

    def body():
        if place == 'module':
            for i in range(nhits):
                clock.set_virtual(T0 + i * MS)
                hostframe.load(path)
            return
        mod = hostframe.load(path)
        fn = {'func': mod.leaf, 'method': mod.K().meth, 'inner': mod.make(7)}[place]
        for i, (v, flag, name, ok) in enumerate(inputs):
            clock.set_virtual(T0 + i * MS)
            fn(v, flag, name, mod.Obj(ok))

    try:
        _, exc = rig.run(body)
    finally:
        clock.set_virtual(None)
        plugins.HOOK[0] = None
    rig.cleanup()
    replay = replay_spec(spec, seed)
    if kind == 'log':
        acted = sorted(h for h, v in logs.items() for _ in v)
    elif kind == 'metric':
        acted = sorted(set(mets))
    witness = {'place': place, 'condition': args.get('condition'), 'fire_count': fc, 'kind': kind, 'exprs': exprs,
               'inputs': inputs if place != 'module' else nhits, 'cond_truth_per_hit': truth, 'acted_at_hits': acted,
               'agent_log': [short(x, 160) for x in rig.logs[-2:]]}
    if exc is not None:
        out.inconc('C10 host raised %r' % (exc,))
        return
    if len(truth) != nhits:
        out.inconc('C10 recorder saw %d hits of %d' % (len(truth), nhits))
        return
    # reference: due = limiter allows AND condition true; only collections use budget
    count = 0
    due = []
    rejected_then_due = False
    seen_reject = False
    for h, (ok, failed) in enumerate(truth):
        allowed = fc == -1 or count < fc
        if allowed and ok:
            due.append(h)
            count += 1
            if seen_reject:
                rejected_then_due = True
        elif allowed and not ok:
            seen_reject = True
    if companion and sorted(set(mets)) != due:
        extra = [h for h in sorted(set(mets)) if h not in due]
        mech = 'condition:collected-on-false' if any(truth[h][0] is False for h in extra if h < len(truth)) else \
            'condition:companion-metric-differs'
        out.violation(mech, 'the metric of the same tracepoint was reported at hits %s, its snapshots are due at %s '
                            '(condition %r)' % (sorted(set(mets)), due, args.get('condition')), witness, replay)
    if cond2 is not None:
        want_n = [h for h, ok in enumerate(truth_n) if ok]
        if sorted(logs_n) != want_n:
            out.violation('condition:neighbour-verdict',
                          'the neighbouring tracepoint on the same line (condition %r, unlimited) logged at hits %s, its '
                          'condition holds at hits %s (the other tracepoint there has condition %r)' % (
                              cond2, sorted(logs_n), want_n, args.get('condition')), witness, replay)
    actual = sorted(set(acted))
    if len(acted) != len(set(acted)) and kind != 'metric':
        out.violation('condition:collected-twice', 'one hit produced two %s actions' % kind, witness, replay)
    for h in actual:
        if h not in due:
            ok, failed = truth[h] if 0 <= h < len(truth) else (None, None)
            if ok is False:
                mech = 'condition:collected-on-failing' if failed else 'condition:collected-on-false'
                out.violation(mech, 'hit %d acted although its condition %r is %s there' % (
                    h, args.get('condition'), 'failing with %s' % failed if failed else 'false'), witness, replay)
            else:
                out.violation('ratelimit:exceeded-count', 'hit %d acted beyond fire_count=%d' % (h, fc), witness, replay)
            break
    for h in due:
        if h not in actual:
            mech = 'condition:rejected-hit-used-budget' if any(not truth[k][0] for k in range(h)) else \
                'condition:true-hit-not-collected'
            out.violation(mech, 'hit %d is due (condition true, %d of %s fires used) but did not act' % (
                h, due.index(h), fc), witness, replay)
            break
    # log / metric expression values
    if kind == 'log' and exprs:
        for h in actual:
            if h >= len(expected_vals):
                continue
            want = '[deep] ' + ' | '.join(_log_text(val, failed) for _, val, failed in expected_vals[h])
            got = logs.get(h, [None])[0]
            if got != want and not any(f is not None and not isinstance(f, Exception) for _, _, f in expected_vals[h]):
                mech = 'scope:host-globals-invisible' if _nameerr(got) and not _nameerr(want) else (
                    'scope:agent-names-visible' if _nameerr(want) and not _nameerr(got) else 'log:value')
                out.violation(mech, 'hit %d logged %r, the frame evaluates to %r' % (h, got, want), witness, replay)
                break
    if kind == 'metric' and exprs:
        for h in actual:
            got = {p[1]: p[6] for p in mets.get(h, [])}
            for i, (e, val, failed) in enumerate(expected_vals[h]):
                want = 1
                if failed is None:
                    try:
                        want = float(val)
                    except BaseException:  # noqa
                        want = 1
                if 'm%d' % i not in got:
                    out.violation('metric:missing', 'hit %d: metric m%d (%r) not reported' % (h, i, e), witness, replay)
                    break
                g = got['m%d' % i]
                if not (g == want or (g != g and want != want)):
                    mech = 'scope:host-globals-invisible' if (failed is None and g == 1 and any(
                        n in e for n in NONLOCAL)) else ('scope:agent-names-visible' if failed is not None and any(
                            n in e for n in AGENT_NAMES) else 'metric:value')
                    out.violation(mech, 'hit %d: metric expression %r reported %r, the frame evaluates to %r' % (
                        h, e, g, want), witness, replay)
                    break
    for mech, what in probs:
        if mech in ('watch:error-not-reported',) and any(n in what for n in AGENT_NAMES):
            mech = 'scope:agent-names-visible'
        out.violation(mech, what, witness, replay)
    if rig.escapes:
        out.violation('containment:escape', 'trace handler raised: %s' % rig.escapes[0][2][-300:], witness, replay)
    out.count('hits_checked', nhits)
    if rejected_then_due:
        out.count('rejected_then_due')
    if any(f for _, f in truth):
        out.count('failing_conditions')
    out.count('global_scope_exprs', sum(1 for e in exprs if any(n in e for n in NONLOCAL)))
    out.count('agent_name_exprs', sum(1 for e in exprs + [args.get('condition') or ''] if any(n in e for n in AGENT_NAMES)))
    if place == 'module':
        out.count('module_level_cases')
    if place == 'inner':
        out.count('closure_cases')
    out.case({'p': place, 'c': args.get('condition'), 'fc': fc, 'k': kind, 'e': exprs, 'in': inputs},
             nontrivial=rejected_then_due or any(any(n in e for n in NONLOCAL + AGENT_NAMES) for e in exprs) or
             any(f for _, f in truth),
             sample={k: witness[k] for k in ('place', 'condition', 'fire_count', 'kind', 'exprs', 'cond_truth_per_hit',
                                             'acted_at_hits')})


def _log_text(val, failed):
    if failed is not None:
        return str(failed)
    return str(val)


def _nameerr(s):
    return bool(s) and 'is not defined' in s


def run_shard(spec, out):
    wd = Workdir('c10')
    try:
        for seed in spec_seeds(spec):
            case_cond(seed, out, spec, wd.path)
    finally:
        wd.close()
