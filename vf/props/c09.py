"""C09 Delivery runs off the application thread, exactly once, and flush really drains.

Monitors: (1) history checker at a fake gRPC channel - every accepted snapshot is converted and sent exactly once, on a
thread that is not the one that handed it over, and a failing conversion / send changes no other snapshot's fate;
(2) flush postcondition evaluated at the moment flush() returns - it returned normally, every previously accepted
task has finished (future done), none is still tracked; schedules are made hostile with task bodies gated to finish
after flush began and with sys.monitoring LINE yields inside deep/task; (3) post-close submissions either raise or run.
"""
import os
import sys
import threading
import time

from vf import inject, fakegrpc
from vf.util import Rng, split_seeds, spec_seeds, replay_spec, short

ID = 'C09'
LEVEL = 'exploration'
TECHNIQUE = 'runtime monitor: exactly-once / thread-affinity history checker at a fake channel + flush postcondition under gated and yield-injected schedules'
RULE = ('task histories: 0-40 tasks, each ok / failing (Exception or BaseException) / slow (<0.05 s) / gated until '
        'flush has begun, flush from the submitting or another thread, a second flush while the first is waiting, submissions after flush; push histories: 1-25 '
        'snapshots handed over from 1-4 application threads to the real PushService over a fake channel with a seeded '
        'subset of unconvertible snapshots and failing sends; two task handlers active in one process; a backlog of '
        'more than ten seconds made of 3 s tasks; LINE-event yields in deep/task and deep/push; '
        'non-trivial = at least one task failed or was still running when flush started; distinct by canonical history')
ASSUMPTIONS = ['tasks are shorter than flush\'s own 10 s per-task wait', 'a refused post-close submission may raise any exception type']
RULE += "; snapshots handed over from the threads of an application's own ThreadPoolExecutor"
REQUIRE = {'pushes_from_application_pool_threads': 100, 'tasks_tracked': 2000, 'flushes_checked': 300, 'flush_with_running_failure': 80, 'sends_checked': 1500,
           'failed_sends': 100, 'unconvertible': 100, 'post_close_submits': 200, 'yield_points': 2000,
           'submits_during_flush': 30, 'twin_handler_flushes': 40, 'backlog_flushes': 1, 'flushes_over_a_draining_queue': 8, 'tasks_submitting_during_flush': 2,
           'concurrent_second_flushes': 20, 'racing_submitters': 60,
           'bursts_of_baseexception_tasks': 10, 'handovers_to_a_closed_pool': 40}


def plan(tier, seed):
    n = {'quick': 1, 'thorough': 15}[tier]
    return (split_seeds('t%s' % seed, 400 * n, 8, 'tasks') + split_seeds('p%s' % seed, 320 * n, 8, 'push') +
            split_seeds('w%s' % seed, 40 * n, 2, 'twin') + split_seeds('b%s' % seed, 1 if tier == 'quick' else 3, 3, 'backlog') +
            split_seeds('d%s' % seed, 4 * n, 4, 'drain'))


class BaseBoom(BaseException):
    pass


def case_tasks(seed, out, spec):
    from deep.task import TaskHandler
    r = Rng('c09t', seed)
    handler = TaskHandler()
    n = r.pick([0, 1, 2, 3, 5, 8, 13, 40])
    release = threading.Event()
    flush_started = threading.Event()
    ran = {}
    lock = threading.Lock()
    plan_ = []

    def make(i, kind):
        def task():
            if kind.startswith('gated'):
                release.wait(15)
            if 'slow' in kind:
                time.sleep(r_sleep[i])
            with lock:
                ran[i] = ran.get(i, 0) + 1
            if 'fail' in kind:
                raise RuntimeError('task %d failed' % i)
            if 'base' in kind:
                raise BaseBoom('task %d' % i)
            return i
        return task

    r_sleep = {}
    futures = []
    accepted = []
    # sometimes the run starts with a burst of tasks that end in a BaseException (as the project's own refusal does):
    # the workers survive that, the tasks behind them still run
    burst = r.randrange(2, 5) if (n >= 5 and r.chance(0.15)) else 0
    if burst:
        out.count('bursts_of_baseexception_tasks')
    for i in range(n):
        kind = r.pick(['ok', 'ok', 'ok', 'fail', 'slow', 'slow-fail', 'gated', 'gated-fail', 'gated-fail', 'base'])
        if i < burst:
            kind = 'base'
        r_sleep[i] = r.random() * 0.03
        plan_.append(kind)
        try:
            futures.append(handler.submit_task(make(i, kind)))
            accepted.append(i)
        except BaseException as e:  # noqa
            out.violation('submit:raised-before-close', 'submit_task raised %r before flush' % (e,),
                          {'plan': plan_}, replay_spec(spec, seed))
            _close(handler)
            return
    gated = any(k.startswith('gated') for k in plan_)
    want_late = gated and r.chance(0.6)

    def releaser():
        flush_started.wait(10)
        time.sleep(r.pick([0.0, 0.001, 0.01, 0.03]) + (0.05 if want_late else 0))
        release.set()

    helper = threading.Thread(target=releaser)
    helper.start()
    late_during = {}
    flush_tid = [None]

    def submit_while_flushing():
        # a submission made after flush() began: it must be refused, or be drained by that flush
        flush_started.wait(10)
        # only once flush() is demonstrably waiting on a task (a frame of deep/task below a blocking wait)
        end = time.monotonic() + 2
        waiting = False
        while time.monotonic() < end and not waiting:
            fr = sys._current_frames().get(flush_tid[0])
            in_future_wait = False
            while fr is not None:
                fn = fr.f_code.co_filename
                if os.path.join('concurrent', 'futures') in fn:
                    in_future_wait = True      # blocked in Future.result(): flush is past its first statements
                if in_future_wait and fn.endswith(os.path.join('deep', 'task', '__init__.py')):
                    waiting = True
                    break
                fr = fr.f_back
            if not waiting:
                time.sleep(0.001)
        if not waiting:
            return
        flag = {}

        def late_task():
            time.sleep(0.04)
            flag['ran'] = True

        try:
            late_during['future'] = handler.submit_task(late_task)
        except BaseException as e:  # noqa
            late_during['refused'] = type(e).__name__

    late_thread = None
    if want_late:
        late_thread = threading.Thread(target=submit_while_flushing)
        late_thread.start()
    yld = inject.yielder(str(seed), p=0.4)
    result = {}

    def do_flush():
        flush_tid[0] = threading.get_ident()
        flush_started.set()
        try:
            handler.flush()
            result['raised'] = None
        except BaseException as e:  # noqa
            result['raised'] = e
        # postcondition evaluated right at return
        result['returned_at'] = time.monotonic()
        result['undone'] = [i for i, f in zip(accepted, futures) if not f.done()]
        lf = late_during.get('future')
        result['late_undone'] = lf is not None and not lf.done()

    # another thread keeps handing over work from just before flush() is called until it is refused: whatever was
    # accepted has finished when flush() returns (accepted-then-drained or refused, nothing in between)
    racing = {'accepted': [], 'refused': 0}
    racer = None
    if r.chance(0.35):
        def race_submit():
            flush_started.wait(10)
            for k in range(400):
                rec = {}

                def quick(rec=rec):
                    time.sleep(0.01)
                    rec['finished'] = time.monotonic()
                try:
                    rec['future'] = handler.submit_task(quick)
                    racing['accepted'].append(rec)
                except BaseException:  # noqa
                    racing['refused'] += 1
                    break
        racer = threading.Thread(target=race_submit)
        racer.start()

    # sometimes a second caller flushes while the first flush is still waiting (shutdown from two places): it, too,
    # may only return once everything accepted has finished
    second = {}
    second_thread = None
    if gated and r.chance(0.4):
        def do_second_flush():
            flush_started.wait(10)
            time.sleep(r.pick([0.0, 0.002, 0.01]))
            try:
                handler.flush()
                second['raised'] = None
            except BaseException as e:  # noqa
                second['raised'] = e
            second['undone'] = [i for i, f in zip(accepted, futures) if not f.done()]
        second_thread = threading.Thread(target=do_second_flush)
        second_thread.start()

    with inject.LineInjector(lambda f: f.endswith(os.path.join('deep', 'task', '__init__.py')), yld) as inj:
        # (always on a thread of its own, from the submitting thread's point of view or not: a flush that cannot finish
        # must not take the whole shard with it)
        t = threading.Thread(target=do_flush)
        t.start()
        t.join(25)
        hung = t.is_alive()
        release.set()
        helper.join(10)
        # let stragglers finish so the pool can be closed
        deadline = time.monotonic() + 20
        for f in futures:
            try:
                f.exception(timeout=max(0.01, deadline - time.monotonic()))
            except BaseException:  # noqa
                pass
        events = inj.events
    replay = replay_spec(spec, seed)
    witness = {'tasks': plan_, 'flush_raised': repr(result.get('raised')), 'unfinished_at_return': result.get('undone')}
    if hung:
        # not a verdict by the clock: but if the pool has no live worker left while accepted tasks have not run, nothing
        # will ever run them - that is a fact about the state, whatever the machine's speed
        workers = list(getattr(handler._pool, '_threads', ()))
        undone = [i for i, f in zip(accepted, futures) if not f.done()]
        if workers and undone and not any(t.is_alive() for t in workers):
            out.violation('delivery:workers-died', 'all %d delivery workers have died (after tasks that ended in a '
                                                   'BaseException) while tasks %s were still waiting to run' % (
                                                       len(workers), undone[:10]), witness, replay)
            _close(handler)
            return 'stop-shard'
        else:
            out.inconc('C09 flush did not return within the watchdog (tasks %s)' % short(plan_))
        _close(handler)
        return
    if result.get('raised') is not None:
        e = result['raised']
        mech = 'flush:reraised-task-error' if isinstance(e, (RuntimeError, BaseBoom)) else (
            'flush:bookkeeping-race' if isinstance(e, KeyError) else 'flush:raised')
        out.violation(mech, 'flush() raised %r although it must return normally once the tasks finished' % (e,),
                      witness, replay)
    elif result.get('undone'):
        out.violation('flush:returned-early', 'flush() returned while tasks %s were unfinished' % result['undone'],
                      witness, replay)
    if racer is not None:
        racer.join(30)
        for rec in racing['accepted']:
            try:
                rec['future'].exception(timeout=10)
            except BaseException:  # noqa
                pass
        out.count('racing_submitters')
        out.count('racing_submissions_accepted', len(racing['accepted']))
        late = [rec for rec in racing['accepted'] if rec.get('finished') is None or (
            result.get('returned_at') is not None and rec['finished'] > result['returned_at'])]
        if late and result.get('raised') is None:
            out.violation('submit:accepted-around-flush-start-not-drained',
                          '%d of %d tasks handed over by another thread around the moment flush() closed the handler were '
                          'accepted (no error) and finished only after flush() had returned' % (
                              len(late), len(racing['accepted'])), witness, replay)
    if second_thread is not None:
        second_thread.join(30)
        out.count('concurrent_second_flushes')
        if second.get('undone'):
            out.violation('flush:returned-early', 'a second flush() called while the first one was waiting returned while '
                                                  'tasks %s were unfinished' % second['undone'], witness, replay)
    if late_thread is not None:
        late_thread.join(5)
        out.count('submits_during_flush')
        if result.get('late_undone'):
            out.violation('submit:accepted-during-flush-not-drained',
                          'a task submitted while flush() was waiting was accepted, yet flush returned before it '
                          'finished (neither refused nor drained)', witness, replay)
        lf = late_during.get('future')
        if lf is not None:
            try:
                lf.exception(timeout=5)
            except BaseException:  # noqa
                pass
    with lock:
        wrong = {i: c for i, c in ran.items() if c != 1}
        missing = [i for i in accepted if i not in ran]
    if wrong or missing:
        out.violation('delivery:not-exactly-once', 'tasks run a wrong number of times: %s, never run: %s' % (
            wrong, missing), witness, replay)
    # post-close submissions
    late = []
    for j in range(r.pick([0, 1, 2])):
        flag = {}
        try:
            f = handler.submit_task(lambda: flag.setdefault('ran', True))
            try:
                f.result(10)
            except BaseException:  # noqa
                pass
            if not flag.get('ran'):
                out.violation('submit:dropped-silently-after-close', 'a task submitted after flush neither raised nor '
                                                                     'ran', witness, replay)
            late.append('ran')
        except BaseException as e:  # noqa
            late.append(type(e).__name__)
        out.count('post_close_submits')
    _close(handler)
    out.count('tasks_tracked', len(accepted))
    out.count('flushes_checked')
    out.count('yield_points', events)
    if any(k in ('gated-fail',) for k in plan_):
        out.count('flush_with_running_failure')
    out.case({'plan': plan_, 'late': len(late)}, nontrivial=any('fail' in k or 'base' in k or 'gated' in k for k in plan_),
             sample={'tasks': plan_[:12], 'n': n, 'flush_outcome': 'returned' if result.get('raised') is None else
                     repr(result['raised']), 'post_close': late, 'line_events_with_yields': events})


def case_twin(seed, out, spec):
    """Two task handlers live in one process (two agents, or one that was started again): each flush drains exactly
    its own handler's tasks, whatever the other one is doing."""
    from deep.task import TaskHandler
    r = Rng('c09w', seed)
    a, b = TaskHandler(), TaskHandler()
    done = {}
    lock = threading.Lock()
    release_b = threading.Event()

    def job(owner, i, dur, gated):
        def run():
            if gated:
                release_b.wait(20)
            time.sleep(dur)
            with lock:
                done[(owner, i)] = done.get((owner, i), 0) + 1
            return i
        return run

    na, nb = r.randrange(1, 9), r.randrange(1, 9)
    order = ['a'] * na + ['b'] * nb
    if r.chance(0.6):
        r.shuffle(order)
    ia = ib = 0
    b_gated = r.chance(0.5)
    for who in order:
        if who == 'a':
            a.submit_task(job('a', ia, r.pick([0.0, 0.02, 0.06, 0.15]), False))
            ia += 1
        else:
            b.submit_task(job('b', ib, r.pick([0.0, 0.0, 0.01]), b_gated and r.chance(0.5)))
            ib += 1
    if not b_gated:
        time.sleep(r.pick([0.0, 0.005, 0.03]))   # the other handler's tasks may all be finished before the flush
    t0 = time.monotonic()
    a.flush()
    took = time.monotonic() - t0
    with lock:
        a_done = sorted(i for (o, i) in done if o == 'a')
    replay = replay_spec(spec, seed)
    witness = {'submission_order': ''.join(order), 'other_handler_gated': b_gated, 'flush_seconds': round(took, 3)}
    if a_done != list(range(na)):
        out.violation('flush:returned-early', 'flush() of one task handler returned while its tasks %s were unfinished '
                                              '(a second task handler is active in the process)' % (
                                                  sorted(set(range(na)) - set(a_done)),), witness, replay)
    elif took > 5:
        out.violation('flush:waited-for-foreign-task', 'flush() took %.1f s: it waited for another handler\'s task' % took,
                      witness, replay)
    release_b.set()
    b.flush()
    with lock:
        b_done = sorted(i for (o, i) in done if o == 'b')
        twice = [k for k, v in done.items() if v != 1]
    if b_done != list(range(nb)):
        out.violation('flush:returned-early', 'flush() of the second task handler left its tasks %s unfinished' % (
            sorted(set(range(nb)) - set(b_done)),), witness, replay)
    if twice:
        out.violation('delivery:ran-twice', 'tasks %s ran more than once' % (twice[:4],), witness, replay)
    _close(a)
    _close(b)
    out.count('twin_handler_flushes', 2)
    out.count('tasks_tracked', na + nb)
    out.case({'twin': ''.join(order), 'g': b_gated, 'seed': str(seed)}, nontrivial=True,
             sample={'submission_order': ''.join(order), 'flush_seconds': round(took, 3)})


def case_backlog(seed, out, spec):
    """More queued work than ten seconds in total, but no single task anywhere near that: flush() still drains it."""
    from deep.task import TaskHandler
    r = Rng('c09b', seed)
    h = TaskHandler()
    n, dur = r.pick([(7, 3.4), (8, 2.9), (9, 2.6)])
    done = []

    def job(i):
        def run():
            time.sleep(dur)
            done.append(i)
        return run

    for i in range(n):
        h.submit_task(job(i))
    t0 = time.monotonic()
    h.flush()
    took = time.monotonic() - t0
    left = sorted(set(range(n)) - set(done))
    witness = {'tasks': n, 'seconds_each': dur, 'workers': 2, 'flush_seconds': round(took, 2)}
    if left:
        out.violation('flush:returned-early', 'flush() returned after %.1f s with tasks %s of a %d x %.1f s backlog '
                                              'unfinished (no task takes longer than flush\'s per-task wait)' % (
                                                  took, left, n, dur), witness, replay_spec(spec, seed))
    _close(h)
    out.count('backlog_flushes')
    out.count('tasks_tracked', n)
    out.case({'backlog': n, 'dur': dur}, nontrivial=True, sample=witness)


def case_drain(seed, out, spec):
    """flush() is called while the workers are completing a long queue of very short tasks: tasks finish (and leave the
    pending table) at every instant of flush's own work. It returns normally with every task run exactly once."""
    import sys
    from deep.task import TaskHandler
    r = Rng('c09d', seed)
    old = sys.getswitchinterval()
    sys.setswitchinterval(r.pick([1e-5, 5e-5, 1e-4]))
    try:
        for rnd in range(4):
            h = TaskHandler()
            n = r.pick([1500, 2500, 3500])
            done = []
            for i in range(n):
                h.submit_task(done.append, i)
            raised = []
            t = threading.Thread(target=lambda: _flush_into(h, raised), name='vf-drain-flush')
            t.start()
            t.join(40)
            witness = {'tasks': n, 'round': rnd, 'finished_when_flush_returned': len(done)}
            if t.is_alive():
                out.inconc('C09 drain: flush did not return within the watchdog')
                _close(h)
                return
            if raised:
                out.violation('flush:raised', 'flush() raised %r while the workers were completing a queue of %d short '
                                              'tasks' % (raised[0], n), witness, replay_spec(spec, seed))
                _close(h)
                return
            if sorted(done) != list(range(n)):
                missing = n - len(set(done))
                mech = 'flush:returned-early' if missing else 'delivery:ran-twice'
                out.violation(mech, 'after flush() %d of %d short tasks had run (%d distinct)' % (
                    len(done), n, len(set(done))), witness, replay_spec(spec, seed))
                _close(h)
                return
            _close(h)
            out.count('tasks_tracked', n)
            out.count('flushes_over_a_draining_queue')
        # a running task hands in follow-up work while flush is waiting for it (accepted or refused - either way the
        # task itself is finished when flush returns, and flush does not sit out its per-task wait)
        h = TaskHandler()
        started, go, fin = threading.Event(), threading.Event(), []

        def chatty():
            started.set()
            go.wait(5)
            try:
                h.submit_task(fin.append, 'follow-up')
            except BaseException:  # noqa
                fin.append('refused')
            fin.append('done')

        h.submit_task(chatty)
        started.wait(5)
        raised = []
        t = threading.Thread(target=lambda: _flush_into(h, raised), name='vf-drain-flush2')
        t.start()
        time.sleep(0.1)
        go.set()
        t.join(40)
        if t.is_alive():
            out.inconc('C09 drain: flush did not return within the watchdog (task submitting follow-up work)')
        elif raised:
            out.violation('flush:raised', 'flush() raised %r while a running task handed in follow-up work' % (raised[0],),
                          {'finished': fin}, replay_spec(spec, seed))
        elif 'done' not in fin:
            out.violation('flush:returned-early', 'flush() returned while the task that handed in follow-up work during '
                                                  'the flush was still running (%r)' % (fin,), {'finished': fin},
                          replay_spec(spec, seed))
        else:
            out.count('tasks_submitting_during_flush')
        _close(h)
    finally:
        sys.setswitchinterval(old)
    out.case({'drain': seed}, nontrivial=True, sample={'rounds': 4})


def _flush_into(handler, raised):
    try:
        handler.flush()
    except BaseException as e:  # noqa
        raised.append(e)


def _close(handler):
    try:
        handler._pool.shutdown(wait=False)
    except BaseException:  # noqa
        pass


def mk_snapshot(i, bad=False):
    from deep.api.resource import Resource
    from deep.api.tracepoint import TracePointConfig, EventSnapshot, StackFrame, Variable, VariableId
    lookup = {'1': Variable('str', 'value-%d' % i, '100%d' % i, [], False)}
    # (bad: a line number that is not a number has no wire form)
    frames = [StackFrame('/app/f.py', 'f.py', 'fn', 'line-%d' % i if bad else 10 + i, [VariableId('1', 'v')], None,
                         app_frame=True)]
    return EventSnapshot(TracePointConfig('tp-%d' % i, 'f.py', 10, {}, [], []), 1000 + i, Resource.get_empty(),
                         frames, lookup)


def case_push(seed, out, spec):
    from deep.push import PushService
    from deep.task import TaskHandler
    r = Rng('c09p', seed)
    grpc = fakegrpc.FakeGrpc()
    handler = TaskHandler()
    service = PushService(grpc, handler)
    n = r.randrange(1, 26)
    nthreads = r.pick([1, 1, 2, 4])
    kinds = [r.pick(['ok', 'ok', 'ok', 'ok', 'bad', 'sendfail', 'sendslow']) for _ in range(n)]
    snaps = [mk_snapshot(i, bad=(kinds[i] == 'bad')) for i in range(n)]
    by_id = {s.id.to_bytes(16, 'big'): i for i, s in enumerate(snaps)}

    def on_call(method, request):
        i = by_id.get(request.ID)
        if i is not None and kinds[i] == 'sendfail':
            raise fakegrpc.FakeRpcError('send %d failed' % i)
        if i is not None and kinds[i] == 'sendslow':
            time.sleep(slow[i])
        from deepproto.proto.tracepoint.v1.tracepoint_pb2 import SnapshotResponse
        with completed_lock:
            completed.append(i)
        return SnapshotResponse()

    completed, completed_lock = [], threading.Lock()
    slow = {i: r.pick([0.005, 0.02, 0.05]) for i in range(n)}
    use_pool = r.chance(0.4)
    grpc.channel.on_call = on_call
    pushers = {}
    errors = []

    def app_thread(idxs):
        for i in idxs:
            pushers[i] = threading.get_ident()
            try:
                service.push_snapshot(snaps[i])
            except BaseException as e:  # noqa
                errors.append((i, repr(e)))

    yld = inject.yielder(str(seed) + 'p', p=0.3)
    with inject.LineInjector(lambda f: (os.sep + 'deep' + os.sep + 'task' + os.sep) in f or
                             (os.sep + 'deep' + os.sep + 'push' + os.sep) in f, yld) as inj:
        if use_pool:
            # the application reaches its tracepoints on the threads of a thread pool of its own (which are named like
            # the threads of any other pool, the agent's included): still application threads
            import concurrent.futures
            with concurrent.futures.ThreadPoolExecutor(max_workers=nthreads) as ex:
                futs = [ex.submit(app_thread, list(range(k, n, nthreads))) for k in range(nthreads)]
                for f in futs:
                    f.result(30)
        else:
            ths = [threading.Thread(target=app_thread, args=(list(range(k, n, nthreads)),)) for k in range(nthreads)]
            for t in ths:
                t.start()
            for t in ths:
                t.join(30)
        flush_exc = None
        try:
            handler.flush()
        except BaseException as e:  # noqa
            flush_exc = e
        with completed_lock:
            done_at_return = len(completed)
        started_at_return = len(grpc.channel.calls)
        events = inj.events
    # judge at quiescence: give deliveries that flush did not wait for (a flush defect, reported above) time to land
    expect_calls = sum(1 for k in kinds if k != 'bad')
    end = time.monotonic() + (0.05 if flush_exc is None else 3.0)
    while len(grpc.channel.calls) < expect_calls and time.monotonic() < end:
        time.sleep(0.005)
    _close(handler)
    replay = replay_spec(spec, seed)
    witness = {'kinds': kinds, 'app_threads': nthreads, 'application_thread_pool': use_pool, 'flush_raised': repr(flush_exc), 'push_errors': errors[:3]}
    if use_pool:
        out.count('pushes_from_application_pool_threads', n)
    want_ok = sum(1 for k_ in kinds if k_ in ('ok', 'sendslow'))
    if flush_exc is None and not errors and done_at_return < want_ok:
        out.violation('flush:returned-early', 'flush() returned when %d of %d deliverable snapshots had been sent '
                                              '(%d sends started)' % (done_at_return, want_ok, started_at_return),
                      dict(witness_base(kinds, nthreads)), replay_spec(spec, seed))
    if errors:
        out.violation('delivery:handover-raised', 'push_snapshot raised on the application thread: %s' % errors[:2],
                      witness, replay)
    sends = {}
    for method, request, md, tid, t in grpc.channel.calls:
        if method.endswith('/send'):
            sends.setdefault(by_id.get(request.ID), []).append(tid)
    if flush_exc is not None:
        mech = 'flush:reraised-task-error' if isinstance(flush_exc, fakegrpc.FakeRpcError) else 'flush:raised'
        out.violation(mech, 'flush() raised %r after deliveries' % (flush_exc,), witness, replay)
    for i in range(n):
        got = sends.get(i, [])
        want = 0 if kinds[i] == 'bad' else 1
        if len(got) != want:
            mech = 'delivery:not-exactly-once' if want else 'delivery:unconvertible-sent'
            culprit = [kinds[j] for j in range(n) if kinds[j] in ('bad', 'sendfail')]
            if want and not got and culprit:
                mech = 'delivery:failure-affected-another'
            out.violation(mech, 'snapshot %d (%s) was sent %d times, expected %d' % (i, kinds[i], len(got), want),
                          witness, replay)
            break
        for tid in got:
            if tid == pushers.get(i):
                out.violation('delivery:on-application-thread', 'snapshot %d was sent on the thread that handed it '
                                                                'over' % i, witness, replay)
                break
    if r.chance(0.3):
        # the worker pool no longer takes work (the interpreter is exiting, an atexit hook ran): a snapshot handed over
        # now may be refused, it is never converted and sent on the application's own thread
        grpc2 = fakegrpc.FakeGrpc()
        handler2 = TaskHandler()
        service2 = PushService(grpc2, handler2)
        handler2._pool.shutdown(wait=True)
        me = threading.get_ident()
        refused = None
        try:
            service2.push_snapshot(mk_snapshot(900))
        except BaseException as e:  # noqa
            refused = type(e).__name__
        mine = [c for c in grpc2.channel.calls if c[3] == me]
        if mine:
            out.violation('delivery:on-application-thread', 'with a worker pool that takes no more work the snapshot '
                                                            'was sent on the thread that handed it over', witness, replay)
        out.count('handovers_to_a_closed_pool')
    out.count('sends_checked', n)
    out.count('failed_sends', kinds.count('sendfail'))
    out.count('unconvertible', kinds.count('bad'))
    out.count('yield_points', events)
    out.distinct('send_orders', [by_id.get(c[1].ID) for c in grpc.channel.calls][:12])
    out.case({'kinds': kinds, 'threads': nthreads}, nontrivial=any(k in ('bad', 'sendfail') for k in kinds),
             sample={'snapshots': kinds[:15], 'app_threads': nthreads, 'sends_seen': len(grpc.channel.calls),
                     'flush': 'returned' if flush_exc is None else repr(flush_exc)})


def witness_base(kinds, nthreads):
    return {'kinds': kinds, 'app_threads': nthreads}


def run_shard(spec, out):
    for seed in spec_seeds(spec):
        if spec['kind'] == 'tasks':
            if case_tasks(seed, out, spec) == 'stop-shard':
                break       # (every further case would wait for the same dead workers)
        elif spec['kind'] == 'twin':
            case_twin(seed, out, spec)
        elif spec['kind'] == 'backlog':
            case_backlog(seed, out, spec)
        elif spec['kind'] == 'drain':
            case_drain(seed, out, spec)
        else:
            case_push(seed, out, spec)
