"""C13 Registering a tracepoint in code returns a handle that removes exactly it.

Monitor: seeded histories of register / unregister / double-unregister / service-update operations run against an
assembled Deep instance (public register_tracepoint + TracepointRegistration.unregister); after every operation a
probe program is driven through all candidate lines and the set of registrations that act (identified by their
distinguishing watch / metric name / log text) is compared with a multiset model.
"""
import os

from vf import plugins, hostframe
from vf.props.c11 import SyncHandler
from vf.rig import Rig
from vf.snaprig import Workdir
from vf.util import Rng, split_seeds, spec_seeds, replay_spec, short

ID = 'C13'
LEVEL = 'exploration'
TECHNIQUE = 'runtime monitor: multiset reference model vs behaviourally observed active registrations after every operation'
RULE = ('histories of 3-14 operations (register on one of 3 lines with distinguishing watches/metrics/log text, '
        'unregister a random live or dead handle, unregister twice, service update with 0-3 tracepoints incl. the '
        'same lines); 1-4 registrations may share a location; after each operation the probe is driven and the acting '
        'set compared; non-trivial = the history contains an unregister while another registration shares the '
        'location, or a service update while registrations are live; distinct by canonical history')
ASSUMPTIONS = ['listener updates are applied synchronously (a synchronous task handler is set through the public '
               'set_task_handler), so each comparison happens at quiescence; asynchrony is C12']
REQUIRE = {'operations_checked': 4000, 'unregister_shared_location': 200, 'double_unregister': 200,
           'service_updates': 300, 'method_registrations': 150, 'operations_whose_updates_ran_late': 150}

HOST = '''"""c13 probe"""


def probe(x):
    a = x + 1  # @l1
    b = a * 2  # @l2
    return b  # @l3
'''


def plan(tier, seed):
    n = {'quick': 640, 'thorough': 9600}[tier]
    return split_seeds('g%s' % seed, n, 16, 'hist')


def case_hist(seed, out, spec, wd):
    from deep.api.deep import Deep
    from deep.config import ConfigService
    from deep.api.tracepoint.tracepoint_config import MetricDefinition
    from deep.grpc import convert_response
    from deepproto.proto.tracepoint.v1.tracepoint_pb2 import TracePointConfig
    r = Rng('c13', seed)
    plugins.reset()
    hpath = os.path.join(wd, 'c13probe.py')
    if not os.path.exists(hpath):
        with open(hpath, 'w') as f:
            f.write(HOST)
    base = os.path.basename(hpath)
    marks = hostframe.markers(hpath)
    lines = [marks['l1'], marks['l2'], marks['l3']]
    mod = hostframe.load(hpath)
    try:
        from deep.config.tracepoint_config import TracepointConfigService
        agent = Deep(ConfigService({'SERVICE_URL': '127.0.0.1:1', 'SERVICE_SECURE': 'False'},
                                   tracepoints=TracepointConfigService()))
    except TypeError:
        agent = Deep(ConfigService({'SERVICE_URL': '127.0.0.1:1', 'SERVICE_SECURE': 'False'}))
    handler = LaggingHandler()
    agent.config.set_task_handler(handler)
    rig = Rig(agent=agent, host_dir=wd, plugins=[plugins.RecLogger(), plugins.RecMetrics()])
    nops = r.randrange(3, 15)
    handles = []     # (mark, handle, line)
    live = {}        # mark -> line   (model: active registrations)
    service = {}     # mark -> line   (model: tracepoints of the last service update)
    ops = []
    shared_unreg = False
    replay = replay_spec(spec, seed)
    counter = [0]

    def observe():
        """Drive the probe; return the set of marks that acted."""
        acted = set()
        n0 = len(rig.push.pushed)
        seen = []
        plugins.HOOK[0] = lambda name, cb, payload: seen.append((cb, payload))
        try:
            res, exc = rig.run(mod.probe, 3)
        finally:
            plugins.HOOK[0] = None
        for rec in rig.push.pushed[n0:]:
            for w in rec.snapshot.tracepoint.watches:
                if w.startswith('"mark-'):
                    acted.add(w.strip('"'))
        for cb, payload in seen:
            if cb == 'metric' and payload[1].startswith('mark_'):
                acted.add(payload[1].replace('_', '-'))
            if cb == 'log' and payload['msg'].startswith('[deep] mark-'):
                acted.add(payload['msg'][7:])
        return acted, res, exc

    batch_left = 0
    for k in range(nops):
        c = r.randrange(10)
        if handler.held is None and k + 1 < nops and r.chance(0.25):
            # the background workers are busy: the updates of this operation and the next one run only afterwards (each
            # then sees the state both operations left behind)
            handler.held = []
            batch_left = 2
            out.count('operations_whose_updates_ran_late')
        try:
            if c <= 3 or not handles:
                counter[0] += 1
                mark = 'mark-%d' % counter[0]
                line = r.pick(lines) if not (handles and r.chance(0.5)) else handles[-1][2]
                style = r.pick(['snapshot', 'snapshot', 'metric', 'log'])
                # argument values given in code are not always text
                args = r.pick([{'fire_count': '-1', 'fire_period': '0'}, {'fire_count': -1, 'fire_period': 0},
                               {'fire_count': -1, 'fire_period': '0'}])
                watches, metrics = [], []
                if style == 'snapshot':
                    watches = ['"%s"' % mark]
                elif style == 'metric':
                    args['snapshot'] = 'no_collect'
                    metrics = [MetricDefinition(mark.replace('-', '_'), 'counter')]
                else:
                    args['snapshot'] = 'no_collect'
                    args['log_msg'] = mark
                if r.chance(0.2):
                    # a tracepoint on the function rather than on a line (it then lives side by side with line ones)
                    args['method_name'] = 'probe'
                    out.count('method_registrations')
                # call forms: every optional argument may be left out
                form = r.randrange(5)
                if form == 0 or (watches and metrics):
                    h = agent.register_tracepoint(base, line, args, watches, metrics)
                elif form == 1:
                    h = agent.register_tracepoint(base, line, args, watches=watches, metrics=metrics)
                elif watches:
                    h = agent.register_tracepoint(base, line, args, watches)
                elif metrics:
                    h = agent.register_tracepoint(base, line, args, metrics=metrics)
                else:
                    h = agent.register_tracepoint(base, line, args)
                handles.append((mark, h, line))
                live[mark] = line
                ops.append(('register', mark, line, style))
            elif c <= 6:
                mark, h, line = r.pick(handles)
                was_live = mark in live
                if was_live and any(l == line for m, l in live.items() if m != mark):
                    shared_unreg = True
                    out.count('unregister_shared_location')
                h.unregister()
                live.pop(mark, None)
                ops.append(('unregister', mark, 'live' if was_live else 'dead'))
                if not was_live:
                    out.count('double_unregister')
                if r.chance(0.3):
                    h.unregister()
                    ops.append(('unregister-again', mark))
                    out.count('double_unregister')
            else:
                counter[0] += 1
                n = r.randrange(0, 4)
                tps = []
                service = {}
                for j in range(n):
                    mark = 'mark-%d-s%d' % (counter[0], j)
                    line = r.pick(lines)
                    service[mark] = line
                    tps.append(TracePointConfig(ID=mark, path=base, line_number=line,
                                                args={'fire_count': '-1', 'fire_period': '0'},
                                                watches=['"%s"' % mark]))
                agent.config.tracepoints.update_new_config(k, 'hash-%d' % counter[0], convert_response(tps))
                ops.append(('service-update', sorted(service.items())))
                out.count('service_updates')
        except BaseException as e:  # noqa
            import traceback
            out.violation('registration:operation-raised', 'operation %s raised %r' % (short(ops[-1:] or c), e),
                          {'ops': ops, 'trace': traceback.format_exc()[-400:]}, replay)
            break
        if handler.held is not None:
            batch_left -= 1
            if batch_left > 0:
                continue
            try:
                handler.release()
            except BaseException as e:  # noqa
                out.violation('registration:update-raised', 'a background update raised %r' % (e,), {'ops': ops}, replay)
                break
        acted, res, exc = observe()
        want = set(live) | set(service)
        witness = {'ops': ops, 'active_model': sorted(want), 'acted': sorted(acted)}
        if exc is not None or res != 8:
            out.violation('transparency:probe-outcome', 'probe returned %r / raised %r' % (res, exc), witness, replay)
            break
        if rig.escapes:
            out.violation('containment:escape', 'trace handler raised: %s' % rig.escapes[0][2][-300:], witness, replay)
            break
        if acted != want:
            gone = sorted(want - acted)
            extra = sorted(acted - want)
            last = ops[-1][0]
            if last.startswith('unregister') and gone:
                mech = 'registration:unregister-removed-another'
            elif last.startswith('unregister') and extra:
                mech = 'registration:unregister-did-not-remove'
            elif last == 'register' and gone:
                mech = 'registration:register-displaced-another'
            elif last == 'service-update':
                mech = 'registration:service-update-%s' % ('dropped-registration' if gone else 'kept-stale')
            else:
                mech = 'registration:active-set-mismatch'
            out.violation(mech, 'after %s: missing %s, unexpected %s' % (short(ops[-1], 120), gone, extra), witness,
                          replay)
            break
        out.count('operations_checked')
    rig.cleanup()
    try:
        agent.task_handler._pool.shutdown(wait=False)
    except BaseException:  # noqa
        pass
    out.case({'ops': ops}, nontrivial=shared_unreg or any(o[0] == 'service-update' for o in ops),
             sample={'ops': ops[:8], 'operations': len(ops)})


class LaggingHandler(SyncHandler):
    """Runs tasks at once, or - while .held is a list - keeps them and runs them in order at release()."""
    held = None

    def submit_task(self, task, *args):
        if self.held is None:
            return SyncHandler.submit_task(self, task, *args)
        from concurrent.futures import Future
        f = Future()
        self.held.append((f, task, args))
        return f

    def release(self):
        held, self.held = self.held, None
        for f, task, args in held:
            try:
                f.set_result(task(*args))
            except BaseException as e:  # noqa
                f.set_exception(e)


def run_shard(spec, out):
    wd = Workdir('c13')
    try:
        for seed in spec_seeds(spec):
            case_hist(seed, out, spec, wd.path)
    finally:
        wd.close()
