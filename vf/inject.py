"""Source-free yield / fault injection through sys.monitoring LINE events (tool id 3).

LINE events do not fire while a sys.settrace function is running on the thread (tstate->tracing), so this is used on
pool workers, timer threads and hand-off agent threads - never inside a live trace function.
"""
import sys
import threading
import time

mon = sys.monitoring
TOOL = 3


class LineInjector:
    def __init__(self, match_file, on_line):
        self.match_file = match_file
        self.on_line = on_line
        self.events = 0
        self.active = False

    def _cb(self, code, line):
        if not self.match_file(code.co_filename):
            return mon.DISABLE
        self.events += 1
        return self.on_line(code, line)

    def start(self):
        try:
            mon.use_tool_id(TOOL, 'vf-inject')
        except ValueError:
            mon.free_tool_id(TOOL)
            mon.use_tool_id(TOOL, 'vf-inject')
        mon.register_callback(TOOL, mon.events.LINE, self._cb)
        mon.restart_events()
        mon.set_events(TOOL, mon.events.LINE)
        self.active = True

    def stop(self):
        if not self.active:
            return
        mon.set_events(TOOL, 0)
        mon.register_callback(TOOL, mon.events.LINE, None)
        mon.free_tool_id(TOOL)
        self.active = False

    def __enter__(self):
        self.start()
        return self

    def __exit__(self, *a):
        self.stop()


def yielder(rng_seed, p=0.3, max_sleep=0.0004, skip_thread=None):
    """on_line callback that yields / sleeps briefly at a seeded fraction of lines (thread-safe RNG)."""
    import random
    rnd = random.Random(rng_seed)
    lock = threading.Lock()
    stats = {'yields': 0}

    def on_line(code, line):
        if skip_thread is not None and threading.get_ident() == skip_thread:
            return None
        with lock:
            x = rnd.random()
            d = rnd.random() * max_sleep
        if x < p:
            stats['yields'] += 1
            time.sleep(0 if x < p / 2 else d)
        return None

    on_line.stats = stats
    return on_line
