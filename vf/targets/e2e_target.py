"""Fixed host code for end-to-end sessions. Lines are located by their '# @name' markers."""


class Account:
    def __init__(self, owner, balance):
        self.owner = owner
        self.__balance = balance
        self.history = [balance]

    def deposit(self, amount):
        total = self.__balance + amount  # @deposit_first
        self.__balance = total
        self.history.append(total)  # @deposit_mid
        return total  # @deposit_last


def transfer(src, dst, amount):
    label = '%s->%s' % (src.owner, dst.owner)  # @transfer_first
    src.deposit(-amount)
    result = dst.deposit(amount)  # @transfer_mid
    return label, result  # @transfer_last


def run(n=1):
    a = Account('ann', 100)
    b = Account('bob', 5)
    out = []
    for i in range(n):
        out.append(transfer(a, b, i + 1))  # @run_loop
    return out
