"""
Observation about the UNMODIFIED tree (C07): a watch that fails half way through its collection leaves ids in the
snapshot's identity cache that have no entry in the variable table; the next watch (or captured result) that reaches one
of these objects is answered from the cache and refers to an id the table does not have.

Here the failure comes from a dictionary key that is a str subclass whose startswith() raises (var_modifiers() calls
name.startswith('__') on it, outside of any guard). eval_watch() catches the error, reports the watch as failed and
returns an EMPTY lookup - but the dictionary itself and the items before the bad key are already in the cache.

Exits 1 and prints what is wrong on the unmodified tree.

run: cd /tmp/seed6_C07 && PYTHONPATH=/tmp/seed6_C07/src:/tmp/seed6_C07/tests /venv/bin/python obs1.py
"""
import logging
import os
import sys

from deep.api.resource import Resource
from deep.api.tracepoint.constants import WATCHES
from deep.api.tracepoint.trigger import Location, LocationAction, LineLocation, Trigger
from deep.config import ConfigService
from deep.processor.trigger_handler import TriggerHandler
from deep.push.push_service import PushService

logging.disable(logging.CRITICAL)  # the agent logs the failing watch with a stack trace


class CapturePush(PushService):
    def __init__(self):
        super().__init__(None, None)
        self.pushed = []

    def push_snapshot(self, snapshot):
        self.pushed.append(snapshot)


class Config(ConfigService):
    @property
    def resource(self):
        return Resource.get_empty()


class Key(str):
    """A text key of an application (think of a lazy translation string) that does not support startswith()."""

    def startswith(self, *args):
        raise NotImplementedError('startswith')


REGISTRY = {'first': ['a'], Key('second'): ['b'], 'third': ['c']}


def target(name):
    size = len(REGISTRY)
    return size  # TRACEPOINT


def line_of(marker):
    with open(__file__) as source:
        for number, text in enumerate(source, 1):
            if text.rstrip().endswith(marker):
                return number
    raise RuntimeError('marker not found')


def references(snapshot):
    for index, frame in enumerate(snapshot.frames):
        for var in frame.variables:
            yield 'frame %d variable %r' % (index, var.name), var
    for watch in snapshot.watches:
        if watch.result is not None:
            yield 'watch %r' % watch.expression, watch.result
    for vid, var in snapshot.var_lookup.items():
        for child in var.children:
            yield 'child %r of id %s' % (child.name, vid), child


def main():
    push = CapturePush()
    handler = TriggerHandler(Config({}), push)
    location = LineLocation(os.path.basename(__file__), line_of('# TRACEPOINT'), Location.Position.START)
    handler.new_config([Trigger(location, [
        LocationAction('tp', None, {WATCHES: ['REGISTRY', 'REGISTRY', "REGISTRY['first']"]},
                       LocationAction.ActionType.Snapshot)])])
    sys.settrace(handler.trace_call)
    try:
        target('x')
    finally:
        sys.settrace(None)

    if len(push.pushed) != 1:
        print('no snapshot was produced (%d)' % len(push.pushed))
        return 2
    snapshot = push.pushed[0]
    for watch in snapshot.watches:
        print('watch %-20r result=%s error=%r' % (
            watch.expression, None if watch.result is None else 'id ' + watch.result.vid, watch.error))
    print('variable table ids:', sorted(snapshot.var_lookup))
    dangling = ['%s refers to id %r, which is not in the variable table' % (where, ref.vid)
                for where, ref in references(snapshot) if ref.vid not in snapshot.var_lookup]
    if dangling:
        print('DEFECT: the snapshot is not closed')
        for line in dangling:
            print(' -', line)
        return 1
    print('snapshot is closed')
    return 0


if __name__ == '__main__':
    sys.exit(main())
