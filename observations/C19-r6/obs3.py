"""
obs3 (unmodified tree): NO_TRACE from the environment is text and is only tested for truth.

TriggerHandler.start() does `if self._config.NO_TRACE: return`. NO_TRACE=False in code installs the trace function,
DEEP_NO_TRACE=False (text, every non empty text is true) does not: the agent silently never fires a tracepoint.
(NO_TRACE is not listed in docs/config/config.md; it is the only boolean setting that is not read through str2bool.)
"""
import os
import sys

from deep.config import ConfigService
from deep.processor.trigger_handler import TriggerHandler


def installed(config):
    before = sys.gettrace()
    handler = TriggerHandler(config, None)
    handler.start()
    try:
        return sys.gettrace() is not before and sys.gettrace() is not None
    finally:
        handler.shutdown()


in_code = installed(ConfigService({'NO_TRACE': False}))
os.environ['DEEP_NO_TRACE'] = 'False'
in_env = installed(ConfigService({}))
del os.environ['DEEP_NO_TRACE']
print("NO_TRACE=False in code   -> trace function installed:", in_code)
print("DEEP_NO_TRACE=False      -> trace function installed:", in_env)
if in_code != in_env:
    print("WRONG: DEEP_NO_TRACE=False disables tracing, NO_TRACE=False in code does not")
    sys.exit(1)
print("OK")
