"""
obs2 (unmodified tree): keys that are not settings resolve to whatever name exists in the module deep.config.

ConfigService decides 'known key' with hasattr(deep.config, name). The module namespace also holds its imports and
sub modules (os, sys, ConfigService, config_service, tracepoint_config), so these unknown keys are neither looked up
as DEEP_<key> in the environment nor absent; a callable one (ConfigService) is even called.
"""
import os
import sys

from deep.config import ConfigService

problems = []
os.environ['DEEP_os'] = 'from-env'
os.environ['DEEP_sys'] = 'from-env'
os.environ['DEEP_other'] = 'from-env'
cfg = ConfigService({})
print("cfg.other ->", repr(cfg.other))
for key in ('os', 'sys'):
    value = getattr(cfg, key)
    print("cfg.%s -> %r" % (key, value))
    if value != 'from-env':
        problems.append("unknown key %r with DEEP_%s set resolves to %r instead of the environment value" % (key, key, value))
for key in ('config_service', 'tracepoint_config', 'ConfigService'):
    value = getattr(cfg, key)
    print("cfg.%s -> %r" % (key, value))
    if value is not None:
        problems.append("unknown key %r without any value is not absent: %r" % (key, value))
if problems:
    print("WRONG:")
    for p in problems:
        print(" -", p)
    sys.exit(1)
print("OK")
