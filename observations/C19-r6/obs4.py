"""
obs4 (unmodified tree): the documented value for SERVICE_AUTH_PROVIDER cannot be loaded.

docs/auth/providers.md: "To use this set 'SERVICE_AUTH_PROVIDER' to 'deep.api.auth.AuthProvider'". That is the
abstract base class; the basic auth provider is deep.api.auth.BasicAuthProvider. Following the documentation (in code
or as DEEP_SERVICE_AUTH_PROVIDER) makes the first poll/push fail when the metadata is built.
"""
import sys

from deep.config import ConfigService
from deep.grpc import GRPCService

cfg = ConfigService({'SERVICE_AUTH_PROVIDER': 'deep.api.auth.AuthProvider',
                     'SERVICE_USERNAME': 'bob', 'SERVICE_PASSWORD': 'obo'})
try:
    print("metadata:", GRPCService(cfg).metadata())
except Exception as e:
    print("WRONG: the documented provider name fails: %s: %s" % (type(e).__name__, e))
    sys.exit(1)
print("OK")
