"""
obs1 (unmodified tree): IN_APP_EXCLUDE does not behave the same in code and in the environment.

deep.config.IN_APP_EXCLUDE() always adds sys.exec_prefix to what DEEP_IN_APP_EXCLUDE names; a value given in code
replaces that function wholesale, so sys.exec_prefix is no longer excluded. With a virtualenv inside the application
root (the usual <project>/.venv layout) every site-packages frame becomes an application frame as soon as any
IN_APP_EXCLUDE is given in code - the same text in DEEP_IN_APP_EXCLUDE keeps them excluded.
"""
import os
import sys

from deep.config import ConfigService

# an application root that contains the interpreter prefix, like <project>/.venv
root = os.path.dirname(sys.exec_prefix.rstrip('/')) or '/'
lib_file = os.path.join(sys.exec_prefix, 'lib', 'python3', 'site-packages', 'requests', 'api.py')
text = os.path.join(root, 'generated')

os.environ['DEEP_IN_APP_EXCLUDE'] = text
from_env = ConfigService({'APP_ROOT': root}).is_app_frame(lib_file)
del os.environ['DEEP_IN_APP_EXCLUDE']
from_code = ConfigService({'APP_ROOT': root, 'IN_APP_EXCLUDE': text}).is_app_frame(lib_file)

print("file                      :", lib_file)
print("DEEP_IN_APP_EXCLUDE=%s -> %r" % (text, from_env))
print("IN_APP_EXCLUDE=%r in code -> %r" % (text, from_code))
if from_env != from_code:
    print("WRONG: the same IN_APP_EXCLUDE text gives a different answer in code and in the environment "
          "(sys.exec_prefix is only excluded for the environment/default form)")
    sys.exit(1)
print("OK")
