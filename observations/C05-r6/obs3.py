"""
obs3: the size of a snapshot is not bounded by MAX_VARIABLES when a big dict (or object) maps to values that were
already recorded.

check_var_count() compares the number of DISTINCT values with MAX_VARIABLES. A node whose value is already known costs
nothing, so the search never stops on it: a dict with 50000 keys whose values are None / True / small numbers / one
shared object gets 50000 child entries (VariableId: id, name, modifiers), with MAX_VARIABLES=10. (MAX_COLLECTION_SIZE
does not apply to dicts and attribute dictionaries.)
"""
import sys
from obs_common import snapshot_of

MAX_VARIABLES = 10
KEYS = 50000


def target(flags, other):
    return None


pushed = snapshot_of(target, ({"flag-%d" % i: (i % 2 == 0) for i in range(KEYS)}, "other"),
                     {'MAX_VARIABLES': MAX_VARIABLES})
assert len(pushed) == 1, pushed
lookup = pushed[0].var_lookup
references = sum(len(v.children) for v in lookup.values()) + sum(len(f.variables) for f in pushed[0].frames)
print("variables in var_lookup: %d, variable references (children) in the snapshot: %d" % (len(lookup), references))
if references > MAX_VARIABLES + 1:
    print("VIOLATION (unmodified tree): MAX_VARIABLES=%d, but the snapshot lists %d variables as children of 'flags'"
          % (MAX_VARIABLES, max(len(v.children) for v in lookup.values())))
    sys.exit(1)
print("ok")
