"""
obs7: a snapshot action whose limits are given as numbers is collected, but never sent.

SnapshotActionContext.collection_config uses the configured values as they are (they are compared with numbers and
used as slice bounds, so they have to be ints: with the text '16' every value is recorded as '<unprintable>@...' and
MAX_VARIABLES='3' loses the snapshot with a TypeError). The same config dict is copied into the args of the snapshot's
tracepoint, and deep.push.convert_snapshot() needs map<string,string> there: it fails with a TypeError, logs
'Error converting to protobuf' and returns None - PushService._push_task then drops the snapshot silently.
So there is no way to configure a limit and receive the snapshot.
"""
import sys
from obs_common import snapshot_of
from deep.push import convert_snapshot


def target(text):
    return None


bad = []
pushed = snapshot_of(target, ("t" * 100,), {'MAX_STRING_LENGTH': 16})
assert len(pushed) == 1
if convert_snapshot(pushed[0]) is None:
    bad.append("MAX_STRING_LENGTH=16 (int): collected (%d variables) but convert_snapshot() returns None - not sent"
               % len(pushed[0].var_lookup))
pushed = snapshot_of(target, ("t" * 100,), {'MAX_STRING_LENGTH': '16'})
if len(pushed) == 1:
    values = [v.value for v in pushed[0].var_lookup.values()]
    if not any(v == "t" * 16 for v in values):
        bad.append("MAX_STRING_LENGTH='16' (text, as tracepoint args are): values recorded as %s" % values)
pushed = snapshot_of(target, ("t" * 100,), {'MAX_VARIABLES': '3'})
if len(pushed) != 1:
    bad.append("MAX_VARIABLES='3' (text): no snapshot at all")
if bad:
    print("DEFECT (unmodified tree):")
    for line in bad:
        print("  - " + line)
    sys.exit(1)
print("ok")
