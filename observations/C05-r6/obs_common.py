"""Shared helper for the obsK.py scripts: take one snapshot of a call of `func(*args)` with the real TriggerHandler."""
import sys
import threading

from deep.api.resource import Resource
from deep.api.tracepoint.trigger import Location, LocationAction, Trigger, FunctionLocation
from deep.config import ConfigService
from deep.processor.trigger_handler import TriggerHandler
from deep.push.push_service import PushService


class CollectingPush(PushService):
    def __init__(self):
        super().__init__(None, None)
        self.pushed = []

    def push_snapshot(self, snapshot):
        self.pushed.append(snapshot)


class Config(ConfigService):
    @property
    def resource(self):
        return Resource.get_empty()


def snapshot_of(func, args, action_config=None, triggers=None, at=None):
    import os
    at = at or func
    config = Config({})
    push = CollectingPush()
    handler = TriggerHandler(config, push)
    if triggers is None:
        location = FunctionLocation(os.path.basename(at.__code__.co_filename), at.__name__,
                                    Location.Position.START)
        triggers = [Trigger(location, [LocationAction("tp-1", None, action_config or {},
                                                      LocationAction.ActionType.Snapshot)])]
    handler.new_config(triggers)

    def run():
        sys.settrace(handler.trace_call)
        try:
            func(*args)
        finally:
            sys.settrace(None)

    thread = threading.Thread(target=run)
    thread.start()
    thread.join(120)
    return push.pushed
