"""
obs4: the four limits cannot be set on a tracepoint: a snapshot of a tracepoint with MAX_STRING_LENGTH=8,
MAX_COLLECTION_SIZE=2, MAX_VARIABLES=3, MAX_VAR_DEPTH=2 in its args is collected with the defaults (1024/10/1000/5).

Tracepoints reach the agent as args (Dict[str, str]) through build_trigger() - from the poll response
(deep.grpc.convert_response) and from Deep.register_tracepoint(). build_snapshot_action() copies a fixed set of keys
into the action config and drops the MAX_* keys, SnapshotActionContext.collection_config reads them from that config.
"""
import sys
from obs_common import snapshot_of
from deep.api.tracepoint.trigger import build_trigger
from deep.api.tracepoint.constants import METHOD_NAME

ARGS = {METHOD_NAME: 'target', 'MAX_STRING_LENGTH': '8', 'MAX_COLLECTION_SIZE': '2', 'MAX_VARIABLES': '3',
        'MAX_VAR_DEPTH': '2'}


def target(text, numbers, nested, more, and_more):
    return None


trigger = build_trigger("tp-1", "obs4.py", 0, dict(ARGS), [], [])
pushed = snapshot_of(target, ("t" * 100, list(range(8)), [[["deep"]]], "m", "n"), triggers=[trigger])
assert len(pushed) == 1, pushed
snapshot = pushed[0]
lookup = snapshot.var_lookup
bad = []
longest = max(len(v.value) for v in lookup.values())
if longest > 8:
    bad.append("MAX_STRING_LENGTH=8: a value of %d characters" % longest)
widest = max(len(v.children) for v in lookup.values() if v.type == 'list')
if widest > 2:
    bad.append("MAX_COLLECTION_SIZE=2: a list with %d elements" % widest)
if len(lookup) > 3 + 1:
    bad.append("MAX_VARIABLES=3: %d variables" % len(lookup))
if any(v.value == 'deep' for v in lookup.values()):
    bad.append("MAX_VAR_DEPTH=2: the string at depth 4 was collected")
print("args on the snapshot's tracepoint:", snapshot.tracepoint.args)
if bad:
    print("VIOLATION (unmodified tree): the limits in the tracepoint args are ignored")
    for line in bad:
        print("  - " + line)
    sys.exit(1)
print("ok")
