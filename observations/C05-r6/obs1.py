"""
obs1: a value whose text is an instance of a str SUBCLASS is not cut to MAX_STRING_LENGTH.

truncate_string() does string[:max_length] and len(string) on whatever str(value) returned. str() hands back the object
that __str__ returned unchanged when it is an instance of a subclass of str, so the slice and the length are those of
the subclass (user code). Here: a text class that keeps its type on slicing by re-wrapping (a common idiom for
'safe string' / markup classes) but ignores the slice bounds, and an object whose __str__ returns such a text.
"""
import sys
from obs_common import snapshot_of

LIMIT = 10


class Markup(str):
    """A str subclass that returns itself for any slice (think: 'never cut markup in the middle of a tag')."""

    def __getitem__(self, item):
        return self

    def __len__(self):
        return 1

    def __str__(self):
        return self


class Page:
    def __str__(self):
        return Markup("<p>" + "y" * 5000 + "</p>")


def target(markup, page):
    return None


pushed = snapshot_of(target, (Markup("x" * 5000), Page()), {'MAX_STRING_LENGTH': LIMIT})
assert len(pushed) == 1, pushed
bad = []
for vid, variable in pushed[0].var_lookup.items():
    length = str.__len__(variable.value)
    if length > LIMIT:
        bad.append("variable %s (%s): value of %d characters, MAX_STRING_LENGTH=%d, truncated=%s"
                   % (vid, variable.type, length, LIMIT, variable.truncated))
if bad:
    print("VIOLATION (unmodified tree):")
    for line in bad:
        print("  - " + line)
    sys.exit(1)
print("ok")
