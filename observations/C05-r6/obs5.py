"""
obs5 (borderline - strings of the snapshot that are not 'values'): with MAX_STRING_LENGTH=10 the snapshot still holds
 - the name of a variable taken from a dict key (str(key), any length),
 - the type name of a value (any length),
 - the interpolated log message (str(value) of every {expression}, uncut), which is sent as snapshot.log_msg.
"""
import sys
from obs_common import snapshot_of
from deep.api.tracepoint.constants import LOG_MSG

LIMIT = 10


def target(mapping, thing, big):
    return None


Thing = type("T" * 20000, (), {})
pushed = snapshot_of(target, ({"k" * 30000: 1}, Thing(), "b" * 40000),
                     {'MAX_STRING_LENGTH': LIMIT, LOG_MSG: "big is {big}"})
assert len(pushed) == 1, pushed
snapshot = pushed[0]
bad = []
for vid, variable in snapshot.var_lookup.items():
    assert len(variable.value) <= LIMIT
    if len(variable.type) > LIMIT:
        bad.append("variable %s: type name of %d characters" % (vid, len(variable.type)))
    for child in variable.children:
        if len(child.name) > LIMIT:
            bad.append("variable %s: child name of %d characters" % (vid, len(child.name)))
if snapshot.log_msg is not None and len(snapshot.log_msg) > LIMIT + len("[deep] big is "):
    bad.append("log_msg of %d characters" % len(snapshot.log_msg))
if bad:
    print("UNBOUNDED STRINGS (unmodified tree, MAX_STRING_LENGTH=%d):" % LIMIT)
    for line in bad:
        print("  - " + line)
    sys.exit(1)
print("ok")
