"""
obs6 (borderline - depends on how 'the frame' is read): with frame_type=all_frame the budget is spent frame by frame,
each one searched to its full depth before the next frame is looked at. The contents of one large structure in the
innermost frame use up MAX_VARIABLES, and the callers' own local variables (depth 1 of their frame) are not recorded
at all - deeper values won over shallower ones.
"""
import sys
from obs_common import snapshot_of
from deep.api.tracepoint.constants import FRAME_TYPE, ALL_FRAME_TYPE

MAX_VARIABLES = 30


def target(big):
    return None


def caller(caller_local_one, caller_local_two):
    big = [["item-%d-%d" % (i, j) for j in range(10)] for i in range(10)]
    return target(big)


pushed = snapshot_of(caller, ("one", "two"), {FRAME_TYPE: ALL_FRAME_TYPE, 'MAX_VARIABLES': MAX_VARIABLES},
                     at=target)
pushed = [s for s in pushed]
assert len(pushed) >= 1, pushed
snapshot = pushed[0]
frames = {f.method_name: f for f in snapshot.frames}
inner = frames['target']
outer = frames['caller']
deep_values = [v.value for v in snapshot.var_lookup.values() if v.value.startswith('item-')]
print("target frame: %d locals; %d strings of depth 3 recorded; caller frame: %d locals recorded %s"
      % (len(inner.variables), len(deep_values), len(outer.variables), [v.name for v in outer.variables]))
if len(outer.variables) < 3 and len(deep_values) > 0:
    print("CROWDED OUT (unmodified tree): the caller's locals (caller_local_one, caller_local_two, big) are missing, "
          "%d values of depth 3 of the inner frame were recorded instead" % len(deep_values))
    sys.exit(1)
print("ok")
