"""
obs2: the snapshot that is SENT can hold string values (much) longer than MAX_STRING_LENGTH.

The collector cuts the value to MAX_STRING_LENGTH code points. deep.push.convert_snapshot() then makes the text valid
UTF-8 with 'backslashreplace': every lone surrogate (bytes decoded with surrogateescape: file names, environment
variables, data read with errors='surrogateescape') becomes the 6 characters \\udcXX. The value in the protobuf
message is up to 6 times the limit, and 'truncated' does not tell.
"""
import sys
from obs_common import snapshot_of
from deep.push import convert_snapshot

LIMIT = 1024  # the default; it is not set on the action, see obs7


def target(file_name, short_name):
    return None


raw = bytes([0xff, 0xfe, 0xfd]) * 2000
pushed = snapshot_of(target, (raw.decode('utf-8', 'surrogateescape'), b'\xff\xfe'.decode('utf-8', 'surrogateescape')))
assert len(pushed) == 1, pushed
for variable in pushed[0].var_lookup.values():
    assert len(variable.value) <= LIMIT
message = convert_snapshot(pushed[0])
assert message is not None
bad = []
for vid, variable in message.var_lookup.items():
    if len(variable.value) > LIMIT:
        bad.append("variable %s: %d characters on the wire, MAX_STRING_LENGTH=%d, truncated=%s"
                   % (vid, len(variable.value), LIMIT, variable.truncated))
    elif variable.value != pushed[0].var_lookup[vid].value and not variable.truncated:
        bad.append("variable %s: %d characters collected, %d on the wire"
                   % (vid, len(pushed[0].var_lookup[vid].value), len(variable.value)))
if bad:
    print("VIOLATION (unmodified tree):")
    for line in bad:
        print("  - " + line)
    sys.exit(1)
print("ok")
