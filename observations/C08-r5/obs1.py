"""
Observation 1 (unmodified tree): a string that is not valid UTF-8 in an attribute value or in the file name of a frame
costs the whole snapshot.

push/__init__.py protects variable values, variable names, watch expressions/errors and the log message with __text(),
but not: attribute values (e.g. 'thread_name' added by the PythonPlugin that ships with the agent), resource values and
StackFrame.file_name/short_path. convert_snapshot() then raises
UnicodeEncodeError, logs "Error converting to protobuf" and the snapshot is never sent.

Two cases are run through the real agent (deep.start + a local gRPC service):
 A. the tracepoint is hit in a thread whose name contains a lone surrogate (threading.Thread(name=os.fsdecode(b'w\xff')))
 B. the tracepoint is hit in a module that lives in a directory whose name is not valid UTF-8 (os.fsdecode gives lone
    surrogates in co_filename)
A control case (plain ascii) shows that the set-up delivers snapshots.

Exit 1 and a description if any of the snapshots is lost (that is what happens on the unmodified tree), exit 0 otherwise.
"""
import importlib.util
import os
import shutil
import sys
import tempfile
import threading
import time
from concurrent import futures

import deep
import grpc
from deep.api.tracepoint.constants import FIRE_COUNT, FIRE_PERIOD
from deepproto.proto.poll.v1 import poll_pb2_grpc
from deepproto.proto.poll.v1.poll_pb2 import PollResponse, ResponseType
from deepproto.proto.tracepoint.v1 import tracepoint_pb2_grpc
from deepproto.proto.tracepoint.v1.tracepoint_pb2 import SnapshotResponse

snapshots = []
received = threading.Condition()


class Poll(poll_pb2_grpc.PollConfigServicer):
    def poll(self, request, context):
        return PollResponse(ts_nanos=request.ts_nanos, current_hash="h", response=[],
                            response_type=ResponseType.NO_CHANGE)


class Snap(tracepoint_pb2_grpc.SnapshotServiceServicer):
    def send(self, request, context):
        with received:
            snapshots.append(request)
            received.notify_all()
        return SnapshotResponse()


def target(value):
    doubled = value * 2
    return doubled  # TRACEPOINT


MODULE_SOURCE = "def other_target(value):\n    tripled = value * 3\n    return tripled\n"


def hit(function, arg, thread_name):
    """Call the function in a new thread (new threads get the trace function) and wait for a snapshot."""
    before = len(snapshots)
    deadline = time.time() + 6
    while time.time() < deadline and len(snapshots) == before:
        thread = threading.Thread(target=function, args=(arg,), name=thread_name)
        thread.start()
        thread.join()
        with received:
            if len(snapshots) == before:
                received.wait(0.5)
    return len(snapshots) > before


def main():
    server = grpc.server(futures.ThreadPoolExecutor(max_workers=4))
    poll_pb2_grpc.add_PollConfigServicer_to_server(Poll(), server)
    tracepoint_pb2_grpc.add_SnapshotServiceServicer_to_server(Snap(), server)
    port = server.add_insecure_port('127.0.0.1:0')
    server.start()

    tmp = tempfile.mkdtemp()
    odd_dir = os.path.join(os.fsencode(tmp), b'caf\xe9')  # latin-1 directory name, not valid UTF-8
    os.mkdir(odd_dir)
    module_path = os.fsdecode(os.path.join(odd_dir, b'obs1_other_module.py'))
    with open(module_path, 'w') as f:
        f.write(MODULE_SOURCE)
    spec = importlib.util.spec_from_file_location('obs1_other_module', module_path)
    other = importlib.util.module_from_spec(spec)
    spec.loader.exec_module(other)

    line = [no for no, text in enumerate(open(__file__).read().splitlines(), 1) if text.endswith('# TRACEPOINT')][0]
    agent = deep.start({'SERVICE_URL': '127.0.0.1:%d' % port, 'SERVICE_SECURE': 'False', 'POLL_TIMER': 3600})
    lost = []
    try:
        args = {FIRE_COUNT: '-1', FIRE_PERIOD: '0'}
        agent.register_tracepoint(os.path.basename(__file__), line, args)
        agent.register_tracepoint('obs1_other_module.py', 3, args)
        time.sleep(0.5)

        if not hit(target, 1, 'worker-1'):
            print("set-up problem: the control snapshot did not arrive")
            return 2
        if not hit(target, 2, os.fsdecode(b'worker-\xff')):
            lost.append("A: tracepoint hit in a thread named %r (attribute thread_name of the PythonPlugin)" %
                        os.fsdecode(b'worker-\xff'))
        if not hit(other.other_target, 3, 'worker-3'):
            lost.append("B: tracepoint hit in %r (StackFrame.file_name)" % module_path)
    finally:
        agent.shutdown()
        server.stop(1)
        shutil.rmtree(tmp, ignore_errors=True)

    if lost:
        print("SNAPSHOTS LOST (collected, convert_snapshot failed with UnicodeEncodeError, nothing was sent):")
        for item in lost:
            print(" -", item)
        return 1
    print("all snapshots arrived")
    return 0


if __name__ == '__main__':
    code = main()
    sys.stdout.flush()
    os._exit(code)
