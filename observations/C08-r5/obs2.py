"""
Observation 2 (unmodified tree): attribute values that BoundedAttributes accepts, but that convert_value() cannot
represent, cost the whole snapshot.

BoundedAttributes (deep/api/attributes) accepts
 - a sequence with None elements (the None is kept: `cleaned_seq.append(element)`), e.g. ('a', None)
 - any python int, e.g. 2 ** 64
as attribute values. deep/grpc/__init__.py convert_value() returns None for the None element, and
ArrayValue(values=[..., None]) raises TypeError; AnyValue(int_value=2 ** 64) raises ValueError. Both are raised inside
convert_snapshot(), which logs "Error converting to protobuf" and returns None, so the snapshot is never sent.

A SnapshotDecorator plugin (the documented way to add attributes) returns such a value; the tracepoint is hit through
the real agent (deep.start + a local gRPC service). A control decorator value ('a', 'b') / 2 ** 62 arrives.

Exit 1 and a description if any of the snapshots is lost (that is what happens on the unmodified tree), exit 0 otherwise.
"""
import os
import sys
import threading
import time
from concurrent import futures

import deep
import grpc
from deep.api.attributes import BoundedAttributes
from deep.api.plugin import SnapshotDecorator
from deep.api.tracepoint.constants import FIRE_COUNT, FIRE_PERIOD
from deepproto.proto.poll.v1 import poll_pb2_grpc
from deepproto.proto.poll.v1.poll_pb2 import PollResponse, ResponseType
from deepproto.proto.tracepoint.v1 import tracepoint_pb2_grpc
from deepproto.proto.tracepoint.v1.tracepoint_pb2 import SnapshotResponse

snapshots = []
received = threading.Condition()


class Poll(poll_pb2_grpc.PollConfigServicer):
    def poll(self, request, context):
        return PollResponse(ts_nanos=request.ts_nanos, current_hash="h", response=[],
                            response_type=ResponseType.NO_CHANGE)


class Snap(tracepoint_pb2_grpc.SnapshotServiceServicer):
    def send(self, request, context):
        with received:
            snapshots.append(request)
            received.notify_all()
        return SnapshotResponse()


def target(value):
    doubled = value * 2
    return doubled  # TRACEPOINT


class Decorator(SnapshotDecorator):
    """Adds the attribute 'extra' to every snapshot."""

    value = None

    def decorate(self, snapshot_id, context):
        return BoundedAttributes(attributes={'extra': Decorator.value})


def hit(function, arg, thread_name):
    """Call the function in a new thread (new threads get the trace function) and wait for a snapshot."""
    before = len(snapshots)
    deadline = time.time() + 6
    while time.time() < deadline and len(snapshots) == before:
        thread = threading.Thread(target=function, args=(arg,), name=thread_name)
        thread.start()
        thread.join()
        with received:
            if len(snapshots) == before:
                received.wait(0.5)
    return len(snapshots) > before


def main():
    server = grpc.server(futures.ThreadPoolExecutor(max_workers=4))
    poll_pb2_grpc.add_PollConfigServicer_to_server(Poll(), server)
    tracepoint_pb2_grpc.add_SnapshotServiceServicer_to_server(Snap(), server)
    port = server.add_insecure_port('127.0.0.1:0')
    server.start()

    line = [no for no, text in enumerate(open(__file__).read().splitlines(), 1) if text.endswith('# TRACEPOINT')][0]
    agent = deep.start({'SERVICE_URL': '127.0.0.1:%d' % port, 'SERVICE_SECURE': 'False', 'POLL_TIMER': 3600,
                        'PLUGINS': ['obs2.Decorator']})
    import obs2  # the plugin is loaded by name, i.e. from the module 'obs2' and not from '__main__'
    lost = []
    try:
        args = {FIRE_COUNT: '-1', FIRE_PERIOD: '0'}
        agent.register_tracepoint(os.path.basename(__file__), line, args)
        time.sleep(0.5)

        for value, control in ((('a', 'b'), True), (2 ** 62, True), (('a', None), False), (2 ** 64, False)):
            obs2.Decorator.value = value
            arrived = hit(target, 1, 'worker')
            if arrived and snapshots[-1].attributes and 'extra' not in [kv.key for kv in snapshots[-1].attributes]:
                print("set-up problem: the decorator is not active")
                return 2
            if control and not arrived:
                print("set-up problem: the control snapshot (extra=%r) did not arrive" % (value,))
                return 2
            if not control and not arrived:
                lost.append("decorator attribute extra=%r" % (value,))
    finally:
        agent.shutdown()
        server.stop(1)

    if lost:
        print("SNAPSHOTS LOST (collected, convert_snapshot failed with TypeError/ValueError, nothing was sent):")
        for item in lost:
            print(" -", item)
        return 1
    print("all snapshots arrived")
    return 0


if __name__ == '__main__':
    code = main()
    sys.stdout.flush()
    os._exit(code)
