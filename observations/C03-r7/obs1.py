"""
obs1 (unmodified tree): a function that was entered while no tracepoint was configured never sees a line tracepoint,
however often execution reaches the line afterwards.

TriggerHandler.__trace_call returns None while the config is empty. For a 'call' event that tells python not to trace
the lines of that frame at all - for the rest of its life. A long running function (the main loop of a service, a
worker loop, a generator) that was entered before the first config arrived (the first poll result is installed in the
background, so this is the normal case for the code that runs right after deep.start()) is never instrumented.
"""
import importlib.util
import os
import shutil
import sys
import tempfile

from deep.api.plugin import TracepointLogger
from deep.api.resource import Resource
from deep.api.tracepoint.constants import LOG_MSG, FIRE_COUNT, FIRE_PERIOD
from deep.api.tracepoint.trigger import Location, LocationAction, Trigger, LineLocation
from deep.config import ConfigService
from deep.processor.trigger_handler import TriggerHandler
from deep.push.push_service import PushService

TARGET = '''def main_loop(install):
    total = 0
    for i in range(5):
        if i == 1:
            install()
        total += i
    return total
'''


class Logger(TracepointLogger):
    def __init__(self):
        self.logged = []

    def log_tracepoint(self, log_msg, tp_id, ctx_id):
        self.logged.append(log_msg)


class Config(ConfigService):
    def __init__(self):
        super().__init__({})
        self.logger = Logger()

    @property
    def tracepoint_logger(self):
        return self.logger

    @property
    def resource(self):
        return Resource.get_empty()


def main():
    tmp = tempfile.mkdtemp(prefix='obs1_')
    try:
        path = os.path.join(tmp, 'obs1_target.py')
        with open(path, 'w') as f:
            f.write(TARGET)
        spec = importlib.util.spec_from_file_location('obs1_target', path)
        target = importlib.util.module_from_spec(spec)
        spec.loader.exec_module(target)

        config = Config()
        handler = TriggerHandler(config, PushService(None, None))

        def install():
            # what the config listener does when the poll result arrives
            handler.new_config([Trigger(LineLocation('obs1_target.py', 6, Location.Position.START), [
                LocationAction('tp', None, {LOG_MSG: 'i={i}', FIRE_COUNT: '-1', FIRE_PERIOD: '0'},
                               LocationAction.ActionType.Log)])])

        sys.settrace(handler.trace_call)
        try:
            target.main_loop(install)
            in_running_frame = list(config.logger.logged)
            target.main_loop(lambda: None)
            in_new_frame = config.logger.logged[len(in_running_frame):]
        finally:
            sys.settrace(None)
    finally:
        shutil.rmtree(tmp, ignore_errors=True)

    print("line 6 is reached with i=1..4 after the tracepoint is installed in the running invocation: actions %s"
          % in_running_frame)
    print("line 6 is reached with i=0..4 in an invocation entered afterwards: actions %s" % in_new_frame)
    if len(in_running_frame) != 4:
        print("WRONG: expected 4 actions in the invocation that was already running, got %d" % len(in_running_frame))
        return 1
    print("ok")
    return 0


if __name__ == '__main__':
    sys.exit(main())
