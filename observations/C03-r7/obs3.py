"""
obs3 (unmodified tree): two metric tracepoints are not independent of each other when the shipped prometheus plugin
is used: the plugin caches the collector per '<name>_<type>' only.

Two tracepoints (here on the same line, it is the same on different lines or files) that define a counter with the same
name but different labels (or a different namespace): the first one that acts creates the collector, the action of the
other one fails inside the plugin ("Incorrect label names", logged and swallowed) and nothing is counted for it -
which of the two works depends on which one acts first. With a different namespace the second tracepoint silently
counts into the metric of the first one.
"""
import importlib.util
import os
import shutil
import sys
import tempfile

import prometheus_client

from deep.api.plugin.metric.prometheus_metrics import PrometheusPlugin
from deep.api.resource import Resource
from deep.api.tracepoint.constants import FIRE_COUNT, FIRE_PERIOD
from deep.api.tracepoint.tracepoint_config import MetricDefinition, LabelExpression
from deep.api.tracepoint.trigger import Location, LocationAction, Trigger, LineLocation
from deep.config import ConfigService
from deep.processor.trigger_handler import TriggerHandler
from deep.push.push_service import PushService

TARGET = '''def work(value):
    value = value + 1
    return value
'''


class Config(ConfigService):
    @property
    def resource(self):
        return Resource.get_empty()


def sample(name, labels):
    return prometheus_client.REGISTRY.get_sample_value(name, labels)


def main():
    tmp = tempfile.mkdtemp(prefix='obs3_')
    config = Config({})
    plugin = PrometheusPlugin(config)
    config.plugins = [plugin]
    try:
        path = os.path.join(tmp, 'obs3_target.py')
        with open(path, 'w') as f:
            f.write(TARGET)
        spec = importlib.util.spec_from_file_location('obs3_target', path)
        target = importlib.util.module_from_spec(spec)
        spec.loader.exec_module(target)

        handler = TriggerHandler(config, PushService(None, None))
        limits = {FIRE_COUNT: '-1', FIRE_PERIOD: '0'}
        handler.new_config([Trigger(LineLocation('obs3_target.py', 2, Location.Position.START), [
            LocationAction('tp-a', None, dict(limits, metrics=[
                MetricDefinition('obs3_hits', 'COUNTER', [LabelExpression('team', 'a')])]),
                           LocationAction.ActionType.Metric),
            LocationAction('tp-b', None, dict(limits, metrics=[
                MetricDefinition('obs3_hits', 'COUNTER', [LabelExpression('owner', 'b')])]),
                           LocationAction.ActionType.Metric),
        ])])

        sys.settrace(handler.trace_call)
        try:
            for _ in range(3):
                target.work(1)
        finally:
            sys.settrace(None)

        count_a = sample('deep_obs3_hits_total', {'team': 'a'})
        count_b = sample('deep_obs3_hits_total', {'owner': 'b'})
    finally:
        plugin.clear()
        shutil.rmtree(tmp, ignore_errors=True)

    print("line 2 was reached 3 times; counted for tp-a: %s, counted for tp-b: %s" % (count_a, count_b))
    if count_a != 3.0 or count_b != 3.0:
        print("WRONG: the metric action of the second tracepoint is lost because of the first one")
        return 1
    print("ok")
    return 0


if __name__ == '__main__':
    sys.exit(main())
