"""
obs2 (unmodified tree): a method tracepoint acts every time a generator (or coroutine) is RESUMED, not only when the
function is entered.

Python delivers a 'call' event for every resumption of a generator/coroutine frame. FunctionLocation.at_location only
looks at the event type and the name, so one invocation of a generator function that yields three values is counted as
four entries of the function (the same happens with 'async def' functions at every await that suspends).
"""
import importlib.util
import os
import shutil
import sys
import tempfile

from deep.api.plugin import TracepointLogger
from deep.api.resource import Resource
from deep.api.tracepoint.constants import LOG_MSG, FIRE_COUNT, FIRE_PERIOD
from deep.api.tracepoint.trigger import Location, LocationAction, Trigger, FunctionLocation
from deep.config import ConfigService
from deep.processor.trigger_handler import TriggerHandler
from deep.push.push_service import PushService

TARGET = '''def numbers():
    yield 1
    yield 2
    yield 3


def consume():
    return list(numbers())
'''


class Logger(TracepointLogger):
    def __init__(self):
        self.logged = []

    def log_tracepoint(self, log_msg, tp_id, ctx_id):
        self.logged.append(log_msg)


class Config(ConfigService):
    def __init__(self):
        super().__init__({})
        self.logger = Logger()

    @property
    def tracepoint_logger(self):
        return self.logger

    @property
    def resource(self):
        return Resource.get_empty()


def main():
    tmp = tempfile.mkdtemp(prefix='obs2_')
    try:
        path = os.path.join(tmp, 'obs2_target.py')
        with open(path, 'w') as f:
            f.write(TARGET)
        spec = importlib.util.spec_from_file_location('obs2_target', path)
        target = importlib.util.module_from_spec(spec)
        spec.loader.exec_module(target)

        config = Config()
        handler = TriggerHandler(config, PushService(None, None))
        handler.new_config([Trigger(FunctionLocation('obs2_target.py', 'numbers', Location.Position.START), [
            LocationAction('tp', None, {LOG_MSG: 'entered numbers', FIRE_COUNT: '-1', FIRE_PERIOD: '0'},
                           LocationAction.ActionType.Log)])])

        sys.settrace(handler.trace_call)
        try:
            result = target.consume()
        finally:
            sys.settrace(None)
    finally:
        shutil.rmtree(tmp, ignore_errors=True)

    assert result == [1, 2, 3]
    print("numbers() was entered once, the method tracepoint acted %d times" % len(config.logger.logged))
    if len(config.logger.logged) != 1:
        print("WRONG: the resumptions of the generator (after each yield) are taken for entries of the function")
        return 1
    print("ok")
    return 0


if __name__ == '__main__':
    sys.exit(main())
