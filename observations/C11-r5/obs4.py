"""
obs4 (unmodified tree) - with the shipped PrometheusPlugin two tracepoints whose metrics have the same name do not get
'one metric per metric definition': the plugin caches the prometheus collector by name + type only.

Two definitions with the same name in different namespaces (shop_hits / billing_hits are different prometheus
metrics): the value of the second definition is added to the collector of the first, billing_hits never exists.
(The OTelMetrics plugin uses the same cache key.)
"""
import faulthandler
import os
import sys

faulthandler.dump_traceback_later(60, exit=True)

# noinspection PyUnresolvedReferences
from deepproto.proto.tracepoint.v1.tracepoint_pb2 import TracePointConfig, Metric, MetricType  # noqa: E402
from prometheus_client import REGISTRY  # noqa: E402

from deep.api.plugin.metric.prometheus_metrics import PrometheusPlugin  # noqa: E402
from deep.api.resource import Resource  # noqa: E402
from deep.config import ConfigService  # noqa: E402
from deep.grpc import convert_response  # noqa: E402
from deep.processor.trigger_handler import TriggerHandler  # noqa: E402
from deep.push.push_service import PushService  # noqa: E402

THIS_FILE = os.path.basename(__file__)


def target(value):
    a = value + 1  # TP-LINE-1
    b = value + 2  # TP-LINE-2
    return a + b


def line_of(marker):
    with open(__file__) as src:
        for no, text in enumerate(src, start=1):
            if text.rstrip().endswith("# " + marker):
                return no
    raise AssertionError(marker)


def main():
    config = ConfigService({})
    config.resource = Resource.create()
    plugin = PrometheusPlugin(config)
    config.plugins = [plugin]
    handler = TriggerHandler(config, PushService(None, None))

    args = {"snapshot": "no_collect", "fire_count": "-1", "fire_period": "0"}
    handler.new_config(convert_response([
        TracePointConfig(ID="tp-shop", path=THIS_FILE, line_number=line_of("TP-LINE-1"), args=args,
                         metrics=[Metric(name="hits", type=MetricType.COUNTER, namespace="shop")]),
        TracePointConfig(ID="tp-billing", path=THIS_FILE, line_number=line_of("TP-LINE-2"), args=args,
                         metrics=[Metric(name="hits", type=MetricType.COUNTER, namespace="billing")]),
    ]))

    sys.settrace(handler.trace_call)
    try:
        target(1)
    finally:
        sys.settrace(None)

    shop = REGISTRY.get_sample_value("shop_hits_total")
    billing = REGISTRY.get_sample_value("billing_hits_total")
    plugin.clear()

    problems = []
    if shop != 1.0 or billing != 1.0:
        problems.append("expected shop_hits_total == 1 and billing_hits_total == 1, got shop_hits_total=%s "
                        "billing_hits_total=%s" % (shop, billing))
    if problems:
        print("DEFECT: not one metric per metric definition with the PrometheusPlugin")
        for problem in problems:
            print("  " + problem)
        return 1
    print("OK")
    return 0


if __name__ == '__main__':
    sys.exit(main())
