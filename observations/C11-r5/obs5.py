"""
obs5 (unmodified tree) - stack_type=no_stack ("Do not collect the stack data", api/tracepoint/constants.py) is carried
into the snapshot action config but nothing reads it: the snapshot has the same frames as with stack_type=stack.
(frame_type=no_frame / all_frame are honoured, FrameProcessorConfig in processor/frame_config.py that knows about the
stack type is not used by the collector.)
"""
import faulthandler
import os
import sys

faulthandler.dump_traceback_later(60, exit=True)

# noinspection PyUnresolvedReferences
from deepproto.proto.tracepoint.v1.tracepoint_pb2 import TracePointConfig  # noqa: E402

from deep.api.resource import Resource  # noqa: E402
from deep.config import ConfigService  # noqa: E402
from deep.grpc import convert_response  # noqa: E402
from deep.processor.trigger_handler import TriggerHandler  # noqa: E402
from deep.push.push_service import PushService  # noqa: E402

THIS_FILE = os.path.basename(__file__)


class CollectingPush(PushService):
    def __init__(self):
        super().__init__(None, None)
        self.pushed = []

    def push_snapshot(self, snapshot):
        self.pushed.append(snapshot)


def inner(value):
    doubled = value * 2  # TP-LINE
    return doubled


def middle(value):
    return inner(value) + 1


def outer(value):
    return middle(value) + 1


def line_of(marker):
    with open(__file__) as src:
        for no, text in enumerate(src, start=1):
            if text.rstrip().endswith("# " + marker):
                return no
    raise AssertionError(marker)


def main():
    config = ConfigService({})
    config.resource = Resource.create()
    push = CollectingPush()
    handler = TriggerHandler(config, push)
    handler.new_config(convert_response([
        TracePointConfig(ID="tp-stack", path=THIS_FILE, line_number=line_of("TP-LINE"), args={"stack_type": "stack"}),
        TracePointConfig(ID="tp-no-stack", path=THIS_FILE, line_number=line_of("TP-LINE"),
                         args={"stack_type": "no_stack"}),
    ]))
    sys.settrace(handler.trace_call)
    try:
        outer(1)
    finally:
        sys.settrace(None)

    frames = {s.tracepoint.id: [f.method_name for f in s.frames] for s in push.pushed}
    if len(frames.get("tp-no-stack", [])) > 1:
        print("DEFECT: stack_type=no_stack is ignored, the snapshot still has the whole stack")
        print("  tp-stack    frames: %s" % frames.get("tp-stack"))
        print("  tp-no-stack frames: %s" % frames.get("tp-no-stack"))
        return 1
    print("OK: %s" % frames)
    return 0


if __name__ == '__main__':
    sys.exit(main())
