"""
obs3 (unmodified tree) - one tracepoint with a metric of a type this agent does not know loses the WHOLE poll response.

convert_response skips a tracepoint it cannot interpret when build_trigger returns None (unknown stage). The metric
definitions are converted before build_trigger is called, with MetricType.Name(m.type); proto3 enums are open, so a
newer service can send a metric type value this agent's proto does not know, and MetricType.Name raises ValueError.
The exception leaves convert_response (and LongPoll.poll), so none of the tracepoints of the response is installed -
not only the one with the unknown metric type.
"""
import sys

# noinspection PyUnresolvedReferences
from deepproto.proto.tracepoint.v1.tracepoint_pb2 import TracePointConfig, Metric, MetricType

from deep.grpc import convert_response


def main():
    good = TracePointConfig(ID="tp-good", path="app.py", line_number=10, args={})
    good_metric = TracePointConfig(ID="tp-good-metric", path="app.py", line_number=11, args={},
                                   metrics=[Metric(name="requests", type=MetricType.COUNTER)])
    odd = TracePointConfig(ID="tp-odd", path="app.py", line_number=12, args={},
                           metrics=[Metric(name="latency", type=17)])
    # what arrives over the wire
    response = [TracePointConfig.FromString(tp.SerializeToString()) for tp in [good, good_metric, odd]]
    try:
        triggers = convert_response(response)
    except Exception as e:
        print("DEFECT: the whole response is lost because of one tracepoint: convert_response raised %s: %s"
              % (type(e).__name__, e))
        return 1
    ids = sorted(action.id for trigger in triggers for action in trigger.actions)
    if "tp-good" not in ids or "tp-good-metric" not in ids:
        print("DEFECT: the good tracepoints are not installed: %s" % ids)
        return 1
    print("OK: installed %s" % ids)
    return 0


if __name__ == '__main__':
    sys.exit(main())
