"""
obs1 (unmodified tree) - a tracepoint with span=method and no method_name never creates a span, and all such tracepoints
of a file collapse into one location.

build_trigger turns {span: method} (no method_name) into FunctionLocation(path, None, ...): the line number of the
tracepoint is dropped, the location is meant to 'discover' the method from the frame. FunctionLocation.at_location then
tests `start <= line >= end` with the CURRENT line of the frame, which is never at/after the end of the function's
source, so the location never matches. In addition the id of every such location is "<path>#None", so convert_response
merges the span tracepoints of two different methods of one file into a single location.
"""
import faulthandler
import os
import sys

faulthandler.dump_traceback_later(60, exit=True)

# noinspection PyUnresolvedReferences
from deepproto.proto.tracepoint.v1.tracepoint_pb2 import TracePointConfig  # noqa: E402

from deep.api.plugin.span import SpanProcessor, Span  # noqa: E402
from deep.api.resource import Resource  # noqa: E402
from deep.config import ConfigService  # noqa: E402
from deep.grpc import convert_response  # noqa: E402
from deep.processor.trigger_handler import TriggerHandler  # noqa: E402
from deep.push.push_service import PushService  # noqa: E402

THIS_FILE = os.path.basename(__file__)


class RecordingSpan(Span):
    def __init__(self, name, log):
        self._name = name
        self.log = log

    name = property(lambda self: self._name)
    trace_id = property(lambda self: "t")
    span_id = property(lambda self: "s")

    def add_attribute(self, key, value):
        pass

    def add_event(self, name, attributes=None):
        pass

    def close(self):
        self.log.append(("close", self._name))


class RecordingSpanProcessor(SpanProcessor):
    def __init__(self, config):
        super().__init__("RecordingSpanProcessor", config)
        self.log = []

    def create_span(self, name, context_id, tracepoint_id):
        self.log.append(("open", name, tracepoint_id))
        return RecordingSpan(name, self.log)

    def current_span(self):
        return None


class CollectingPush(PushService):
    def __init__(self):
        super().__init__(None, None)
        self.pushed = []

    def push_snapshot(self, snapshot):
        self.pushed.append(snapshot)


def first(value):
    doubled = value * 2  # TP-LINE-1
    return doubled


def second(value):
    tripled = value * 3  # TP-LINE-2
    return tripled


def line_of(marker):
    with open(__file__) as src:
        for no, text in enumerate(src, start=1):
            if text.rstrip().endswith("# " + marker):
                return no
    raise AssertionError(marker)


def main():
    config = ConfigService({})
    config.resource = Resource.create()
    spans = RecordingSpanProcessor(config)
    config.plugins = [spans]
    handler = TriggerHandler(config, CollectingPush())

    triggers = convert_response([
        TracePointConfig(ID="tp-first", path=THIS_FILE, line_number=line_of("TP-LINE-1"),
                         args={"span": "method", "snapshot": "no_collect", "fire_count": "-1", "fire_period": "0"}),
        TracePointConfig(ID="tp-second", path=THIS_FILE, line_number=line_of("TP-LINE-2"),
                         args={"span": "method", "snapshot": "no_collect", "fire_count": "-1", "fire_period": "0"}),
    ])
    handler.new_config(triggers)

    sys.settrace(handler.trace_call)
    try:
        first(1)
        second(2)
    finally:
        sys.settrace(None)

    opened = [entry for entry in spans.log if entry[0] == "open"]
    problems = []
    if len(triggers) != 2:
        problems.append("the two method-span tracepoints (different methods) became %d location(s): %s"
                        % (len(triggers), [t.id for t in triggers]))
    if sorted(entry[2] for entry in opened) != ["tp-first", "tp-second"]:
        problems.append("expected one span per tracepoint (tp-first around first(), tp-second around second()), "
                        "spans opened: %s" % opened)
    if problems:
        print("DEFECT: span=method without method_name is not acted on")
        for problem in problems:
            print("  " + problem)
        return 1
    print("OK: both method spans were created: %s" % spans.log)
    return 0


if __name__ == '__main__':
    sys.exit(main())
