"""
obs2 (unmodified tree) - the stage argument only selects line/method, the end/capture stages are not acted on.

SnapshotActionContext defers a snapshot to the end of the line/method (and adds the returned value / raised exception)
when the action config has stage=line_capture/method_capture (tests/unit_tests/processor/test_trigger_handler.py
test_method_result_capture builds such a LocationAction by hand). build_snapshot_action however never copies the
stage argument into the action config, and FunctionLocation only ever matches the 'call' event. So for a tracepoint
that arrives from the service (or register_tracepoint) with

    {method_name: compute, stage: method_capture}   and   {method_name: compute, stage: method_end}

the snapshot is taken and sent at the START of the method: there is no 'return' watch result, and the locals are those
at entry (the local 'result' assigned in the method is not there).
"""
import faulthandler
import os
import sys

faulthandler.dump_traceback_later(60, exit=True)

# noinspection PyUnresolvedReferences
from deepproto.proto.tracepoint.v1.tracepoint_pb2 import TracePointConfig  # noqa: E402

from deep.api.resource import Resource  # noqa: E402
from deep.config import ConfigService  # noqa: E402
from deep.grpc import convert_response  # noqa: E402
from deep.processor.trigger_handler import TriggerHandler  # noqa: E402
from deep.push.push_service import PushService  # noqa: E402

THIS_FILE = os.path.basename(__file__)
events = []


class CollectingPush(PushService):
    def __init__(self):
        super().__init__(None, None)
        self.pushed = []

    def push_snapshot(self, snapshot):
        events.append("snapshot %s pushed" % snapshot.tracepoint.id)
        self.pushed.append(snapshot)


def compute(value):
    result = value * 2
    events.append("body of compute ran")
    return result


def main():
    config = ConfigService({})
    config.resource = Resource.create()
    push = CollectingPush()
    handler = TriggerHandler(config, push)
    handler.new_config(convert_response([
        TracePointConfig(ID="tp-capture", path=THIS_FILE, line_number=0,
                         args={"method_name": "compute", "stage": "method_capture"}),
        TracePointConfig(ID="tp-end", path=THIS_FILE, line_number=0,
                         args={"method_name": "compute", "stage": "method_end"}),
    ]))

    sys.settrace(handler.trace_call)
    try:
        compute(21)
    finally:
        sys.settrace(None)

    problems = []
    by_id = {snapshot.tracepoint.id: snapshot for snapshot in push.pushed}
    for tp_id in ["tp-capture", "tp-end"]:
        if tp_id not in by_id:
            problems.append("%s: no snapshot" % tp_id)
            continue
        if events.index("snapshot %s pushed" % tp_id) < events.index("body of compute ran"):
            problems.append("%s: the snapshot was taken and sent before the body of the method ran" % tp_id)
        names = [snapshot_var.name for snapshot_var in by_id[tp_id].frames[0].variables]
        if "result" not in names:
            problems.append("%s: locals in the snapshot are those at method entry: %s" % (tp_id, names))
    capture = by_id.get("tp-capture")
    if capture is not None and [w.expression for w in capture.watches] != ["return"]:
        problems.append("tp-capture: no 'return' watch result with the returned value, watches: %s"
                        % [w.expression for w in capture.watches])
    if problems:
        print("DEFECT: stage=method_capture / method_end is not acted on (order of events: %s)" % events)
        for problem in problems:
            print("  " + problem)
        return 1
    print("OK: %s" % events)
    return 0


if __name__ == '__main__':
    sys.exit(main())
