"""
obs6 (unmodified tree) - a condition is documented as "The condition that has to be 'truthy' for this tracepoint to
fire" (api/tracepoint/constants.py), but ActionContext.can_trigger converts the result with str2bool(str(result)): only
values whose text is yes/true/t/1/y count. A condition such as `len(items)` or `items` or `user` fires for len == 1 only
/ never, although the value is truthy.
"""
import faulthandler
import os
import sys

faulthandler.dump_traceback_later(60, exit=True)

# noinspection PyUnresolvedReferences
from deepproto.proto.tracepoint.v1.tracepoint_pb2 import TracePointConfig  # noqa: E402

from deep.api.resource import Resource  # noqa: E402
from deep.config import ConfigService  # noqa: E402
from deep.grpc import convert_response  # noqa: E402
from deep.processor.trigger_handler import TriggerHandler  # noqa: E402
from deep.push.push_service import PushService  # noqa: E402

THIS_FILE = os.path.basename(__file__)


class CollectingPush(PushService):
    def __init__(self):
        super().__init__(None, None)
        self.pushed = []

    def push_snapshot(self, snapshot):
        self.pushed.append(snapshot)


def target(items, user):
    a = 1  # TP-LINE-1
    b = 2  # TP-LINE-2
    c = 3  # TP-LINE-3
    d = 4  # TP-LINE-4
    return a + b + c + d


def line_of(marker):
    with open(__file__) as src:
        for no, text in enumerate(src, start=1):
            if text.rstrip().endswith("# " + marker):
                return no
    raise AssertionError(marker)


def main():
    config = ConfigService({})
    config.resource = Resource.create()
    push = CollectingPush()
    handler = TriggerHandler(config, push)
    conditions = [("tp-bool", "len(items) > 1"), ("tp-len", "len(items)"), ("tp-list", "items"), ("tp-str", "user")]
    handler.new_config(convert_response([
        TracePointConfig(ID=tp_id, path=THIS_FILE, line_number=line_of("TP-LINE-%d" % idx),
                         args={"condition": condition})
        for idx, (tp_id, condition) in enumerate(conditions, start=1)]))
    sys.settrace(handler.trace_call)
    try:
        target(["x", "y"], "bob")
    finally:
        sys.settrace(None)

    fired = [s.tracepoint.id for s in push.pushed]
    missing = [(tp_id, condition) for tp_id, condition in conditions if tp_id not in fired]
    if missing:
        print("DEFECT: tracepoints with a truthy condition did not fire (items=['x', 'y'], user='bob'): %s; fired: %s"
              % (missing, fired))
        return 1
    print("OK: %s" % fired)
    return 0


if __name__ == '__main__':
    sys.exit(main())
