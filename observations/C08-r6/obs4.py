"""
obs4 (unmodified tree, low severity): a frame whose 'self' has a class name that is not text costs the whole snapshot.

FrameCollector takes class_name = self.__class__.__name__ as it is (it only guards against the lookup raising). The
variable processor wraps the very same lookup in str() ("a type can refuse to tell its name"), the frame collector does
not. When the name is not a str (a metaclass that defines __name__ as a property returning something else), the
collected StackFrame.class_name is not text, StackFrame(class_name=...) raises TypeError in convert_snapshot, and the
snapshot - which was collected completely - is dropped. With frame_type=all_frame one such frame anywhere on the stack
is enough.

Real TriggerHandler via sys.settrace, real PushService / convert_snapshot, only the gRPC channel is a fake.
exit 1 + explanation when the snapshot is lost, exit 0 when it is sent.
"""
import faulthandler
import os
import sys

faulthandler.dump_traceback_later(60, exit=True)

from deep.api.resource import Resource  # noqa: E402
from deep.config import ConfigService  # noqa: E402
from deep.processor.trigger_handler import TriggerHandler  # noqa: E402
from deep.push import PushService  # noqa: E402
from deep.task import TaskHandler  # noqa: E402


class FakeChannel:
    def __init__(self):
        self.sent = []

    def unary_unary(self, method, request_serializer=None, response_deserializer=None, **kwargs):
        def call(request, metadata=None, **kw):
            self.sent.append(request_serializer(request))
        return call


class FakeGrpc:
    def __init__(self):
        self.channel = FakeChannel()

    def metadata(self):
        return []


class Registry(type):
    """A metaclass that numbers its classes and reports the number as the name."""

    @property
    def __name__(cls):
        return 5


class Handler(metaclass=Registry):
    def handle(self, a, b):
        total = a + b
        return total  # TRACEPOINT


def line_of(marker):
    with open(__file__) as source:
        for no, text in enumerate(source, start=1):
            if text.rstrip().endswith('# ' + marker):
                return no


def main():
    config = ConfigService({'APP_ROOT': os.path.dirname(__file__)})
    config.resource = Resource.create()
    tasks = TaskHandler()
    grpc = FakeGrpc()
    push = PushService(grpc, tasks)
    collected = []
    real_push = push.push_snapshot
    push.push_snapshot = lambda s: (collected.append(s), real_push(s))
    handler = TriggerHandler(config, push)
    config.tracepoints.add_custom(os.path.basename(__file__), line_of('TRACEPOINT'), {}, [], [])
    config.tracepoints.update_listeners(0, None, None, [], [])

    sys.settrace(handler.trace_call)
    try:
        Handler().handle(1, 2)
    finally:
        sys.settrace(None)
    tasks.flush()

    print('snapshots collected: %d, snapshot messages sent: %d' % (len(collected), len(grpc.channel.sent)))
    if collected:
        print('class_name of the top frame of the collected snapshot: %r' % (collected[0].frames[0].class_name,))
    if len(collected) == 1 and len(grpc.channel.sent) == 0:
        print('DEFECT: the snapshot was collected but dropped by convert_snapshot (class_name is not text)')
        return 1
    print('ok')
    return 0


if __name__ == '__main__':
    code = main()
    sys.stdout.flush()
    os._exit(code)
