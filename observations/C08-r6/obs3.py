"""
obs3 (unmodified tree, arguable): the auth provider is asked once per agent, not per request.

AuthProvider.provide() is documented as "called when we need to get the auth for the request", and the property says
every request carries the metadata supplied by the configured provider. GRPCService.metadata() caches the first answer
for the life of the agent, so a provider whose answer changes (an expiring / rotating token) is never asked again:
every later poll and snapshot goes out with the first (stale) value.

Real GRPCService + LongPoll.poll, the channel is a recording fake. The provider returns token-1, token-2, ... on
successive calls. exit 1 when later requests still carry token-1, exit 0 when each request got a fresh answer.
"""
import faulthandler
import os
import sys
import types

faulthandler.dump_traceback_later(60, exit=True)

from deepproto.proto.poll.v1.poll_pb2 import PollResponse, ResponseType  # noqa: E402

from deep.api.auth import AuthProvider  # noqa: E402
from deep.api.resource import Resource  # noqa: E402
from deep.config import ConfigService  # noqa: E402
from deep.grpc import GRPCService  # noqa: E402
from deep.poll import LongPoll  # noqa: E402


class RotatingTokenProvider(AuthProvider):
    calls = 0

    def provide(self):
        RotatingTokenProvider.calls += 1
        return [('authorization', 'Bearer token-%d' % RotatingTokenProvider.calls)]


module = types.ModuleType('obs3_provider')
module.RotatingTokenProvider = RotatingTokenProvider
sys.modules['obs3_provider'] = module


class FakeChannel:
    def __init__(self):
        self.metadata = []

    def unary_unary(self, method, request_serializer=None, response_deserializer=None, **kwargs):
        def call(request, metadata=None, **kw):
            self.metadata.append(list(metadata or []))
            return PollResponse(response_type=ResponseType.NO_CHANGE)
        return call


def main():
    config = ConfigService({'SERVICE_AUTH_PROVIDER': 'obs3_provider.RotatingTokenProvider'})
    config.resource = Resource.create()
    grpc = GRPCService(config)
    grpc.channel = FakeChannel()
    poll = LongPoll(config, grpc)
    for _ in range(3):
        poll.poll()
    for index, metadata in enumerate(grpc.channel.metadata):
        print('poll %d went out with %r' % (index, metadata))
    print('the provider was asked %d time(s) for 3 requests' % RotatingTokenProvider.calls)
    if RotatingTokenProvider.calls == 1 and grpc.channel.metadata[2] == grpc.channel.metadata[0]:
        print('DEFECT (arguable): requests 2 and 3 carry the value the provider gave for request 1')
        return 1
    print('ok')
    return 0


if __name__ == '__main__':
    code = main()
    sys.stdout.flush()
    os._exit(code)
