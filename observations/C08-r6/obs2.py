"""
obs2 (unmodified tree): a snapshot is lost when the wall clock is set back while it is being collected.

The timestamp of a snapshot is taken with time.time_ns() when the trace event starts (TriggerContext), the duration is
time.time_ns() - timestamp when the collection is complete (EventSnapshot.complete). time.time_ns() is the wall clock,
it is not monotonic: when it is stepped back in between (NTP step, VM resume, operator), the duration is negative.
Snapshot.duration_nanos is uint64: convert_snapshot raises ValueError, logs "Error converting to protobuf" and the
snapshot is dropped - nothing reaches the service.

The clock step is SIMULATED here (there is no way to step the real clock from a test): the 'time' module seen by
deep.utils is replaced by a shim whose time_ns() goes back by 2 seconds after its first call. Everything else is the
real code: TriggerHandler via sys.settrace, collection, PushService, convert_snapshot; only the gRPC channel is a fake.

exit 1 + explanation when the snapshot is lost, exit 0 when it is sent.
"""
import faulthandler
import os
import sys
import time

faulthandler.dump_traceback_later(60, exit=True)

import deep.utils  # noqa: E402
from deep.api.resource import Resource  # noqa: E402
from deep.config import ConfigService  # noqa: E402
from deep.processor.trigger_handler import TriggerHandler  # noqa: E402
from deep.push import PushService  # noqa: E402
from deep.task import TaskHandler  # noqa: E402


class SteppedClock:
    """The time module, with a wall clock that is set back by 2s after it was read once."""

    def __init__(self):
        self.reads = 0
        self.active = False

    def time_ns(self):
        if not self.active:
            return time.time_ns()
        self.reads += 1
        return time.time_ns() - (0 if self.reads == 1 else 2_000_000_000)

    def __getattr__(self, item):
        return getattr(time, item)


class FakeChannel:
    def __init__(self):
        self.sent = []

    def unary_unary(self, method, request_serializer=None, response_deserializer=None, **kwargs):
        def call(request, metadata=None, **kw):
            self.sent.append(request_serializer(request))
        return call


class FakeGrpc:
    def __init__(self):
        self.channel = FakeChannel()

    def metadata(self):
        return []


def target(a, b):
    total = a + b
    return total  # TRACEPOINT


def line_of(marker):
    with open(__file__) as source:
        for no, text in enumerate(source, start=1):
            if text.rstrip().endswith('# ' + marker):
                return no


def main():
    clock = SteppedClock()
    deep.utils.time = clock
    config = ConfigService({'APP_ROOT': os.path.dirname(__file__)})
    config.resource = Resource.create()
    tasks = TaskHandler()
    grpc = FakeGrpc()
    push = PushService(grpc, tasks)
    collected = []
    real_push = push.push_snapshot
    push.push_snapshot = lambda s: (collected.append(s), real_push(s))
    handler = TriggerHandler(config, push)
    config.tracepoints.add_custom(os.path.basename(__file__), line_of('TRACEPOINT'), {}, [], [])
    config.tracepoints.update_listeners(0, None, None, [], [])

    def tracer(frame, event, arg):
        # the clock is stepped during the trace event that hits the tracepoint
        if event == 'line' and frame.f_code is target.__code__ and frame.f_lineno == line_of('TRACEPOINT'):
            clock.active = True
        try:
            handler.trace_call(frame, event, arg)
        finally:
            clock.active = False
        return tracer

    sys.settrace(tracer)
    try:
        target(1, 2)
    finally:
        sys.settrace(None)
    tasks.flush()

    print('snapshots collected: %d, snapshot messages sent: %d' % (len(collected), len(grpc.channel.sent)))
    if collected:
        print('duration_nanos of the collected snapshot: %d' % collected[0].duration_nanos)
    if len(collected) == 1 and len(grpc.channel.sent) == 0:
        print('DEFECT: the snapshot was collected but dropped by convert_snapshot (negative duration_nanos)')
        return 1
    print('ok')
    return 0


if __name__ == '__main__':
    code = main()
    sys.stdout.flush()
    os._exit(code)
