"""
obs1 (unmodified tree): a tracepoint registered in code with a non-text argument value collects snapshots that can
never be sent.

Deep.register_tracepoint(path, line, args) is the in-code way to add a tracepoint. The action side accepts numbers for
numeric arguments (LocationAction.__get_int: "not even text ... when the action is configured in code"), so
{'fire_count': 3} works as a limit and the snapshot IS collected. But the snapshot carries the tracepoint (with its
args) and TracePointConfig.args is map<string, string> on the wire: convert_snapshot raises TypeError, logs
"Error converting to protobuf" and the snapshot is dropped. Nothing reaches the service.

No network needed: the real TriggerHandler is driven through sys.settrace, the real PushService/convert_snapshot run,
only the gRPC channel is a recording fake.

exit 1 + explanation when the defect is present, exit 0 when the snapshot is sent.
"""
import faulthandler
import os
import sys

faulthandler.dump_traceback_later(60, exit=True)

from deep.api.resource import Resource  # noqa: E402
from deep.config import ConfigService  # noqa: E402
from deep.processor.trigger_handler import TriggerHandler  # noqa: E402
from deep.push import PushService  # noqa: E402
from deep.task import TaskHandler  # noqa: E402


class FakeChannel:
    def __init__(self):
        self.sent = []

    def unary_unary(self, method, request_serializer=None, response_deserializer=None, **kwargs):
        def call(request, metadata=None, **kw):
            # serialise like the real channel would
            self.sent.append(request_serializer(request))
        return call


class FakeGrpc:
    def __init__(self):
        self.channel = FakeChannel()

    def metadata(self):
        return []


def target(a, b):
    total = a + b
    return total  # TRACEPOINT


def line_of(marker):
    with open(__file__) as source:
        for no, text in enumerate(source, start=1):
            if text.rstrip().endswith('# ' + marker):
                return no


def main():
    config = ConfigService({'APP_ROOT': os.path.dirname(__file__)})
    config.resource = Resource.create()
    tasks = TaskHandler()
    grpc = FakeGrpc()
    push = PushService(grpc, tasks)
    collected = []
    real_push = push.push_snapshot
    push.push_snapshot = lambda s: (collected.append(s), real_push(s))
    handler = TriggerHandler(config, push)
    # what Deep.register_tracepoint does (config.tracepoints.add_custom + listeners), without the background task
    config.tracepoints.add_custom(os.path.basename(__file__), line_of('TRACEPOINT'), {'fire_count': 3}, [], [])
    config.tracepoints.update_listeners(0, None, None, [], [])

    sys.settrace(handler.trace_call)
    try:
        target(1, 2)
    finally:
        sys.settrace(None)
    tasks.flush()

    print('snapshots collected: %d, snapshot messages sent: %d' % (len(collected), len(grpc.channel.sent)))
    if collected:
        print('tracepoint args of the collected snapshot: %r' % collected[0].tracepoint.args)
    if len(collected) == 1 and len(grpc.channel.sent) == 0:
        print('DEFECT: the snapshot was collected but dropped by convert_snapshot (args value is not text)')
        return 1
    print('ok')
    return 0


if __name__ == '__main__':
    code = main()
    sys.stdout.flush()
    os._exit(code)
