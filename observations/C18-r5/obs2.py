"""
Observation 2 (unmodified tree): an int attribute outside the signed 64 bit range is a valid value for
BoundedAttributes/Resource, but AnyValue.int_value cannot hold it. With such an attribute in the client resource every
poll raises ValueError and every snapshot is dropped.
"""
import logging
import sys

from deep.api.resource import Resource
from deep.grpc import convert_resource
from deep.push import convert_snapshot
from utils import mock_snapshot

logging.disable(logging.CRITICAL)

resource = Resource.create({"build.number": 2 ** 64})
print("stored value:", repr(resource.attributes.get("build.number")))
problems = []
try:
    convert_resource(resource)
except Exception as e:
    problems.append("convert_resource (used for every poll request) raises %s: %s" % (type(e).__name__, e))
if convert_snapshot(mock_snapshot(resource=resource)) is None:
    problems.append("convert_snapshot returns None: every snapshot of this client is silently dropped")
if problems:
    print("DEFECT: value accepted by the attribute store breaks the resource of every poll and snapshot")
    for problem in problems:
        print(" - " + problem)
    sys.exit(1)
print("no defect observed")
sys.exit(0)
