"""
Observation 3 (unmodified tree): an environment variable with a byte that is not UTF-8 (python decodes the environment
with surrogateescape, so the text contains a lone surrogate) becomes a "valid" str attribute of the resource. Protobuf
cannot encode it: every poll raises UnicodeEncodeError and every snapshot is dropped. (The push conversion has a helper
for exactly this problem in variable values, it is not used for attribute values.)
"""
import logging
import os
import sys

os.environb[b"DEEP_SERVICE_NAME"] = b"caf\xe9"  # latin-1 encoded name
os.environ.pop("DEEP_RESOURCE_ATTRIBUTES", None)

from deep.api.resource import Resource, SERVICE_NAME  # noqa: E402
from deep.grpc import convert_resource  # noqa: E402
from deep.push import convert_snapshot  # noqa: E402
from utils import mock_snapshot  # noqa: E402

logging.disable(logging.CRITICAL)

resource = Resource.create()
print("service.name from the environment:", ascii(resource.attributes.get(SERVICE_NAME)))
problems = []
try:
    convert_resource(resource)
except Exception as e:
    problems.append("convert_resource (used for every poll request) raises %s: %s" % (type(e).__name__, e))
if convert_snapshot(mock_snapshot(resource=resource)) is None:
    problems.append("convert_snapshot returns None: every snapshot of this client is silently dropped")
if problems:
    print("DEFECT: environment provided service name breaks the resource of every poll and snapshot")
    for problem in problems:
        print(" - " + problem)
    sys.exit(1)
print("no defect observed")
sys.exit(0)
