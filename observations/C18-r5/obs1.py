"""
Observation 1 (unmodified tree): a sequence attribute that contains None is accepted and stored as a valid cleaned value
by BoundedAttributes/Resource (this is explicitly supported: "None in sequences are valid"), but the protobuf conversion
cannot represent the None element. With such an attribute in the client resource every poll raises TypeError and every
snapshot is dropped (convert_snapshot returns None), so no poll/snapshot carries the resource at all.
"""
import logging
import sys

from deep.api.resource import Resource, SERVICE_NAME
from deep.grpc import convert_resource
from deep.push import convert_snapshot
from utils import mock_snapshot

logging.disable(logging.CRITICAL)

resource = Resource.create({"deployment.tags": ["blue", None, "eu"]})
stored = resource.attributes.get("deployment.tags")
print("stored value:", repr(stored), "service.name:", resource.attributes.get(SERVICE_NAME))
problems = []
if stored != ("blue", None, "eu"):
    print("the container did not store the value, nothing to observe")
    sys.exit(0)
try:
    converted = convert_resource(resource)
    keys = [kv.key for kv in converted.attributes]
    if SERVICE_NAME not in keys:
        problems.append("poll resource without service name")
except Exception as e:
    problems.append("convert_resource (used for every poll request) raises %s: %s" % (type(e).__name__, e))
snapshot = convert_snapshot(mock_snapshot(resource=resource))
if snapshot is None:
    problems.append("convert_snapshot returns None: every snapshot of this client is silently dropped")
if problems:
    print("DEFECT: value accepted by the attribute store breaks the resource of every poll and snapshot")
    for problem in problems:
        print(" - " + problem)
    sys.exit(1)
print("no defect observed")
sys.exit(0)
