"""
Observation 3 (unmodified tree): user code that runs outside of the guarded str() call loses the whole snapshot.

Two places in process_variable()/variable_to_string() run user code without a guard:
 a) __str__ may return an instance of a str subclass; truncate_string() then calls len() and slicing of that subclass.
 b) `variable_type.__name__` is looked up through the metaclass, a metaclass can define __name__ as a property.
Both are exotic, but they are 'objects whose str/len/attribute access raise' and cost the entire snapshot instead of
being replaced by a placeholder.

Run: cd @WT@ && PYTHONPATH=@WT@/src:@WT@/tests /venv/bin/python obs3.py
Exits 1 (and prints what is wrong) when the defect shows, 0 otherwise.
"""
import faulthandler
import inspect
import logging
import os
import sys
import threading  # noqa: F401
import time  # noqa: F401

faulthandler.dump_traceback_later(30, exit=True)
logging.disable(logging.CRITICAL)

from deep.api.resource import Resource  # noqa: E402
from deep.api.tracepoint.trigger import Location, LocationAction, LineLocation, Trigger  # noqa: E402
from deep.config import ConfigService  # noqa: E402
from deep.processor.trigger_handler import TriggerHandler  # noqa: E402
from deep.push import convert_snapshot  # noqa: E402,F401
from deep.push.push_service import PushService  # noqa: E402


class CapturePush(PushService):
    def __init__(self):
        super().__init__(None, None)
        self.pushed = []

    def push_snapshot(self, snapshot):
        self.pushed.append(snapshot)


class Config(ConfigService):
    @property
    def resource(self):
        return Resource.get_empty()


def line_of(func, marker):
    lines, start = inspect.getsourcelines(func)
    for offset, text in enumerate(lines):
        if marker in text:
            return start + offset
    raise AssertionError(marker)


def run(func, line, configs, plugins=(), file=None):
    """Install one snapshot tracepoint per config on the line, run func under the handler, return the snapshots."""
    config = Config({})
    config.plugins = list(plugins)
    push = CapturePush()
    handler = TriggerHandler(config, push)
    location = LineLocation(file or os.path.basename(func.__code__.co_filename), line, Location.Position.START)
    handler.new_config([Trigger(location, [LocationAction("tp-%d" % i, None, dict(c), LocationAction.ActionType.Snapshot)
                                           for i, c in enumerate(configs)])])
    sys.settrace(handler.trace_call)
    try:
        func()
    finally:
        sys.settrace(None)
    return push.pushed


def local_names(snapshot):
    return sorted(v.name for v in snapshot.frames[0].variables)


class Label(str):
    def __len__(self):
        raise RuntimeError("len of Label")


class Product:
    def __str__(self):
        return Label("product")


class Meta(type):
    @property
    def __name__(cls):
        raise RuntimeError("no name")


class Anonymous(metaclass=Meta):
    pass


def target_a():
    count = 41
    product = Product()
    return count, product  # TRACEPOINT A


def target_b():
    count = 41
    thing = Anonymous()
    return count, thing  # TRACEPOINT B


def main():
    problems = []
    pushed = run(target_a, line_of(target_a, "# TRACEPOINT A"), [{}])
    if len(pushed) != 1:
        problems.append("a) __str__ returns a str subclass whose __len__ raises: %d snapshots, expected 1" % len(pushed))
    pushed = run(target_b, line_of(target_b, "# TRACEPOINT B"), [{}])
    if len(pushed) != 1:
        problems.append("b) metaclass whose __name__ raises: %d snapshots, expected 1" % len(pushed))
    if problems:
        print("DEFECT: the whole snapshot is lost:\n  " + "\n  ".join(problems))
        return 1
    print("ok")
    return 0


if __name__ == '__main__':
    sys.exit(main())
