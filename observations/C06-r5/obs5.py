"""
Observation 5 (unmodified tree): a log message with a format spec loses the whole snapshot.

The fields of the log message of a snapshot tracepoint are replaced by their text (str) before string.Formatter
applies the format spec. Any spec that is not valid for str ('{count:d}', '{price:.2f}', '{when:%H:%M}') raises
ValueError in process_log(), which is called in the middle of SnapshotActionContext._process_action(): the frames and
variables that were already collected are thrown away and no snapshot is sent.

Run: cd @WT@ && PYTHONPATH=@WT@/src:@WT@/tests /venv/bin/python obs5.py
Exits 1 (and prints what is wrong) when the defect shows, 0 otherwise.
"""
import faulthandler
import inspect
import logging
import os
import sys
import threading  # noqa: F401
import time  # noqa: F401

faulthandler.dump_traceback_later(30, exit=True)
logging.disable(logging.CRITICAL)

from deep.api.resource import Resource  # noqa: E402
from deep.api.tracepoint.trigger import Location, LocationAction, LineLocation, Trigger  # noqa: E402
from deep.config import ConfigService  # noqa: E402
from deep.processor.trigger_handler import TriggerHandler  # noqa: E402
from deep.push import convert_snapshot  # noqa: E402,F401
from deep.push.push_service import PushService  # noqa: E402


class CapturePush(PushService):
    def __init__(self):
        super().__init__(None, None)
        self.pushed = []

    def push_snapshot(self, snapshot):
        self.pushed.append(snapshot)


class Config(ConfigService):
    @property
    def resource(self):
        return Resource.get_empty()


def line_of(func, marker):
    lines, start = inspect.getsourcelines(func)
    for offset, text in enumerate(lines):
        if marker in text:
            return start + offset
    raise AssertionError(marker)


def run(func, line, configs, plugins=(), file=None):
    """Install one snapshot tracepoint per config on the line, run func under the handler, return the snapshots."""
    config = Config({})
    config.plugins = list(plugins)
    push = CapturePush()
    handler = TriggerHandler(config, push)
    location = LineLocation(file or os.path.basename(func.__code__.co_filename), line, Location.Position.START)
    handler.new_config([Trigger(location, [LocationAction("tp-%d" % i, None, dict(c), LocationAction.ActionType.Snapshot)
                                           for i, c in enumerate(configs)])])
    sys.settrace(handler.trace_call)
    try:
        func()
    finally:
        sys.settrace(None)
    return push.pushed


def local_names(snapshot):
    return sorted(v.name for v in snapshot.frames[0].variables)


def target():
    count = 41
    price = 9.5
    return count, price  # TRACEPOINT


def main():
    pushed = run(target, line_of(target, "# TRACEPOINT"), [{'log_msg': 'count={count:d} price={price:.2f}'}])
    if len(pushed) != 1:
        print("DEFECT: log message 'count={count:d} price={price:.2f}' on a snapshot tracepoint: %d snapshots pushed, "
              "expected 1 (with the locals, and a log message or an error for it)" % len(pushed))
        return 1
    print("ok: snapshot produced, log message %r" % pushed[0].log_msg)
    return 0


if __name__ == '__main__':
    sys.exit(main())
