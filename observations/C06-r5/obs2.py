"""
Observation 2 (unmodified tree): text that is not valid UTF-8 outside of the variable values loses the snapshot.

deep.push.__text() repairs lone surrogates in variable values, variable names, watch expressions/errors and the log
message. The other strings of a snapshot go to protobuf unchanged: the file name / short path of a frame (python
decodes file names that are not UTF-8 with surrogateescape, so co_filename can contain lone surrogates) and the
attributes (the thread name added by the PythonPlugin decorator). convert_snapshot() then fails and returns None, so
nothing is sent.

Run: cd @WT@ && PYTHONPATH=@WT@/src:@WT@/tests /venv/bin/python obs2.py
Exits 1 (and prints what is wrong) when the defect shows, 0 otherwise.
"""
import faulthandler
import inspect
import logging
import os
import sys
import threading  # noqa: F401
import time  # noqa: F401

faulthandler.dump_traceback_later(30, exit=True)
logging.disable(logging.CRITICAL)

from deep.api.resource import Resource  # noqa: E402
from deep.api.tracepoint.trigger import Location, LocationAction, LineLocation, Trigger  # noqa: E402
from deep.config import ConfigService  # noqa: E402
from deep.processor.trigger_handler import TriggerHandler  # noqa: E402
from deep.push import convert_snapshot  # noqa: E402,F401
from deep.push.push_service import PushService  # noqa: E402


class CapturePush(PushService):
    def __init__(self):
        super().__init__(None, None)
        self.pushed = []

    def push_snapshot(self, snapshot):
        self.pushed.append(snapshot)


class Config(ConfigService):
    @property
    def resource(self):
        return Resource.get_empty()


def line_of(func, marker):
    lines, start = inspect.getsourcelines(func)
    for offset, text in enumerate(lines):
        if marker in text:
            return start + offset
    raise AssertionError(marker)


def run(func, line, configs, plugins=(), file=None):
    """Install one snapshot tracepoint per config on the line, run func under the handler, return the snapshots."""
    config = Config({})
    config.plugins = list(plugins)
    push = CapturePush()
    handler = TriggerHandler(config, push)
    location = LineLocation(file or os.path.basename(func.__code__.co_filename), line, Location.Position.START)
    handler.new_config([Trigger(location, [LocationAction("tp-%d" % i, None, dict(c), LocationAction.ActionType.Snapshot)
                                           for i, c in enumerate(configs)])])
    sys.settrace(handler.trace_call)
    try:
        func()
    finally:
        sys.settrace(None)
    return push.pushed


def local_names(snapshot):
    return sorted(v.name for v in snapshot.frames[0].variables)


from deep.api.plugin.python import PythonPlugin  # noqa: E402

SOURCE = """
def target():
    count = 41
    name = 'deep'
    return count, name  # TRACEPOINT
"""


def main():
    problems = []

    # 1. a source file in a directory whose name is not valid UTF-8 (as os.fsdecode gives it to python)
    file_name = os.fsdecode(b'/srv/app_\xff/billing.py')
    namespace = {}
    exec(compile(SOURCE, file_name, 'exec'), namespace)
    pushed = run(namespace['target'], 5, [{}], file='billing.py')
    if len(pushed) != 1:
        problems.append("file name: expected 1 snapshot, got %d" % len(pushed))
    elif convert_snapshot(pushed[0]) is None:
        problems.append("file name %a: snapshot with locals %s is collected, but convert_snapshot() returns None "
                        "(nothing is sent)" % (file_name, local_names(pushed[0])))

    # 2. a thread whose name is not valid UTF-8, with the PythonPlugin snapshot decorator (adds 'thread_name')
    def target():
        count = 41
        return count  # TRACEPOINT

    result = []
    thread = threading.Thread(target=lambda: result.extend(
        run(target, line_of(target, "# TRACEPOINT"), [{}], plugins=[PythonPlugin()])),
        name=os.fsdecode(b'worker-\xff'))
    thread.start()
    thread.join()
    if len(result) != 1:
        problems.append("thread name: expected 1 snapshot, got %d" % len(result))
    elif convert_snapshot(result[0]) is None:
        problems.append("thread name %a: snapshot with locals %s is collected, but convert_snapshot() returns None "
                        "(nothing is sent)" % (thread.name, local_names(result[0])))

    if problems:
        print("DEFECT: text that is not valid UTF-8 loses the snapshot:\n  " + "\n  ".join(problems))
        return 1
    print("ok")
    return 0


if __name__ == '__main__':
    sys.exit(main())
