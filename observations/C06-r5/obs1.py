"""
Observation 1 (unmodified tree): a user type that is *named* like a built-in collection loses the whole snapshot.

variable_to_string() decides by the NAME of the type ('list', 'set', 'tuple', 'frozenset') that the value is a
collection and calls len() on it - outside of the try block that guards str(). An application class called `list`
(or `set`, ...) that has no __len__, or whose __len__ raises, makes len() raise and the snapshot of the frame is lost.

Run: cd @WT@ && PYTHONPATH=@WT@/src:@WT@/tests /venv/bin/python obs1.py
Exits 1 (and prints what is wrong) when the defect shows, 0 otherwise.
"""
import faulthandler
import inspect
import logging
import os
import sys
import threading  # noqa: F401
import time  # noqa: F401

faulthandler.dump_traceback_later(30, exit=True)
logging.disable(logging.CRITICAL)

from deep.api.resource import Resource  # noqa: E402
from deep.api.tracepoint.trigger import Location, LocationAction, LineLocation, Trigger  # noqa: E402
from deep.config import ConfigService  # noqa: E402
from deep.processor.trigger_handler import TriggerHandler  # noqa: E402
from deep.push import convert_snapshot  # noqa: E402,F401
from deep.push.push_service import PushService  # noqa: E402


class CapturePush(PushService):
    def __init__(self):
        super().__init__(None, None)
        self.pushed = []

    def push_snapshot(self, snapshot):
        self.pushed.append(snapshot)


class Config(ConfigService):
    @property
    def resource(self):
        return Resource.get_empty()


def line_of(func, marker):
    lines, start = inspect.getsourcelines(func)
    for offset, text in enumerate(lines):
        if marker in text:
            return start + offset
    raise AssertionError(marker)


def run(func, line, configs, plugins=(), file=None):
    """Install one snapshot tracepoint per config on the line, run func under the handler, return the snapshots."""
    config = Config({})
    config.plugins = list(plugins)
    push = CapturePush()
    handler = TriggerHandler(config, push)
    location = LineLocation(file or os.path.basename(func.__code__.co_filename), line, Location.Position.START)
    handler.new_config([Trigger(location, [LocationAction("tp-%d" % i, None, dict(c), LocationAction.ActionType.Snapshot)
                                           for i, c in enumerate(configs)])])
    sys.settrace(handler.trace_call)
    try:
        func()
    finally:
        sys.settrace(None)
    return push.pushed


def local_names(snapshot):
    return sorted(v.name for v in snapshot.frames[0].variables)


# an application type that happens to be called 'set' (e.g. a rule set, a tile set); it has no __len__
RuleSet = type('set', (), {'__init__': lambda self: setattr(self, 'rules', ['a', 'b'])})


def target():
    count = 41
    rules = RuleSet()
    return count, rules  # TRACEPOINT


def main():
    pushed = run(target, line_of(target, "# TRACEPOINT"), [{}])
    if len(pushed) != 1:
        print("DEFECT: a local of a user type named 'set' (without __len__) lost the whole snapshot: %d snapshots "
              "pushed, expected 1 with count intact and a placeholder for rules" % len(pushed))
        return 1
    print("ok: snapshot produced with locals %s" % local_names(pushed[0]))
    return 0


if __name__ == '__main__':
    sys.exit(main())
