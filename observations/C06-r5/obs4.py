"""
Observation 4 (unmodified tree): two tracepoints on one line, the slow collection of the first empties the second.

FrameCollector stops collecting variables when more than MAX_TP_PROCESS_TIME (100 ms) have passed since the
TriggerContext was created. That timestamp belongs to the trace event, not to the tracepoint: all tracepoints that
share the event share the budget. When the first snapshot takes longer than 100 ms (here: a local whose __str__
sleeps 150 ms) the second tracepoint gets a snapshot without any variable, although its own collection did not even
start. The snapshots of tracepoints sharing a trace event are therefore not independent.

Run: cd @WT@ && PYTHONPATH=@WT@/src:@WT@/tests /venv/bin/python obs4.py
Exits 1 (and prints what is wrong) when the defect shows, 0 otherwise.
"""
import faulthandler
import inspect
import logging
import os
import sys
import threading  # noqa: F401
import time  # noqa: F401

faulthandler.dump_traceback_later(30, exit=True)
logging.disable(logging.CRITICAL)

from deep.api.resource import Resource  # noqa: E402
from deep.api.tracepoint.trigger import Location, LocationAction, LineLocation, Trigger  # noqa: E402
from deep.config import ConfigService  # noqa: E402
from deep.processor.trigger_handler import TriggerHandler  # noqa: E402
from deep.push import convert_snapshot  # noqa: E402,F401
from deep.push.push_service import PushService  # noqa: E402


class CapturePush(PushService):
    def __init__(self):
        super().__init__(None, None)
        self.pushed = []

    def push_snapshot(self, snapshot):
        self.pushed.append(snapshot)


class Config(ConfigService):
    @property
    def resource(self):
        return Resource.get_empty()


def line_of(func, marker):
    lines, start = inspect.getsourcelines(func)
    for offset, text in enumerate(lines):
        if marker in text:
            return start + offset
    raise AssertionError(marker)


def run(func, line, configs, plugins=(), file=None):
    """Install one snapshot tracepoint per config on the line, run func under the handler, return the snapshots."""
    config = Config({})
    config.plugins = list(plugins)
    push = CapturePush()
    handler = TriggerHandler(config, push)
    location = LineLocation(file or os.path.basename(func.__code__.co_filename), line, Location.Position.START)
    handler.new_config([Trigger(location, [LocationAction("tp-%d" % i, None, dict(c), LocationAction.ActionType.Snapshot)
                                           for i, c in enumerate(configs)])])
    sys.settrace(handler.trace_call)
    try:
        func()
    finally:
        sys.settrace(None)
    return push.pushed


def local_names(snapshot):
    return sorted(v.name for v in snapshot.frames[0].variables)


class SlowToPrint:
    def __str__(self):
        time.sleep(0.15)
        return "slow"


def target():
    count = 41
    slow = SlowToPrint()
    return count, slow  # TRACEPOINT


def main():
    pushed = run(target, line_of(target, "# TRACEPOINT"), [{}, {}])
    if len(pushed) != 2:
        print("unexpected: %d snapshots" % len(pushed))
        return 1
    first, second = local_names(pushed[0]), local_names(pushed[1])
    if first != second:
        print("DEFECT: two tracepoints on the same line: %s has locals %s, %s has locals %s (the time the first "
              "collection took was charged to the second)" % (pushed[0].tracepoint.id, first, pushed[1].tracepoint.id,
                                                              second))
        return 1
    print("ok: both snapshots have locals %s" % first)
    return 0


if __name__ == '__main__':
    sys.exit(main())
