"""
Observation about the UNMODIFIED tree (C08): a collected snapshot that is never sent.

A tracepoint registered in code with an argument whose value is None (here {'fire_count': None}, "no explicit fire
count") is accepted: the agent treats the argument as unset (LocationAction.__get_int falls back to the default), fires
and collects a snapshot. The tracepoint of the snapshot carries the argument as it was given (None), and
deep.push.__text() passes None through, so the protobuf map TracePointConfig.args is given a None value,
convert_snapshot() fails ("Error converting to protobuf", TypeError) and returns None, and PushService drops the
snapshot silently: the service receives nothing.

Real TracepointConfigService.add_custom, TriggerHandler (sys.settrace), PushService, TaskHandler, GRPCService and a
local gRPC server on an ephemeral port. Exit 1 (and a description) when the defect is present.
"""
import logging
import os
import sys
import threading
import time
from concurrent import futures

import grpc
# noinspection PyUnresolvedReferences
from deepproto.proto.tracepoint.v1.tracepoint_pb2 import SnapshotResponse
from deepproto.proto.tracepoint.v1.tracepoint_pb2_grpc import SnapshotServiceServicer, \
    add_SnapshotServiceServicer_to_server

from deep.api.resource import Resource
from deep.config import ConfigService
from deep.grpc import GRPCService
from deep.processor.trigger_handler import TriggerHandler
from deep.push import PushService
from deep.task import TaskHandler


class Servicer(SnapshotServiceServicer):
    def __init__(self):
        self.received = []
        self.condition = threading.Condition()

    def send(self, request, context):
        with self.condition:
            self.received.append(request)
            self.condition.notify_all()
        return SnapshotResponse()

    def wait_for(self, count, timeout=20):
        with self.condition:
            self.condition.wait_for(lambda: len(self.received) >= count, timeout)
        return list(self.received)


class RecordingPush(PushService):
    def __init__(self, grpc_service, task_handler):
        super().__init__(grpc_service, task_handler)
        self.pushed = []

    def push_snapshot(self, snapshot):
        self.pushed.append(snapshot)
        super().push_snapshot(snapshot)


def control_target(order):
    total = order * 2
    return total  # CONTROL TRACEPOINT


def target(order):
    total = order * 3
    return total  # TRACEPOINT


def line_of(marker):
    with open(__file__) as source:
        for number, text in enumerate(source, 1):
            if text.rstrip().endswith(marker):
                return number
    raise RuntimeError("marker not found")


def main():
    logging.disable(logging.CRITICAL)
    servicer = Servicer()
    server = grpc.server(futures.ThreadPoolExecutor(max_workers=4))
    add_SnapshotServiceServicer_to_server(servicer, server)
    port = server.add_insecure_port('127.0.0.1:0')
    server.start()

    config = ConfigService({'SERVICE_URL': '127.0.0.1:%d' % port, 'SERVICE_SECURE': 'False',
                            'APP_ROOT': os.path.dirname(os.path.abspath(__file__))})
    config.resource = Resource.create({'service.name': 'obs1'})
    grpc_service = GRPCService(config)
    grpc_service.start()
    tasks = TaskHandler()
    config.set_task_handler(tasks)
    push = RecordingPush(grpc_service, tasks)
    handler = TriggerHandler(config, push)
    file = os.path.basename(__file__)
    # what Deep.register_tracepoint does
    config.tracepoints.add_custom(file, line_of('# CONTROL TRACEPOINT'), {'fire_count': 5}, [], [])
    config.tracepoints.add_custom(file, line_of('# TRACEPOINT'), {'fire_count': None}, [], [])
    deadline = time.time() + 10
    # noinspection PyProtectedMember
    while len(handler._tp_config) < 2 and time.time() < deadline:
        time.sleep(0.05)

    def run():
        sys.settrace(handler.trace_call)
        try:
            control_target(21)
            target(21)
        finally:
            sys.settrace(None)

    thread = threading.Thread(target=run)
    thread.start()
    thread.join(20)
    tasks.flush()
    received = servicer.wait_for(2, timeout=5)
    server.stop(1)

    print("snapshots collected and handed to the push service: %d" % len(push.pushed))
    for snapshot in push.pushed:
        print("   tracepoint args: %r" % (snapshot.tracepoint.args,))
    print("snapshots received by the service: %d" % len(received))
    for message in received:
        print("   tracepoint args: %r" % (dict(message.tracepoint.args),))
    if len(push.pushed) == 2 and len(received) == 2:
        print("OK: every collected snapshot was received")
        return 0
    print("DEFECT: the snapshot of the tracepoint registered with {'fire_count': None} was collected but never sent "
          "(convert_snapshot fails on the None argument value and the push service drops the snapshot)")
    return 1


if __name__ == '__main__':
    sys.exit(main())
