"""
obs2 - UNMODIFIED tree: with frame_type=all_frame the budget is NOT spent breadth-first over the snapshot.

Every frame is searched to its full depth before the next frame is looked at, so the contents of one large structure in
the innermost frame (values at depth 2, 3, 4) use up MAX_VARIABLES and the callers' own local variables (depth 1 of
their frame) are not recorded at all - 'deeper' values win over 'shallower' ones. The watches of the tracepoint
are crowded out the same way (they are evaluated after all frames) and only report 'max variables reached'.

Exits 1 and prints what is wrong on the unmodified tree.
"""
import importlib.util
import os
import sys
import tempfile

from deep.api.resource import Resource
from deep.api.tracepoint.trigger import Trigger, LineLocation, Location, LocationAction
from deep.config import ConfigService
from deep.processor.trigger_handler import TriggerHandler
from deep.push.push_service import PushService

MAX_VARIABLES = 40

TARGET = '''
def inner():
    big = {"k%d" % i: {"a": {"b": 1000 + i}} for i in range(30)}
    return big  # TRACEPOINT


def caller():
    order_id = 777001
    customer = "alice"
    return inner()
'''


class RecordingPush(PushService):
    def __init__(self):
        super().__init__(None, None)
        self.pushed = []

    def push_snapshot(self, snapshot):
        self.pushed.append(snapshot)


class Config(ConfigService):
    @property
    def resource(self):
        return Resource.get_empty()


def take_snapshot(source, action_config):
    handle, path = tempfile.mkstemp(suffix=".py", prefix="c05_obs2_")
    try:
        with os.fdopen(handle, "w") as out:
            out.write(source)
        line = [i for i, text in enumerate(source.splitlines(), 1) if "# TRACEPOINT" in text][0]
        spec = importlib.util.spec_from_file_location("c05_obs2_target", path)
        module = importlib.util.module_from_spec(spec)
        spec.loader.exec_module(module)
        push = RecordingPush()
        handler = TriggerHandler(Config({}), push)
        handler.new_config([Trigger(LineLocation(os.path.basename(path), line, Location.Position.START), [
            LocationAction("tp-obs2", None, action_config, LocationAction.ActionType.Snapshot)])])
        sys.settrace(handler.trace_call)
        try:
            module.caller()
        finally:
            sys.settrace(None)
        return push.pushed
    finally:
        os.remove(path)


def depth_of(snapshot, frame):
    """Depth (1 = a local of the frame) of the deepest value recorded below the frame."""
    deepest, level, seen = 0, list(frame.variables), set()
    while level:
        deepest += 1
        following = []
        for ref in level:
            if ref.vid in seen or ref.vid not in snapshot.var_lookup:
                continue
            seen.add(ref.vid)
            following += snapshot.var_lookup[ref.vid].children
        level = following
    return deepest


def main():
    pushed = take_snapshot(TARGET, {'MAX_VARIABLES': MAX_VARIABLES, 'frame_type': 'all_frame',
                                    'watches': ['len(big)']})
    assert len(pushed) == 1, pushed
    snapshot = pushed[0]
    inner, caller = snapshot.frames[0], snapshot.frames[1]
    assert (inner.method_name, caller.method_name) == ('inner', 'caller'), (inner.method_name, caller.method_name)
    problems = []
    deepest = depth_of(snapshot, inner)
    caller_locals = [v.name for v in caller.variables]
    if deepest > 1 and sorted(caller_locals) != ['customer', 'order_id']:
        problems.append("frame 'inner' is recorded down to depth %d (%d variables in the snapshot, MAX_VARIABLES=%d), "
                        "but the locals of frame 'caller' (depth 1: order_id, customer) are missing: %s"
                        % (deepest, len(snapshot.var_lookup), MAX_VARIABLES, caller_locals))
    for watch in snapshot.watches:
        if watch.result is None and deepest > 1:
            problems.append("watch %r (depth 0) was not recorded: %s" % (watch.expression, watch.error))
    if problems:
        print("DEFECT (unmodified tree): deeper values crowd out shallower ones when all frames are collected:")
        for problem in problems:
            print("  - " + problem)
        return 1
    print("not reproduced")
    return 0


if __name__ == '__main__':
    sys.exit(main())
