"""
obs1 - UNMODIFIED tree: a string value can leave the agent longer than MAX_STRING_LENGTH.

The collector cuts the text to MAX_STRING_LENGTH characters, but the conversion to the wire format (deep.push.__text)
escapes every lone surrogate of the cut text as six characters ('\\udc80') afterwards, without cutting again. A local
that holds undecodable bytes read with errors='surrogateescape' (os.fsdecode of a file name, sys.argv, os.environ ...)
is sent up to six times as long as the limit, and `truncated` does not say so.

Exits 1 and prints what is wrong on the unmodified tree.
"""
import importlib.util
import os
import sys
import tempfile

from deep.api.resource import Resource
from deep.api.tracepoint.trigger import Trigger, LineLocation, Location, LocationAction
from deep.config import ConfigService
from deep.processor.trigger_handler import TriggerHandler
from deep.push import convert_snapshot
from deep.push.push_service import PushService

MAX_STRING_LENGTH = 16

TARGET = '''
def target():
    short = b"\\xff\\xfe\\xfd\\xfc\\xfb\\xfa\\xf9\\xf8".decode("utf-8", "surrogateescape")
    long = (b"\\xff" * 400).decode("utf-8", "surrogateescape")
    return short, long  # TRACEPOINT
'''


class RecordingPush(PushService):
    def __init__(self):
        super().__init__(None, None)
        self.pushed = []

    def push_snapshot(self, snapshot):
        self.pushed.append(snapshot)


class Config(ConfigService):
    @property
    def resource(self):
        return Resource.get_empty()


def take_snapshot(source, action_config):
    handle, path = tempfile.mkstemp(suffix=".py", prefix="c05_obs1_")
    try:
        with os.fdopen(handle, "w") as out:
            out.write(source)
        line = [i for i, text in enumerate(source.splitlines(), 1) if "# TRACEPOINT" in text][0]
        spec = importlib.util.spec_from_file_location("c05_obs1_target", path)
        module = importlib.util.module_from_spec(spec)
        spec.loader.exec_module(module)
        push = RecordingPush()
        handler = TriggerHandler(Config({}), push)
        handler.new_config([Trigger(LineLocation(os.path.basename(path), line, Location.Position.START), [
            LocationAction("tp-obs1", None, action_config, LocationAction.ActionType.Snapshot)])])
        sys.settrace(handler.trace_call)
        try:
            module.target()
        finally:
            sys.settrace(None)
        return push.pushed
    finally:
        os.remove(path)


def main():
    pushed = take_snapshot(TARGET, {'MAX_STRING_LENGTH': MAX_STRING_LENGTH})
    assert len(pushed) == 1, pushed
    wire = convert_snapshot(pushed[0])
    assert wire is not None
    names = {v.name: v.ID for v in wire.frames[0].variables}
    problems = []
    for name in ('short', 'long'):
        variable = wire.var_lookup[names[name]]
        internal = pushed[0].var_lookup[names[name]]
        if len(variable.value) > MAX_STRING_LENGTH:
            problems.append("%s: %d characters collected (truncated=%s), %d characters in the Snapshot message "
                            "(truncated=%s); MAX_STRING_LENGTH is %d: %r..."
                            % (name, len(internal.value), internal.truncated, len(variable.value), variable.truncated,
                               MAX_STRING_LENGTH, variable.value[:30]))
    if problems:
        print("DEFECT (unmodified tree): string values longer than MAX_STRING_LENGTH are sent:")
        for problem in problems:
            print("  - " + problem)
        return 1
    print("not reproduced")
    return 0


if __name__ == '__main__':
    sys.exit(main())
