"""
Observation 4 (unmodified tree): metrics of tracepoints registered alongside each other are lost in the Prometheus
plugin (shipped and loaded by default) when they have the same metric name. PrometheusPlugin caches the collector by
'<name>_<type>' only; the namespace and the label names of the metric that comes first win:
 - a second registration with the same metric name but other label names -> ValueError('Incorrect label names') is
   logged, nothing is recorded for it
 - a third registration with the same name in another namespace -> is looked up as the first collector as well, fails
   the same way (and no 'other_...' metric ever exists)
Each of the registrations works when it is the only one.

Exit 1 when the defect is reproduced, 0 when not.
"""
import faulthandler
import importlib.util
import logging
import os
import shutil
import sys
import tempfile

faulthandler.dump_traceback_later(120, exit=True)

from deep.api.deep import Deep  # noqa: E402
from deep.api.resource import Resource  # noqa: E402
from deep.api.tracepoint.constants import FIRE_COUNT, FIRE_PERIOD, METHOD_NAME, STAGE, METHOD_CAPTURE, SNAPSHOT, \
    NO_COLLECT  # noqa: E402,F401
from deep.config import ConfigService  # noqa: E402

logging.getLogger().addHandler(logging.NullHandler())
logging.getLogger("deep").addHandler(logging.NullHandler())

SOURCE = '''def work(x):
    y = x + 100
    z = y * 2
    return z
'''

tmp = tempfile.mkdtemp()
exit_code = 0
try:
    file_name = "c13_obs_target_%d.py" % os.getpid()
    path = os.path.join(tmp, file_name)
    with open(path, "w") as f:
        f.write(SOURCE)
    spec = importlib.util.spec_from_file_location(file_name[:-3], path)
    target = importlib.util.module_from_spec(spec)
    spec.loader.exec_module(target)

    config = ConfigService({'SERVICE_URL': '127.0.0.1:1', 'SERVICE_SECURE': 'False'})
    config.resource = Resource.create()
    from deep.api.plugin.metric.prometheus_metrics import PrometheusPlugin
    prometheus = PrometheusPlugin(config)
    config.plugins = [prometheus]
    deep = Deep(config)  # not started: no network, we install the trace function ourselves
    pushed = []
    deep.push.push_snapshot = pushed.append


    def settle():
        for future in list(deep.task_handler._pending.values()):
            future.result(30)


    def run_traced(arg=1):
        sys.settrace(deep.trigger_handler.trace_call)
        try:
            target.work(arg)
        finally:
            sys.settrace(None)

    from prometheus_client import REGISTRY
    from deep.api.tracepoint.tracepoint_config import MetricDefinition, LabelExpression

    always = {FIRE_COUNT: '-1', FIRE_PERIOD: '0', SNAPSHOT: NO_COLLECT}
    definitions = {
        "first": MetricDefinition('c13_obs4_hits', 'counter', [LabelExpression('where', 'first')]),
        "second": MetricDefinition('c13_obs4_hits', 'counter', [LabelExpression('site', 'second')]),
        "third": MetricDefinition('c13_obs4_hits', 'counter', namespace='other'),
    }
    samples = {"first": ('deep_c13_obs4_hits_total', {'where': 'first'}),
               "second": ('deep_c13_obs4_hits_total', {'site': 'second'}),
               "third": ('other_c13_obs4_hits_total', {})}


    def recorded():
        return {key: REGISTRY.get_sample_value(*sample) for key, sample in samples.items()}


    try:
        alone = {}
        for key, definition in definitions.items():
            registration = deep.register_tracepoint(file_name, 2, dict(always), [], [definition])
            settle()
            run_traced(1)
            alone[key] = recorded()[key]
            registration.unregister()
            settle()
            prometheus.clear()

        registrations = [deep.register_tracepoint(file_name, 2, dict(always), [], [definition])
                         for definition in definitions.values()]
        settle()
        run_traced(1)
        together = recorded()
        for registration in registrations:
            registration.unregister()
        settle()
    finally:
        prometheus.clear()
    if all(value == 1.0 for value in alone.values()) and any(value != 1.0 for value in together.values()):
        print("DEFECT: value recorded per registration when it is the only one: %s; when the three are registered "
              "alongside each other on the same line: %s" % (alone, together))
        exit_code = 1
    else:
        print("not reproduced: alone %s, together %s" % (alone, together))
finally:
    shutil.rmtree(tmp, ignore_errors=True)
sys.exit(exit_code)
