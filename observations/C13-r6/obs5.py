"""
Observation 5 (unmodified tree, not specific to registration in code): the argument stage=method_capture (or
line_capture) has no effect on a real tracepoint. build_snapshot_action (deep/api/tracepoint/trigger.py) does not copy
'stage' into the config of the action, and SnapshotActionContext._is_deferred looks for it there. So

  register_tracepoint(file, -1, {METHOD_NAME: 'work', STAGE: METHOD_CAPTURE})

sends its snapshot at the start of the method and never captures the returned value (watch 'return'), although the
location is built for the capture stage. Only unit tests that construct LocationAction(..., {STAGE: METHOD_CAPTURE})
by hand get the deferred behaviour.

Exit 1 when the defect is reproduced, 0 when not.
"""
import faulthandler
import importlib.util
import logging
import os
import shutil
import sys
import tempfile

faulthandler.dump_traceback_later(120, exit=True)

from deep.api.deep import Deep  # noqa: E402
from deep.api.resource import Resource  # noqa: E402
from deep.api.tracepoint.constants import FIRE_COUNT, FIRE_PERIOD, METHOD_NAME, STAGE, METHOD_CAPTURE, SNAPSHOT, \
    NO_COLLECT  # noqa: E402,F401
from deep.config import ConfigService  # noqa: E402

logging.getLogger().addHandler(logging.NullHandler())
logging.getLogger("deep").addHandler(logging.NullHandler())

SOURCE = '''def work(x):
    y = x + 100
    z = y * 2
    return z
'''

tmp = tempfile.mkdtemp()
exit_code = 0
try:
    file_name = "c13_obs_target_%d.py" % os.getpid()
    path = os.path.join(tmp, file_name)
    with open(path, "w") as f:
        f.write(SOURCE)
    spec = importlib.util.spec_from_file_location(file_name[:-3], path)
    target = importlib.util.module_from_spec(spec)
    spec.loader.exec_module(target)

    config = ConfigService({'SERVICE_URL': '127.0.0.1:1', 'SERVICE_SECURE': 'False'})
    config.resource = Resource.create()
    pass
    deep = Deep(config)  # not started: no network, we install the trace function ourselves
    pushed = []
    deep.push.push_snapshot = pushed.append


    def settle():
        for future in list(deep.task_handler._pending.values()):
            future.result(30)


    def run_traced(arg=1):
        sys.settrace(deep.trigger_handler.trace_call)
        try:
            target.work(arg)
        finally:
            sys.settrace(None)

    registration = deep.register_tracepoint(file_name, -1, {METHOD_NAME: 'work', STAGE: METHOD_CAPTURE,
                                                            FIRE_COUNT: '-1', FIRE_PERIOD: '0'})
    settle()
    run_traced(1)
    registration.unregister()
    settle()
    watches = [[watch.expression for watch in snapshot.watches] for snapshot in pushed]
    if watches != [['return']]:
        print("DEFECT: a tracepoint registered with stage=method_capture on work() created snapshots with the watches "
              "%s, expected one snapshot with the captured ['return'] value (204)" % watches)
        exit_code = 1
    else:
        print("not reproduced: %s" % watches)
finally:
    shutil.rmtree(tmp, ignore_errors=True)
sys.exit(exit_code)
