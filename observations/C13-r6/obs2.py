"""
Observation 2 (unmodified tree): a tracepoint registered in code with numbers as argument values, e.g.
register_tracepoint(file, 2, {FIRE_COUNT: -1, FIRE_PERIOD: 0}), fires (LocationAction accepts the numbers for the
limits) but none of its snapshots can be sent: the arguments are copied as they are into the tracepoint description of
the snapshot, protobuf wants text there, deep.push.convert_snapshot logs 'Error converting to protobuf' and returns
None, and PushService._push_task then drops the snapshot. (The annotation of register_tracepoint says Dict[str, str],
so one can call this misuse, but nothing tells the caller: the registration succeeds, the tracepoint fires, and the data
never arrives.) The same registration with '-1' and '0' as text works.

Exit 1 when the defect is reproduced, 0 when not.
"""
import faulthandler
import importlib.util
import logging
import os
import shutil
import sys
import tempfile

faulthandler.dump_traceback_later(120, exit=True)

from deep.api.deep import Deep  # noqa: E402
from deep.api.resource import Resource  # noqa: E402
from deep.api.tracepoint.constants import FIRE_COUNT, FIRE_PERIOD, METHOD_NAME, STAGE, METHOD_CAPTURE, SNAPSHOT, \
    NO_COLLECT  # noqa: E402,F401
from deep.config import ConfigService  # noqa: E402

logging.getLogger().addHandler(logging.NullHandler())
logging.getLogger("deep").addHandler(logging.NullHandler())

SOURCE = '''def work(x):
    y = x + 100
    z = y * 2
    return z
'''

tmp = tempfile.mkdtemp()
exit_code = 0
try:
    file_name = "c13_obs_target_%d.py" % os.getpid()
    path = os.path.join(tmp, file_name)
    with open(path, "w") as f:
        f.write(SOURCE)
    spec = importlib.util.spec_from_file_location(file_name[:-3], path)
    target = importlib.util.module_from_spec(spec)
    spec.loader.exec_module(target)

    config = ConfigService({'SERVICE_URL': '127.0.0.1:1', 'SERVICE_SECURE': 'False'})
    config.resource = Resource.create()
    pass
    deep = Deep(config)  # not started: no network, we install the trace function ourselves
    pushed = []
    deep.push.push_snapshot = pushed.append


    def settle():
        for future in list(deep.task_handler._pending.values()):
            future.result(30)


    def run_traced(arg=1):
        sys.settrace(deep.trigger_handler.trace_call)
        try:
            target.work(arg)
        finally:
            sys.settrace(None)

    from deep.push import convert_snapshot

    registration = deep.register_tracepoint(file_name, 2, {FIRE_COUNT: -1, FIRE_PERIOD: 0}, ['x'])
    settle()
    run_traced(1)
    run_traced(2)
    numbers = [convert_snapshot(snapshot) is not None for snapshot in pushed]
    registration.unregister()
    del pushed[:]
    registration = deep.register_tracepoint(file_name, 2, {FIRE_COUNT: '-1', FIRE_PERIOD: '0'}, ['x'])
    settle()
    run_traced(1)
    run_traced(2)
    text = [convert_snapshot(snapshot) is not None for snapshot in pushed]
    if text == [True, True] and numbers != [True, True]:
        print("DEFECT: registered with {fire_count: -1, fire_period: 0} (numbers) the tracepoint created %d snapshots, "
              "convertible to the wire format: %s; registered with the same values as text: %s" % (
                  len(numbers), numbers, text))
        exit_code = 1
    else:
        print("not reproduced: numbers %s, text %s" % (numbers, text))
finally:
    shutil.rmtree(tmp, ignore_errors=True)
sys.exit(exit_code)
