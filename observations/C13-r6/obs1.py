"""
Observation 1 (unmodified tree): two handles unregistered at the same time from two threads remove the wrong tracepoint.

TracepointConfigService.remove_custom looks up the index of the tracepoint in self._custom and then deletes that index,
without a lock. When another thread removes an earlier entry in between, the index refers to the NEXT registration.

  A, B, C registered (lines 2, 3, 4 of work()).
  thread 2: B.unregister()  ... has found index 1, is about to 'del self._custom[1]'
  thread 1: A.unregister()  ... removes index 0, B is now at index 0 and C at index 1
  thread 2: continues, deletes index 1 -> C

Result: B (unregistered) stays active for good (its id is forgotten, B.unregister() does nothing any more), C (never
unregistered) is gone. The interleaving is forced with a trace function that pauses thread 2 on the 'del' line.

Exit 1 when the defect is reproduced, 0 when not.
"""
import faulthandler
import importlib.util
import inspect
import logging
import os
import shutil
import sys
import tempfile
import threading

faulthandler.dump_traceback_later(120, exit=True)

from deep.api.deep import Deep  # noqa: E402
from deep.api.resource import Resource  # noqa: E402
from deep.api.tracepoint.constants import FIRE_COUNT, FIRE_PERIOD  # noqa: E402
from deep.config import ConfigService  # noqa: E402
from deep.config.tracepoint_config import TracepointConfigService  # noqa: E402

logging.getLogger().addHandler(logging.NullHandler())
logging.getLogger("deep").addHandler(logging.NullHandler())

SOURCE = '''def work(x):
    a = x + 1
    b = a + 1
    c = b + 1
    return c
'''

tmp = tempfile.mkdtemp()
exit_code = 0
try:
    file_name = "c13_obs1_target_%d.py" % os.getpid()
    path = os.path.join(tmp, file_name)
    with open(path, "w") as f:
        f.write(SOURCE)
    spec = importlib.util.spec_from_file_location(file_name[:-3], path)
    target = importlib.util.module_from_spec(spec)
    spec.loader.exec_module(target)

    config = ConfigService({'SERVICE_URL': '127.0.0.1:1', 'SERVICE_SECURE': 'False'})
    config.resource = Resource.create()
    deep = Deep(config)
    pushed = []
    deep.push.push_snapshot = pushed.append


    def settle():
        for future in list(deep.task_handler._pending.values()):
            future.result(30)


    def run_traced():
        del pushed[:]
        sys.settrace(deep.trigger_handler.trace_call)
        try:
            target.work(1)
        finally:
            sys.settrace(None)
        return sorted(snapshot.tracepoint.line_no for snapshot in pushed)


    always = {FIRE_COUNT: '-1', FIRE_PERIOD: '0'}
    reg_a = deep.register_tracepoint(file_name, 2, dict(always))
    reg_b = deep.register_tracepoint(file_name, 3, dict(always))
    reg_c = deep.register_tracepoint(file_name, 4, dict(always))
    settle()
    if run_traced() != [2, 3, 4]:
        print("setup failed, the three tracepoints do not fire")
        sys.exit(0)

    # where thread 2 is paused: the line that deletes the index it has just looked up
    lines, first = inspect.getsourcelines(TracepointConfigService.remove_custom)
    del_line = [first + offset for offset, text in enumerate(lines) if "del self._custom[idx]" in text][0]
    remove_code = TracepointConfigService.remove_custom.__code__
    reached = threading.Event()
    go = threading.Event()


    def local_trace(frame, event, arg):
        if event == "line" and frame.f_lineno == del_line and not reached.is_set():
            reached.set()
            go.wait(30)
        return local_trace


    def global_trace(frame, event, arg):
        return local_trace if frame.f_code is remove_code else None


    def thread_two():
        sys.settrace(global_trace)
        try:
            reg_b.unregister()
        finally:
            sys.settrace(None)


    second = threading.Thread(target=thread_two)
    second.start()
    if not reached.wait(30):
        print("could not pause thread 2 in remove_custom (has the code changed?)")
        go.set()
        second.join(30)
        sys.exit(0)
    reg_a.unregister()  # thread 1, completes while thread 2 is between 'found index' and 'delete index'
    go.set()
    second.join(30)
    settle()

    fired = run_traced()
    if fired != [4]:
        print("DEFECT: A (line 2) and B (line 3) were unregistered concurrently, C (line 4) was not touched. "
              "Expected only line 4 to fire, but the lines that fire are %s." % fired)
        reg_b.unregister()
        settle()
        print("        after B.unregister() is called again the lines that fire are still %s" % run_traced())
        exit_code = 1
    else:
        print("not reproduced: only C fires")
finally:
    shutil.rmtree(tmp, ignore_errors=True)
sys.exit(exit_code)
