"""
Observation 3 (unmodified tree): register_tracepoint(path, line) with the path of the source file (absolute, as in
__file__, or relative with a directory) returns a handle but the tracepoint never fires. TriggerHandler compares the
BASE NAME of the running file (os.path.basename(co_filename)) with the registered path as it was given, so only a bare
file name can ever match. Deep.register_tracepoint documents the parameter as 'the source path'.

Exit 1 when the defect is reproduced, 0 when not.
"""
import faulthandler
import importlib.util
import logging
import os
import shutil
import sys
import tempfile

faulthandler.dump_traceback_later(120, exit=True)

from deep.api.deep import Deep  # noqa: E402
from deep.api.resource import Resource  # noqa: E402
from deep.api.tracepoint.constants import FIRE_COUNT, FIRE_PERIOD, METHOD_NAME, STAGE, METHOD_CAPTURE, SNAPSHOT, \
    NO_COLLECT  # noqa: E402,F401
from deep.config import ConfigService  # noqa: E402

logging.getLogger().addHandler(logging.NullHandler())
logging.getLogger("deep").addHandler(logging.NullHandler())

SOURCE = '''def work(x):
    y = x + 100
    z = y * 2
    return z
'''

tmp = tempfile.mkdtemp()
exit_code = 0
try:
    file_name = "c13_obs_target_%d.py" % os.getpid()
    path = os.path.join(tmp, file_name)
    with open(path, "w") as f:
        f.write(SOURCE)
    spec = importlib.util.spec_from_file_location(file_name[:-3], path)
    target = importlib.util.module_from_spec(spec)
    spec.loader.exec_module(target)

    config = ConfigService({'SERVICE_URL': '127.0.0.1:1', 'SERVICE_SECURE': 'False'})
    config.resource = Resource.create()
    pass
    deep = Deep(config)  # not started: no network, we install the trace function ourselves
    pushed = []
    deep.push.push_snapshot = pushed.append


    def settle():
        for future in list(deep.task_handler._pending.values()):
            future.result(30)


    def run_traced(arg=1):
        sys.settrace(deep.trigger_handler.trace_call)
        try:
            target.work(arg)
        finally:
            sys.settrace(None)

    always = {FIRE_COUNT: '-1', FIRE_PERIOD: '0'}
    results = {}
    for label, registered_path in (("bare file name", file_name), ("absolute path (__file__ of the module)", path),
                                   ("directory/file name", os.path.join(os.path.basename(tmp), file_name))):
        registration = deep.register_tracepoint(registered_path, 2, dict(always))
        settle()
        del pushed[:]
        run_traced(1)
        results[label] = len(pushed)
        registration.unregister()
        settle()
    if results["bare file name"] == 1 and any(count == 0 for count in results.values()):
        print("DEFECT: snapshots created per way of giving the path: %s" % results)
        exit_code = 1
    else:
        print("not reproduced: %s" % results)
finally:
    shutil.rmtree(tmp, ignore_errors=True)
sys.exit(exit_code)
