"""
obs3 (unmodified tree, a design trade-off rather than a slip - see LocationAction.can_trigger): a hit that is going to
be rejected by its condition holds a claim on the fire budget while the condition is evaluated (the claim is taken
BEFORE the condition is evaluated, and given back afterwards). A hit of another thread that arrives in between, and
whose condition is true, is refused by the fire count / fire period check because of that claim - so the rejected hit
did use up budget for as long as it took to evaluate, and a hit whose condition is true and for which budget is
available produced nothing.

Schedule: thread A reaches the tracepoint (fire_count=1) with a condition that is false but slow; while it is being
evaluated thread B reaches the tracepoint with a condition value of true. Expected by the property: B's hit is
collected (A's hit uses none of the budget). Observed: nothing is collected for either.

Exits 1 and prints what is wrong on the unmodified tree.
"""
import faulthandler
import os
import sys
import threading
from typing import List

from deep.api.resource import Resource
from deep.api.tracepoint.constants import FIRE_COUNT
from deep.api.tracepoint.eventsnapshot import EventSnapshot
from deep.api.tracepoint.trigger import Location, LocationAction, LineLocation, Trigger
from deep.config import ConfigService
from deep.processor.trigger_handler import TriggerHandler
from deep.push.push_service import PushService

entered = threading.Event()
release = threading.Event()


def check(kind):
    """Condition helper: false (after a while) for 'slow', true for 'fast'."""
    if kind == 'slow':
        entered.set()
        release.wait(20)
        return False
    return True


def target(kind):
    label = "hit-" + kind
    return label  # TRACEPOINT


def line_of(marker):
    with open(__file__) as f:
        for no, text in enumerate(f, start=1):
            if text.rstrip().endswith(marker):
                return no
    raise RuntimeError("marker not found")


class Push(PushService):
    def __init__(self):
        super().__init__(None, None)
        self.pushed: List[EventSnapshot] = []

    def push_snapshot(self, snapshot):
        self.pushed.append(snapshot)


class Config(ConfigService):
    @property
    def tracepoint_logger(self):
        return None

    @property
    def resource(self):
        return Resource.get_empty()


def main():
    faulthandler.dump_traceback_later(60, exit=True)
    config = Config({})
    push = Push()
    handler = TriggerHandler(config, push)
    location = LineLocation(os.path.basename(__file__), line_of("# TRACEPOINT"), Location.Position.START)
    action = LocationAction("tp", "check(kind)", {FIRE_COUNT: '1'}, LocationAction.ActionType.Snapshot)
    handler.new_config([Trigger(location, [action])])

    def run(kind):
        sys.settrace(handler.trace_call)
        try:
            target(kind)
        finally:
            sys.settrace(None)

    a = threading.Thread(target=run, args=('slow',))
    a.start()
    if not entered.wait(20):
        print("setup failed: the slow condition was never evaluated")
        return 2
    b = threading.Thread(target=run, args=('fast',))
    b.start()
    b.join(20)
    collected_for_b = len(push.pushed)
    release.set()
    a.join(20)
    faulthandler.cancel_dump_traceback_later()

    if collected_for_b == 0:
        print("DEFECT (unmodified tree): thread B hit the tracepoint (fire_count=1, never fired before) with a "
              "condition that is true, and nothing was collected: the hit of thread A, which was still evaluating its "
              "condition (result: False, i.e. a rejected hit), held the whole fire budget. Snapshots in total: %d"
              % len(push.pushed))
        return 1
    print("not reproduced")
    return 0


if __name__ == '__main__':
    sys.exit(main())
