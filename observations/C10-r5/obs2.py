"""
obs2 (unmodified tree): a log field that fails is not contained to that field.

FormatExtractor.get_field() hands string.Formatter the *text* of the evaluated value; the conversion / format spec of
the field is then applied to that text. So a perfectly ordinary field like {n:d}, {n:05d} or {ratio:.2f} (n is an int,
ratio a float) raises ValueError("Unknown format code 'd' for object of type 'str'") out of process_log(). Expressions
that contain ':' or '!' outside brackets (a lambda, a dict literal, `a != b`) are cut at that character and fail the
same way. Nothing catches this per field:
  - a log action logs nothing at all (the other fields of the message are lost too),
  - a snapshot with such a log message attached is lost completely (frames, the watches that evaluated fine, ...),
  - and because ActionContext.process() marks the action as triggered in its finally block, every such hit is
    recorded as a fire: with the default fire_count of 1 the tracepoint is used up without ever producing anything.

Exits 1 and prints what is wrong on the unmodified tree.
"""
import os
import sys
from typing import List

from deep.api.plugin import TracepointLogger
from deep.api.resource import Resource
from deep.api.tracepoint.constants import WATCHES, FIRE_COUNT, FIRE_PERIOD, LOG_MSG
from deep.api.tracepoint.eventsnapshot import EventSnapshot
from deep.api.tracepoint.trigger import Location, LocationAction, LineLocation, Trigger
from deep.config import ConfigService
from deep.processor.trigger_handler import TriggerHandler
from deep.push.push_service import PushService


def target(n, ratio):
    name = "job-%d" % n
    return name  # TRACEPOINT


def line_of(marker):
    with open(__file__) as f:
        for no, text in enumerate(f, start=1):
            if text.rstrip().endswith(marker):
                return no
    raise RuntimeError("marker not found")


class Push(PushService):
    def __init__(self):
        super().__init__(None, None)
        self.pushed: List[EventSnapshot] = []

    def push_snapshot(self, snapshot):
        self.pushed.append(snapshot)


class Logger(TracepointLogger):
    def __init__(self):
        super().__init__()
        self.logged = []

    def log_tracepoint(self, log_msg, tp_id, ctx_id):
        self.logged.append((tp_id, log_msg))


class Config(ConfigService):
    def __init__(self):
        super().__init__({})
        self.logger = Logger()

    @property
    def tracepoint_logger(self):
        return self.logger

    @property
    def resource(self):
        return Resource.get_empty()


def main():
    import logging
    logging.getLogger("deep").setLevel(logging.CRITICAL)  # keep the output short, the agent logs the tracebacks
    config = Config()
    push = Push()
    handler = TriggerHandler(config, push)
    location = LineLocation(os.path.basename(__file__), line_of("# TRACEPOINT"), Location.Position.START)
    snap_action = LocationAction("tp_snap", None, {WATCHES: ['name', 'n + 1'], FIRE_COUNT: '2', FIRE_PERIOD: '0',
                                                   LOG_MSG: "job {name} n={n:d} ratio={ratio:.2f}"},
                                 LocationAction.ActionType.Snapshot)
    handler.new_config([Trigger(location, [
        LocationAction("tp_log_spec", None, {LOG_MSG: "job {name} n={n:05d}", FIRE_COUNT: '-1', FIRE_PERIOD: '0'},
                       LocationAction.ActionType.Log),
        LocationAction("tp_log_ne", None, {LOG_MSG: "job {name} odd={n % 2 != 0}", FIRE_COUNT: '-1', FIRE_PERIOD: '0'},
                       LocationAction.ActionType.Log),
        LocationAction("tp_log_ok", None, {LOG_MSG: "job {name} n={n}", FIRE_COUNT: '-1', FIRE_PERIOD: '0'},
                       LocationAction.ActionType.Log),
        snap_action,
    ])])

    sys.settrace(handler.trace_call)
    try:
        target(7, 0.256)
        target(8, 0.5)
        target(9, 0.75)
    finally:
        sys.settrace(None)

    problems = []
    logged = {}
    for tp_id, msg in config.logger.logged:
        logged.setdefault(tp_id, []).append(msg)
    if len(logged.get("tp_log_ok", [])) != 3:
        problems.append("control: tp_log_ok logged %r" % logged.get("tp_log_ok"))
    if "tp_log_spec" not in logged:
        problems.append("log action 'job {name} n={n:05d}' (n is an int): nothing was logged on 3 hits, the field "
                        "{name} that evaluates fine is lost as well")
    if "tp_log_ne" not in logged:
        problems.append("log action 'job {name} odd={n % 2 != 0}': nothing was logged on 3 hits")
    if len(push.pushed) == 0:
        problems.append("snapshot tracepoint (fire_count=2, fire_period=0) with log message "
                        "'job {name} n={n:d} ratio={ratio:.2f}' and watches ['name', 'n + 1']: 3 hits, no snapshot")
        # is the fire budget gone although nothing was produced?
        if not snap_action.can_trigger(2 ** 62):
            problems.append("... and its fire budget is used up: can_trigger() is now False, the 2 hits that produced "
                            "nothing were recorded as fires")
    if problems:
        print("DEFECT (unmodified tree): a failing log field is not contained to that field:")
        for problem in problems:
            print("  - " + problem)
        return 1
    print("not reproduced")
    return 0


if __name__ == '__main__':
    sys.exit(main())
