"""
obs1 (unmodified tree): a condition / watch / log field / metric expression that contains a nested scope (generator
expression, lambda - and comprehensions on interpreters that do not inline them) cannot see the locals of the paused
frame. The expression is evaluated with eval(expression, f_globals, f_locals); code compiled for eval() resolves the
free names of nested scopes in the globals only, so e.g. the condition `any(v > limit for v in values)` over the
locals `values` and `limit` fails with NameError: name 'limit' is not defined, the hit is rejected and the tracepoint
never fires - although every name in it is visible at that line.

Exits 1 and prints what is wrong on the unmodified tree.
"""
import os
import sys
from typing import List

from deep.api.plugin import TracepointLogger
from deep.api.resource import Resource
from deep.api.tracepoint.constants import WATCHES, FIRE_COUNT, LOG_MSG
from deep.api.tracepoint.eventsnapshot import EventSnapshot
from deep.api.tracepoint.trigger import Location, LocationAction, LineLocation, Trigger
from deep.config import ConfigService
from deep.processor.trigger_handler import TriggerHandler
from deep.push.push_service import PushService


def target(values, limit):
    factor = 2
    return [v * factor for v in values if v > limit]  # TRACEPOINT


def line_of(marker):
    with open(__file__) as f:
        for no, text in enumerate(f, start=1):
            if text.rstrip().endswith(marker):
                return no
    raise RuntimeError("marker not found")


class Push(PushService):
    def __init__(self):
        super().__init__(None, None)
        self.pushed: List[EventSnapshot] = []

    def push_snapshot(self, snapshot):
        self.pushed.append(snapshot)


class Logger(TracepointLogger):
    def __init__(self):
        super().__init__()
        self.logged = []

    def log_tracepoint(self, log_msg, tp_id, ctx_id):
        self.logged.append((tp_id, log_msg))


class Config(ConfigService):
    def __init__(self):
        super().__init__({})
        self.logger = Logger()

    @property
    def tracepoint_logger(self):
        return self.logger

    @property
    def resource(self):
        return Resource.get_empty()


def main():
    config = Config()
    push = Push()
    handler = TriggerHandler(config, push)
    location = LineLocation(os.path.basename(__file__), line_of("# TRACEPOINT"), Location.Position.START)
    watches = ['sum(v * factor for v in values)', 'sorted(values, key=lambda v: abs(v - limit))',
               '[v for v in values if v > limit]', 'max(values) > limit']
    handler.new_config([Trigger(location, [
        # the condition is true at this line: values = [1, 5, 9], limit = 4
        LocationAction("tp_cond", "any(v > limit for v in values)", {FIRE_COUNT: '-1'},
                       LocationAction.ActionType.Snapshot),
        LocationAction("tp_watch", None, {WATCHES: watches, FIRE_COUNT: '-1'}, LocationAction.ActionType.Snapshot),
        LocationAction("tp_log", None, {LOG_MSG: "big={list(v for v in values if v > limit)}", FIRE_COUNT: '-1'},
                       LocationAction.ActionType.Log),
    ])])

    sys.settrace(handler.trace_call)
    try:
        result = target([1, 5, 9], 4)
    finally:
        sys.settrace(None)
    assert result == [10, 18]

    problems = []
    by_tp = {s.tracepoint.id: s for s in push.pushed}
    if "tp_cond" not in by_tp:
        problems.append("condition 'any(v > limit for v in values)' is true in the frame (values=[1, 5, 9], limit=4) "
                        "but the tracepoint did not fire")
    snapshot = by_tp.get("tp_watch")
    expected = {'sum(v * factor for v in values)': ('int', '30'),
                'sorted(values, key=lambda v: abs(v - limit))': ('list', 'Size: 3'),
                '[v for v in values if v > limit]': ('list', 'Size: 2'),
                'max(values) > limit': ('bool', 'True')}
    if snapshot is None:
        problems.append("no snapshot for tp_watch")
    else:
        for watch in snapshot.watches:
            variable = snapshot.var_lookup[watch.result.vid] if watch.result is not None else None
            got = (variable.type, variable.value) if variable is not None else (None, watch.error)
            if got != expected[watch.expression]:
                problems.append("watch %r: expected %r, got %r" % (watch.expression, expected[watch.expression], got))
    logged = dict(config.logger.logged).get("tp_log")
    if logged != "[deep] big=[5, 9]":
        problems.append("log message: expected '[deep] big=[5, 9]', got %r" % logged)

    if problems:
        print("DEFECT (unmodified tree): expressions with a nested scope do not see the locals of the paused frame:")
        for problem in problems:
            print("  - " + problem)
        return 1
    print("not reproduced")
    return 0


if __name__ == '__main__':
    sys.exit(main())
