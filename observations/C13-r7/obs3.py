"""
Observation 3 (unmodified tree): the time window given to a tracepoint (window_start / window_end) is not in force.
LocationAction reads the window from the config of the action, and none of the build_*_action functions copies
window_start / window_end from the tracepoint arguments into it, so every action has the window (0, 0) = always.
(The same holds for tracepoints from the service.)

Exit 1 when observed, 0 when not.
"""
import importlib.util
import logging
import os
import shutil
import sys
import tempfile
import time

from deep.api.deep import Deep
from deep.api.resource import Resource
from deep.config import ConfigService

SRC = '''
def target(x):
    y = x + 1
    z = y * 2
    return z
'''


def main():
    logging.disable(logging.CRITICAL)
    tmp = tempfile.mkdtemp()
    try:
        path = os.path.join(tmp, "c13_obs3_target.py")
        with open(path, "w") as f:
            f.write(SRC)
        spec = importlib.util.spec_from_file_location("c13_obs3_target", path)
        mod = importlib.util.module_from_spec(spec)
        spec.loader.exec_module(mod)

        cfg = ConfigService({'SERVICE_URL': '127.0.0.1:1', 'SERVICE_SECURE': 'False', 'APP_ROOT': '/'})
        cfg.resource = Resource.create()
        agent = Deep(cfg)
        pushed = []
        agent.push.push_snapshot = pushed.append
        ended = agent.register_tracepoint("c13_obs3_target.py", 4, {'window_end': '1'})  # ended in 1970
        not_yet = agent.register_tracepoint("c13_obs3_target.py", 4, {'window_start': str(2 ** 62)})  # year 2116
        end = time.time() + 10
        while agent.task_handler._pending and time.time() < end:
            time.sleep(0.01)
        sys.settrace(agent.trigger_handler.trace_call)
        try:
            mod.target(1)
        finally:
            sys.settrace(None)
        ids = {ended._TracepointRegistration__id: "window_end=1", not_yet._TracepointRegistration__id: "window_start=2**62"}
        agent.task_handler.flush()
    finally:
        shutil.rmtree(tmp, ignore_errors=True)
    if pushed:
        print("OBSERVED: snapshots collected outside the window given: %s"
              % [ids.get(s.tracepoint.id) for s in pushed])
        return 1
    print("not observed")
    return 0


if __name__ == '__main__':
    sys.exit(main())
