"""
Observation 4 (unmodified tree, plugin shipped with the project): PrometheusPlugin caches its collectors by
'<name>_<type>' only. Two tracepoints registered with a metric of the same name and type, but different label names (or
a different namespace), share the collector that the first one created: the metric of the second registration fails
with "Incorrect label names" (logged) on every hit and is never recorded - the tracepoint is not active with the
metrics it was given.

Exit 1 when observed, 0 when not.
"""
import importlib.util
import logging
import os
import shutil
import sys
import tempfile
import time

import prometheus_client

from deep.api.deep import Deep
from deep.api.plugin.metric.prometheus_metrics import PrometheusPlugin
from deep.api.resource import Resource
from deep.api.tracepoint.tracepoint_config import MetricDefinition, LabelExpression
from deep.config import ConfigService

SRC = '''
def target(x):
    y = x + 1
    z = y * 2
    return z
'''


def main():
    logging.disable(logging.CRITICAL)
    tmp = tempfile.mkdtemp()
    try:
        path = os.path.join(tmp, "c13_obs4_target.py")
        with open(path, "w") as f:
            f.write(SRC)
        spec = importlib.util.spec_from_file_location("c13_obs4_target", path)
        mod = importlib.util.module_from_spec(spec)
        spec.loader.exec_module(mod)

        cfg = ConfigService({'SERVICE_URL': '127.0.0.1:1', 'SERVICE_SECURE': 'False', 'APP_ROOT': '/'})
        cfg.resource = Resource.create()
        plugin = PrometheusPlugin(cfg)
        cfg.plugins = [plugin]
        agent = Deep(cfg)
        agent.push.push_snapshot = lambda snapshot: None
        agent.register_tracepoint("c13_obs4_target.py", 3, {'snapshot': 'no_collect'}, [],
                                  [MetricDefinition("c13_obs4", "counter", [LabelExpression("first", "1")])])
        agent.register_tracepoint("c13_obs4_target.py", 4, {'snapshot': 'no_collect'}, [],
                                  [MetricDefinition("c13_obs4", "counter", [LabelExpression("second", "2")])])
        agent.register_tracepoint("c13_obs4_target.py", 4, {'snapshot': 'no_collect'}, [],
                                  [MetricDefinition("c13_obs4", "counter", [LabelExpression("first", "3")],
                                                    namespace="other")])
        end = time.time() + 10
        while agent.task_handler._pending and time.time() < end:
            time.sleep(0.01)
        sys.settrace(agent.trigger_handler.trace_call)
        try:
            mod.target(1)
        finally:
            sys.settrace(None)
        samples = []
        for family in prometheus_client.REGISTRY.collect():
            for sample in family.samples:
                if 'c13_obs4' in sample.name and sample.name.endswith('_total'):
                    samples.append((sample.name, dict(sample.labels), sample.value))
        plugin.clear()
        agent.task_handler.flush()
    finally:
        shutil.rmtree(tmp, ignore_errors=True)
    expected = [('deep_c13_obs4_total', {'first': '1'}, 1.0), ('deep_c13_obs4_total', {'second': '2'}, 1.0),
                ('other_c13_obs4_total', {'first': '3'}, 1.0)]
    missing = [e for e in expected if e not in samples]
    wrong = [s for s in samples if s not in expected]
    if missing or wrong:
        print("OBSERVED: three tracepoints with a metric each were hit once; recorded: %s; not recorded: %s"
              % (samples, missing))
        return 1
    print("not observed")
    return 0


if __name__ == '__main__':
    sys.exit(main())
