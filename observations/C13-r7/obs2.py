"""
Observation 2 (unmodified tree): handles that are unregistered concurrently (several threads, each with its own handles)
can leave a tracepoint registered: remove_custom() scans self._custom with enumerate() while another thread deletes
from the same list, so the scan can step over the entry it is looking for (or, in principle, delete a neighbour: the index
is found first and deleted afterwards). The id has been popped from _custom_ids by then, so unregistering again does
nothing: the tracepoint stays active for good. add_custom()/remove_custom() take no lock.

This is a race: the script repeats the experiment until it is observed (typically a few hundred rounds with a small
switch interval) or 60 s have passed. Exit 1 when observed, 0 when not.
"""
import faulthandler
import sys
import threading
import time

from deep.config.tracepoint_config import TracepointConfigService


def main():
    faulthandler.enable()
    sys.setswitchinterval(1e-6)
    end = time.time() + 60
    rounds = 0
    while time.time() < end:
        rounds += 1
        service = TracepointConfigService()  # no task handler: no listeners are involved
        ids = [service.add_custom("file.py", line, {}, [], []) for line in range(40)]
        keep = set(ids[::2])
        remove = [i for i in ids if i not in keep]
        barrier = threading.Barrier(4)

        def work(chunk):
            barrier.wait()
            for tp_id in chunk:
                service.remove_custom(tp_id)

        threads = [threading.Thread(target=work, args=(remove[k::4],)) for k in range(4)]
        for t in threads:
            t.start()
        for t in threads:
            t.join()
        left = {trigger.actions[0].id for trigger in service._custom}
        if left != keep:
            for tp_id in remove:
                service.remove_custom(tp_id)  # again: harmless, but it does not help either
            left_again = {trigger.actions[0].id for trigger in service._custom}
            print("OBSERVED in round %d: after every one of the 20 handles was unregistered (by 4 threads), "
                  "%d of their tracepoints are still registered and %d of the 20 other tracepoints are gone; "
                  "unregistering all of them again leaves %d still registered"
                  % (rounds, len(left - keep), len(keep - left), len(left_again - keep)))
            return 1
    print("not observed in %d rounds" % rounds)
    return 0


if __name__ == '__main__':
    sys.exit(main())
