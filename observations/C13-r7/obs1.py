"""
Observation 1 (unmodified tree): a handle that is unregistered after the agent has been shut down raises
deep.task.IllegalStateException - a BaseException - into the application, on the first call; the second call is silent.
Registering after shutdown raises the same way, but leaves the tracepoint in the list of custom tracepoints with no
handle to remove it.

Exit 1 and a description when the behaviour is observed, exit 0 when not.
"""
import logging
import sys

import deep
from deep.task import IllegalStateException


def main():
    logging.disable(logging.CRITICAL)
    # nothing listens on port 1: the initial poll fails (and is logged), the agent runs without a service
    agent = deep.start({'SERVICE_URL': '127.0.0.1:1', 'SERVICE_SECURE': 'False', 'POLL_TIMER': 3600})
    findings = []
    try:
        handle = agent.register_tracepoint("some_file.py", 10)
    finally:
        agent.shutdown()

    try:
        handle.unregister()
    except BaseException as e:  # noqa
        findings.append("unregister() after shutdown() raised %s (a %s)" % (
            type(e).__name__, "BaseException, not an Exception" if not isinstance(e, Exception) else "Exception"))
    try:
        handle.unregister()
    except BaseException as e:  # noqa
        findings.append("second unregister() after shutdown() raised %s" % type(e).__name__)

    try:
        agent.register_tracepoint("some_file.py", 11)
    except IllegalStateException:
        left = len(agent.config.tracepoints._custom)
        findings.append("register_tracepoint() after shutdown() raised IllegalStateException and left %d tracepoint(s) "
                        "registered without a handle" % left)

    if findings:
        print("OBSERVED:")
        for f in findings:
            print(" -", f)
        return 1
    print("not observed")
    return 0


if __name__ == '__main__':
    sys.exit(main())
