"""
Observation 5 (unmodified tree): the 'stage' argument of a snapshot tracepoint is only used to pick the location.
SnapshotActionContext._is_deferred() looks for 'stage' in the config of the action, but build_snapshot_action() does
not copy it there, so a tracepoint registered with stage=method_capture (or line_capture) sends its snapshot at the start
and never captures the returned value / raised exception: it is not active with the arguments it was given.
(tests/unit_tests/processor/test_trigger_handler.py puts STAGE into the action config by hand, build_trigger never does.)

Exit 1 when observed, 0 when not.
"""
import importlib.util
import logging
import os
import shutil
import sys
import tempfile
import time

from deep.api.deep import Deep
from deep.api.resource import Resource
from deep.config import ConfigService

SRC = '''
def target(x):
    y = x + 1
    z = y * 2
    return z
'''


def main():
    logging.disable(logging.CRITICAL)
    tmp = tempfile.mkdtemp()
    try:
        path = os.path.join(tmp, "c13_obs5_target.py")
        with open(path, "w") as f:
            f.write(SRC)
        spec = importlib.util.spec_from_file_location("c13_obs5_target", path)
        mod = importlib.util.module_from_spec(spec)
        spec.loader.exec_module(mod)

        cfg = ConfigService({'SERVICE_URL': '127.0.0.1:1', 'SERVICE_SECURE': 'False', 'APP_ROOT': '/'})
        cfg.resource = Resource.create()
        agent = Deep(cfg)
        pushed = []
        events = []
        agent.push.push_snapshot = lambda s: (pushed.append(s), events.append("snapshot"))
        agent.register_tracepoint("c13_obs5_target.py", -1, {'method_name': 'target', 'stage': 'method_capture'})
        end = time.time() + 10
        while agent.task_handler._pending and time.time() < end:
            time.sleep(0.01)

        def trace(frame, event, arg):
            if frame.f_code.co_name == 'target':
                events.append(event)
            agent.trigger_handler.trace_call(frame, event, arg)
            return trace

        sys.settrace(trace)
        try:
            mod.target(1)
        finally:
            sys.settrace(None)
        agent.task_handler.flush()
    finally:
        shutil.rmtree(tmp, ignore_errors=True)
    watches = [[w.expression for w in s.watches] for s in pushed]
    if len(pushed) == 1 and 'return' in watches[0] and events.index("snapshot") > events.index("return"):
        print("not observed")
        return 0
    print("OBSERVED: stage=method_capture: %d snapshot(s), captured values %s, order of events %s"
          % (len(pushed), watches, events))
    return 1


if __name__ == '__main__':
    sys.exit(main())
