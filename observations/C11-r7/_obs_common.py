"""Shared scaffolding of the obsK.py scripts (real ConfigService / TriggerHandler, capturing push + plugins)."""
import inspect
import os
import sys

from deep.api.plugin import TracepointLogger
from deep.api.plugin.span import SpanProcessor
from deep.api.resource import Resource
from deep.config import ConfigService
from deep.processor.trigger_handler import TriggerHandler
from deep.push.push_service import PushService


class CapturePush(PushService):
    def __init__(self):
        super().__init__(None, None)
        self.pushed = []
        self.events = []

    def push_snapshot(self, snapshot):
        self.pushed.append(snapshot)


class CaptureLogger(TracepointLogger):
    def __init__(self):
        super().__init__()
        self.logged = []

    def log_tracepoint(self, log_msg, tp_id, ctx_id):
        self.logged.append((tp_id, log_msg))


class FakeSpan:
    def __init__(self, name):
        self.name = name
        self.closed = False

    def close(self):
        self.closed = True


class CaptureSpans(SpanProcessor):
    def __init__(self):
        super().__init__()
        self.spans = []

    def create_span(self, name, context_id, tracepoint_id):
        span = FakeSpan(name)
        self.spans.append(span)
        return span

    def current_span(self):
        return None


def line_of(func, marker):
    lines, start = inspect.getsourcelines(func)
    for offset, text in enumerate(lines):
        if marker in text:
            return start + offset
    raise AssertionError("marker not found")


def setup(plugins=None):
    config = ConfigService({})
    config.resource = Resource.get_empty()
    logger = CaptureLogger()
    config.plugins = [logger] + (plugins or [])
    push = CapturePush()
    handler = TriggerHandler(config, push)
    return config, logger, push, handler


def run_traced(handler, func, *args):
    old = sys.gettrace()
    sys.settrace(handler.trace_call)
    try:
        return func(*args)
    finally:
        sys.settrace(old)


def base(path):
    return os.path.basename(path)
