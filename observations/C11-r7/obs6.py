"""
obs6: 'one metric per metric definition' - two definitions with the same name in different namespaces end up in ONE
prometheus metric.

PrometheusPlugin (and OTelMetrics) cache the created instrument under f'{name}_{type}', without the namespace: the
second definition re-uses the counter of the first one.
"""
import sys

import prometheus_client

from _obs_common import setup, run_traced, base, line_of
from deep.api.plugin.metric.prometheus_metrics import PrometheusPlugin
from deep.api.tracepoint.tracepoint_config import MetricDefinition
from deep.api.tracepoint.trigger import build_trigger


def target(i):
    doubled = i * 2  # TRACEPOINT
    return doubled


def main():
    config, logger, push, handler = setup()
    plugin = PrometheusPlugin(config)
    config.plugins = config.plugins + [plugin]
    metrics = [MetricDefinition("obs6_hits", "counter", namespace="orders"),
               MetricDefinition("obs6_hits", "counter", namespace="payments")]
    handler.new_config([build_trigger("tp", base(__file__), line_of(target, "# TRACEPOINT"),
                                      {'snapshot': 'no_collect'}, [], metrics)])
    run_traced(handler, target, 2)
    value = prometheus_client.REGISTRY.get_sample_value
    orders, payments = value('orders_obs6_hits_total'), value('payments_obs6_hits_total')
    plugin.clear()
    if orders != 1.0 or payments != 1.0:
        print("DEFECT: orders_obs6_hits_total=%s payments_obs6_hits_total=%s, expected 1.0 each" % (orders, payments))
        return 1
    print("ok")
    return 0


if __name__ == '__main__':
    sys.exit(main())
