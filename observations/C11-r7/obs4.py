"""
obs4: span=method without method_name ("wrap the method the tracepoint is in") never creates a span.

build_trigger makes a FunctionLocation(path, None): at_location then tests `start <= line >= end` (the current line
against the source range of the running function), which cannot be true for a line inside the function. With the
intended `start <= line < end` it would still match the first function of the file that is called, because the location
does not know the line number of the tracepoint.
"""
import sys

from _obs_common import setup, run_traced, base, line_of, CaptureSpans
from deep.api.tracepoint.trigger import build_trigger


def target(i):
    doubled = i * 2  # TRACEPOINT
    return doubled


def main():
    spans = CaptureSpans()
    config, logger, push, handler = setup([spans])
    handler.new_config([build_trigger("tp", base(__file__), line_of(target, "# TRACEPOINT"),
                                      {'span': 'method', 'snapshot': 'no_collect'}, [], [])])
    run_traced(handler, target, 21)
    if len(spans.spans) == 0:
        print("DEFECT: span=method on a line of target(): no span was created")
        return 1
    print("ok")
    return 0


if __name__ == '__main__':
    sys.exit(main())
