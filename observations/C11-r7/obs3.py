"""
obs3: stack_type=no_stack is ignored - the snapshot still contains every frame of the stack.

The argument is copied into the snapshot action config (build_snapshot_action), but nothing reads it: FrameCollector
always walks the whole stack (only frame_type is honoured, through should_collect_vars).
"""
import sys

from _obs_common import setup, run_traced, base, line_of
from deep.api.tracepoint.trigger import build_trigger


def target(i):
    doubled = i * 2  # TRACEPOINT
    return doubled


def caller(i):
    return target(i)


def main():
    config, logger, push, handler = setup()
    handler.new_config([build_trigger("tp", base(__file__), line_of(target, "# TRACEPOINT"),
                                      {'stack_type': 'no_stack'}, [], [])])
    run_traced(handler, caller, 21)
    if len(push.pushed) != 1:
        print("unexpected: %d snapshots" % len(push.pushed))
        return 2
    frames = push.pushed[0].frames
    if len(frames) > 1:
        print("DEFECT: stack_type=no_stack: the snapshot has %d frames (%s)" % (
            len(frames), [f.method_name for f in frames]))
        return 1
    print("ok")
    return 0


if __name__ == '__main__':
    sys.exit(main())
