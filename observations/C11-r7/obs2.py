"""
obs2: the stages method_end / line_end are accepted, but act at the START of the method / line.

Location.Position (START/END/CAPTURE) is computed by build_trigger and never read again: FunctionLocation.at_location
only matches the 'call' event and LineLocation.at_location the 'line' event (before the line runs).
"""
import sys

from _obs_common import setup, run_traced, base
from deep.api.tracepoint.trigger import build_trigger


def target(i):
    doubled = i * 2
    return doubled


def main():
    config, logger, push, handler = setup()
    handler.new_config([build_trigger("tp", base(__file__), -1,
                                      {'stage': 'method_end', 'method_name': 'target'}, ['doubled'], [])])
    run_traced(handler, target, 21)
    if len(push.pushed) != 1:
        print("unexpected: %d snapshots" % len(push.pushed))
        return 2
    snapshot = push.pushed[0]
    names = [v.name for v in snapshot.frames[0].variables]
    if 'doubled' not in names:
        print("DEFECT: stage=method_end: the snapshot was taken when the method was entered (frame line %d, locals %s)"
              ", not at its end where the local 'doubled' exists" % (snapshot.frames[0].line_number, names))
        return 1
    print("ok")
    return 0


if __name__ == '__main__':
    sys.exit(main())
