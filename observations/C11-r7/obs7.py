"""
obs7: a tracepoint is only placed when its path is the bare file name.

TriggerHandler.location_from_event() reduces the running file to os.path.basename(), LineLocation.at_location()
compares that with the path of the tracepoint as it was sent. A tracepoint whose path has a directory (the absolute
path, or a path relative to the app root - what a source view would send) never fires; and a tracepoint "x.py" fires
in every file called x.py.
"""
import os
import sys

from _obs_common import setup, run_traced, base, line_of
from deep.api.tracepoint.trigger import build_trigger


def target(i):
    doubled = i * 2  # TRACEPOINT
    return doubled


def main():
    config, logger, push, handler = setup()
    line = line_of(target, "# TRACEPOINT")
    handler.new_config([build_trigger("tp-base", base(__file__), line, {}, [], []),
                        build_trigger("tp-abs", os.path.abspath(__file__), line, {}, [], [])])
    run_traced(handler, target, 2)
    fired = sorted(s.tracepoint.id for s in push.pushed)
    if fired != ['tp-abs', 'tp-base']:
        print("DEFECT: tracepoints on %s:%d and %s:%d: only %s fired" % (base(__file__), line,
                                                                       os.path.abspath(__file__), line, fired))
        return 1
    print("ok")
    return 0


if __name__ == '__main__':
    sys.exit(main())
