"""
obs1: the stages method_capture / line_capture given in the tracepoint ARGUMENTS do not defer the snapshot.

SnapshotActionContext._is_deferred() reads STAGE from the action config, but build_snapshot_action() never copies the
'stage' argument into that config. So a tracepoint {'stage': 'method_capture', 'method_name': 'target'} sends its
snapshot at the start of the method, without the returned value (only an action built by hand with STAGE in its config,
as tests/unit_tests/processor/test_trigger_handler.py does, is deferred).
"""
import sys

from _obs_common import setup, run_traced, base
from deep.api.tracepoint.trigger import build_trigger


def target(i):
    doubled = i * 2
    return doubled


def main():
    config, logger, push, handler = setup()
    handler.new_config([build_trigger("tp", base(__file__), -1,
                                      {'stage': 'method_capture', 'method_name': 'target'}, [], [])])
    run_traced(handler, target, 21)
    if len(push.pushed) != 1:
        print("unexpected: %d snapshots" % len(push.pushed))
        return 2
    watches = [w.expression for w in push.pushed[0].watches]
    if 'return' not in watches:
        print("DEFECT: stage=method_capture: the snapshot has no 'return' watch (watches=%s); it was sent at the "
              "start of the method instead of being completed with the returned value at the end" % watches)
        return 1
    print("ok")
    return 0


if __name__ == '__main__':
    sys.exit(main())
