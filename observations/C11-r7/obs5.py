"""
obs5: a condition has to be 'truthy' (constants.py), but only the texts yes/true/t/1/y count.

ActionContext.can_trigger() does str2bool(str(result)): the condition 'i' with i == 2, or 'items' with a non-empty
list, does not fire; 'name' with name == "y" does.
"""
import sys

from _obs_common import setup, run_traced, base, line_of
from deep.api.tracepoint.trigger import build_trigger


def target(i, items):
    doubled = i * 2  # TRACEPOINT
    return doubled


def main():
    config, logger, push, handler = setup()
    line = line_of(target, "# TRACEPOINT")
    handler.new_config([build_trigger("tp-int", base(__file__), line, {'condition': 'i'}, [], []),
                        build_trigger("tp-list", base(__file__), line, {'condition': 'items'}, [], []),
                        build_trigger("tp-bool", base(__file__), line, {'condition': 'i == 2'}, [], [])])
    run_traced(handler, target, 2, ['a'])
    fired = sorted(s.tracepoint.id for s in push.pushed)
    if fired != ['tp-bool', 'tp-int', 'tp-list']:
        print("DEFECT: with i=2, items=['a'] the conditions 'i', 'items' and 'i == 2' are all truthy, "
              "but only %s fired" % fired)
        return 1
    print("ok")
    return 0


if __name__ == '__main__':
    sys.exit(main())
