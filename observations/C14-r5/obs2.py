"""
Observation 2 (unmodified tree): shutdown() from another thread than start() does not put the hooks back.

TriggerHandler.shutdown() uses sys.settrace(old), which only affects the calling thread. When the agent is shut down
from a thread other than the one that started it (a signal/atexit helper thread, a worker of a web server, ...):
 - the thread that called start() keeps the agent's trace function as its sys trace function, for good,
 - the thread that called shutdown() gets the *starting thread's* previous trace function installed instead.
(python 3.12 has threading.settrace_all_threads() for this.)

Exit 1 and a description on the unmodified tree.
"""
import faulthandler
import os
import sys
import threading

faulthandler.dump_traceback_later(120, exit=True)

import deep.logging  # noqa: E402
from deep.api import Deep  # noqa: E402
from deep.config import ConfigService  # noqa: E402


def app_tracer(frame, event, arg):
    return None


def main():
    config = ConfigService({'SERVICE_URL': '127.0.0.1:1', 'SERVICE_SECURE': 'False', 'POLL_TIMER': 3600,
                            'APP_ROOT': os.path.dirname(os.path.abspath(__file__))})
    deep.logging.init(config)
    agent = Deep(config)

    seen = {}
    go = threading.Event()

    def stop():
        go.wait(60)
        agent.shutdown()
        seen['shutdown thread'] = sys.gettrace()

    # the helper thread exists before the agent is started, it has no trace function
    helper = threading.Thread(target=stop, name="obs2-shutdown")
    helper.start()
    # the main thread has a trace function of its own
    sys.settrace(app_tracer)
    agent.start()
    go.set()
    helper.join(60)
    seen['start thread'] = sys.gettrace()
    seen['threading'] = threading.gettrace()
    sys.settrace(None)

    problems = []
    if seen['start thread'] is not app_tracer:
        problems.append("the thread that called start() still has %s as its trace function after shutdown "
                        "(before start: app_tracer)" % getattr(seen['start thread'], '__qualname__', seen['start thread']))
    if seen.get('shutdown thread') is not None:
        problems.append("the thread that called shutdown() had no trace function, now it has %s"
                        % getattr(seen['shutdown thread'], '__qualname__', seen['shutdown thread']))
    if problems:
        print("DEFECT: shutdown from another thread than start:")
        for problem in problems:
            print("  - " + problem)
        return 1
    print("OK")
    return 0


if __name__ == '__main__':
    code = main()
    sys.stdout.flush()
    os._exit(code)
