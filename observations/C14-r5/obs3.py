"""
Observation 3 (unmodified tree): a tracepoint update that is still queued when the agent is shut down re-arms the
agent after the shutdown.

Deep.shutdown() first shuts the trigger handler down (which drops the tracepoints, "we do not act once we are
shutdown") and then flushes the task handler. A config update (from a poll or register_tracepoint) that is still
waiting in the task handler runs during that flush and hands the tracepoints to the trigger handler again
(TriggerHandler.new_config has no idea that it is shut down). Threads that were running before the shutdown still call
the agent's trace function (sys.settrace only changed the calling thread), so they keep firing the tracepoint - the
log action logs, metrics count, ... - although the agent is shut down.

Here the two task workers are kept busy while a tracepoint is registered and the agent is shut down, which is the
interleaving "update queued behind a slow send". Exit 1 and a description on the unmodified tree.
"""
import faulthandler
import inspect
import logging
import os
import sys
import threading
import time

faulthandler.dump_traceback_later(120, exit=True)

import deep.logging  # noqa: E402
from deep.api import Deep  # noqa: E402
from deep.api.tracepoint.constants import LOG_MSG, SNAPSHOT, NO_COLLECT  # noqa: E402
from deep.config import ConfigService  # noqa: E402


def target(value):
    doubled = value * 2
    return doubled  # <- tracepoint


TARGET_LINE = inspect.getsourcelines(target)[1] + 2


class Collect(logging.Handler):
    def __init__(self):
        super().__init__()
        self.messages = []

    def emit(self, record):
        self.messages.append(record.getMessage())


def main():
    config = ConfigService({'SERVICE_URL': '127.0.0.1:1', 'SERVICE_SECURE': 'False', 'POLL_TIMER': 3600,
                            'APP_ROOT': os.path.dirname(os.path.abspath(__file__))})
    deep.logging.init(config)
    collect = Collect()
    logging.getLogger("deep").addHandler(collect)
    agent = Deep(config)
    agent.start()

    # an application thread that is running before, during and after the shutdown. It waits while the agent is shut
    # down, and calls the function with the tracepoint afterwards.
    go = threading.Event()
    running = threading.Event()

    def work():
        running.set()
        go.wait(60)
        for _ in range(10):
            target(21)
            time.sleep(0.02)

    worker = threading.Thread(target=work, name="obs3-app-thread")
    worker.start()
    running.wait(10)

    # both task workers are busy (slow sends), so the update below is queued behind them
    release = threading.Event()
    for _ in range(2):
        agent.task_handler.submit_task(release.wait, 30)
    agent.register_tracepoint(os.path.basename(__file__), TARGET_LINE,
                              {LOG_MSG: 'obs3 tracepoint fired', SNAPSHOT: NO_COLLECT})

    def release_when_handler_is_down():
        # the trigger handler is the first thing that is shut down, then the task handler is flushed
        while getattr(agent.trigger_handler, '_TriggerHandler__installed'):
            time.sleep(0.01)
        time.sleep(0.2)
        release.set()

    threading.Thread(target=release_when_handler_is_down, name="obs3-release").start()
    agent.shutdown()
    release.set()

    armed = len(agent.trigger_handler._tp_config)
    mark = len(collect.messages)
    # shutdown has returned, now the application thread goes on
    go.set()
    worker.join(30)
    fired = [m for m in collect.messages[mark:] if 'obs3 tracepoint fired' in m]
    agent.trigger_handler.new_config([])

    if armed or fired:
        print("DEFECT: the agent acts after Deep.shutdown() returned (started=%s): the trigger handler holds %d "
              "tracepoint(s) again, and the tracepoint fired %d time(s) in the application thread after the shutdown, e.g. %r"
              % (agent.started, armed, len(fired), fired[0] if fired else None))
        return 1
    print("OK: nothing happened after shutdown")
    return 0


if __name__ == '__main__':
    code = main()
    sys.stdout.flush()
    os._exit(code)
