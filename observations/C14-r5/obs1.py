"""
Observation 1 (unmodified tree): a start that fails half way leaves the trace hooks installed, and shutdown() does not
put them back.

Deep.start() installs the trace hooks first (trigger_handler.start()), then starts gRPC and the poll, and only then
sets started=True. When one of the later steps raises, the hooks stay installed, and Deep.shutdown() returns at once
("if not self.started: return"). A repeated start() then records the agent's own trace function as "the previous
hooks".

Two ordinary ways to get there:
 a) SERVICE_SECURE given as a bool (deep.start({'SERVICE_SECURE': False})): GRPCService.start does str2bool(False)
    -> AttributeError: 'bool' object has no attribute 'lower'
 b) POLL_TIMER that is not a number (DEEP_POLL_TIMER=10s): LongPoll.start does float('10s') -> ValueError

Exit 1 and a description on the unmodified tree.
"""
import faulthandler
import os
import sys
import threading

faulthandler.dump_traceback_later(120, exit=True)

import deep.logging  # noqa: E402
from deep.api import Deep  # noqa: E402
from deep.config import ConfigService  # noqa: E402


def run(label, custom):
    base = {'SERVICE_URL': '127.0.0.1:1', 'SERVICE_SECURE': 'False', 'POLL_TIMER': 3600,
            'APP_ROOT': os.path.dirname(os.path.abspath(__file__))}
    base.update(custom)
    config = ConfigService(base)
    deep.logging.init(config)
    agent = Deep(config)
    before = (sys.gettrace(), threading.gettrace())
    error = None
    try:
        agent.start()
    except Exception as e:
        error = e
    agent.shutdown()
    after = (sys.gettrace(), threading.gettrace())
    sys.settrace(before[0])
    threading.settrace(before[1])
    if after != before:
        return ["%s: start() raised %r; after shutdown() the hooks are sys=%s threading=%s (before start: %s), "
                "agent.started=%s" % (label, error, getattr(after[0], '__qualname__', after[0]),
                                      getattr(after[1], '__qualname__', after[1]), before, agent.started)]
    return []


def main():
    problems = run("SERVICE_SECURE=False (bool)", {'SERVICE_SECURE': False})
    problems += run("POLL_TIMER='10s'", {'POLL_TIMER': '10s'})
    if problems:
        print("DEFECT: trace hooks are left installed after a failed start + shutdown:")
        for problem in problems:
            print("  - " + problem)
        return 1
    print("OK: hooks restored")
    return 0


if __name__ == '__main__':
    code = main()
    sys.stdout.flush()
    os._exit(code)
