"""
obs1 (unmodified tree) - the client resource can end up WITHOUT a usable service name / with a foreign SDK identity.

Resource.create() guarantees a non-empty service.name (an empty one is replaced by unknown_service:...), but
Deep.start() merges the plugin resources on top of Resource.create() and never looks again.  The shipped OTelPlugin
forwards the attributes of the application's OpenTelemetry TracerProvider resource verbatim, so

 a) a TracerProvider whose resource has service.name == "" leaves the client with service.name == "" in every poll
    and snapshot, and
 b) a TracerProvider with the default OTel resource (Resource.create()) replaces telemetry.sdk.name "deep" by
    "opentelemetry", telemetry.sdk.version by the OTel version, and the service name from DEEP_SERVICE_NAME by
    OTel's "unknown_service".

Exit 1 and a description when this is observed.
"""
import faulthandler
import os
import sys

faulthandler.dump_traceback_later(120, exit=True)
os.environ["DEEP_SERVICE_NAME"] = "checkout"
os.environ.pop("OTEL_SERVICE_NAME", None)
os.environ.pop("OTEL_RESOURCE_ATTRIBUTES", None)

from opentelemetry import trace  # noqa: E402
from opentelemetry.sdk.resources import Resource as OtelResource  # noqa: E402
from opentelemetry.sdk.trace import TracerProvider  # noqa: E402

import deep.logging  # noqa: E402
import deep.version  # noqa: E402
from deep.api import Deep  # noqa: E402
from deep.api.resource import SERVICE_NAME, TELEMETRY_SDK_NAME, TELEMETRY_SDK_VERSION  # noqa: E402
from deep.config import ConfigService  # noqa: E402

if len(sys.argv) == 1:
    # the global tracer provider can be set once per process: run both variants in a process of their own
    import subprocess
    codes = [subprocess.call([sys.executable, __file__, v]) for v in ("empty", "default")]
    sys.exit(1 if any(codes) else 0)

variant = sys.argv[1]
if variant == "empty":
    provider = TracerProvider(resource=OtelResource(attributes={"service.name": ""}))
else:
    provider = TracerProvider()  # what an application gets when it does not say anything
trace.set_tracer_provider(provider)

cfg = ConfigService({'SERVICE_URL': '127.0.0.1:1', 'SERVICE_SECURE': 'False', 'POLL_TIMER': 3600,
                     'APP_ROOT': '/nonexistent-app-root'})
deep.logging.init(cfg)
deep.logging.logging.getLogger("deep").setLevel("CRITICAL")
agent = Deep(cfg)
agent.start()
resource = dict(cfg.resource.attributes)
agent.shutdown()

found = []
if not resource.get(SERVICE_NAME):
    found.append("service.name is %r" % resource.get(SERVICE_NAME))
elif resource.get(SERVICE_NAME) != "checkout":
    found.append("service.name is %r although DEEP_SERVICE_NAME=checkout" % resource.get(SERVICE_NAME))
if resource.get(TELEMETRY_SDK_NAME) != "deep":
    found.append("telemetry.sdk.name is %r, not 'deep'" % resource.get(TELEMETRY_SDK_NAME))
if resource.get(TELEMETRY_SDK_VERSION) != deep.version.__version__:
    found.append("telemetry.sdk.version is %r, the client is %r"
                 % (resource.get(TELEMETRY_SDK_VERSION), deep.version.__version__))
if found:
    print("OBSERVED (%s TracerProvider): %s" % (variant, "; ".join(found)))
    sys.exit(1)
print("not observed")
sys.exit(0)
