"""
obs2 (unmodified tree, minor) - `dropped` of a zero-capacity BoundedAttributes also counts writes that are rejected.

For every other capacity an invalid key/value is rejected without touching `dropped` (the unit tests say "Invalid
values shouldn't be considered for `dropped`"); with max_length == 0 the early return counts the write before the
key/value is validated, so `dropped` (sent as dropped_attributes_count) no longer means "valid attributes evicted".
"""
import sys

from deep.api.attributes import BoundedAttributes

invalid = [("", "empty key"), (None, "no key"), ("k", object()), ("k", [1, "a"]), ("k", b"\xff")]
counts = {}
for capacity in (0, 1, 5, None):
    attrs = BoundedAttributes(capacity, immutable=False)
    for key, value in invalid:
        attrs[key] = value
    counts[capacity] = attrs.dropped
print("dropped after %d rejected writes, by capacity: %r" % (len(invalid), counts))
if len(set(counts.values())) != 1:
    print("OBSERVED: rejected (invalid) writes are counted as drops only when the capacity is 0")
    sys.exit(1)
print("not observed")
