"""
Observation 3 (unmodified tree): a plugin that is switched ON with a boolean in the configuration is skipped.

Plugin.is_active() passes the configured value to str2bool(), which calls .lower() on it. With
{'PLUGIN_MYPLUGIN': True} (a bool, as one writes it in the dict given to deep.start()) that raises AttributeError,
load_plugins() reports "Could not load plugin" at debug level and drops the plugin. (False is 'skipped' by the same
accident; 'True'/'False' as text work.)
"""
import logging as pylogging
import sys

from deep.api.plugin import Plugin, load_plugins
from deep.config import ConfigService

pylogging.getLogger("deep").setLevel(pylogging.CRITICAL)


class MyPlugin(Plugin):
    pass


problems = []
for value, expected in (('True', True), ('False', False), (True, True), (1, True)):
    names = [p.name for p in load_plugins(ConfigService({'PLUGIN_MYPLUGIN': value}), ['__main__.MyPlugin'])]
    if ('MyPlugin' in names) != expected:
        problems.append("PLUGIN_MYPLUGIN=%r: MyPlugin %s (loaded: %s)" % (
            value, "was skipped although it is switched on" if expected else "was loaded although switched off", names))

if problems:
    print("DEFECT (unmodified tree):")
    for problem in problems:
        print(" -", problem)
    sys.exit(1)
print("not reproduced")
sys.exit(0)
