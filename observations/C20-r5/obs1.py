"""
Observation 1 (unmodified tree): a decoration (or resource attribute) that BoundedAttributes ACCEPTS but that cannot be
converted to protobuf costs the whole snapshot, not only the contribution of the plugin that provided it.

Accepted by deep.api.attributes._clean_attribute, rejected by deep.grpc.convert_value / protobuf:
  - an int outside the signed 64 bit range,
  - a sequence with None elements ("None in sequences are valid" in the attribute tests; convert_value(None) is None),
  - a string with a lone surrogate.
convert_snapshot() catches the error, logs "Error converting to protobuf" and returns None; PushService._push_task then
sends nothing. The same values in a Resource provided by a ResourceProvider plugin make every snapshot of the agent
unconvertible (and deep.grpc.convert_resource, used by every poll, raises).
"""
import logging as pylogging
import os
import sys

from deep.api.plugin import SnapshotDecorator, ResourceProvider, load_plugins
from deep.api.resource import Resource
from deep.api.tracepoint.trigger import Location, LocationAction, LineLocation, Trigger
from deep.config import ConfigService
from deep.grpc import convert_resource
from deep.processor.trigger_handler import TriggerHandler
from deep.push import PushService

pylogging.getLogger("deep").setLevel(pylogging.CRITICAL)
pylogging.getLogger().setLevel(pylogging.CRITICAL)

VALUE = None


class OddDecorator(SnapshotDecorator):
    def decorate(self, snapshot_id, context):
        return {'odd': VALUE}


class OddResource(ResourceProvider):
    def resource(self):
        return Resource({'odd': VALUE})


class Sent:
    """Stands in for the gRPC service: records what the SnapshotServiceStub is asked to send."""

    def __init__(self):
        self.sent = []
        self.channel = self

    def unary_unary(self, *args, **kwargs):
        return lambda snapshot, **kw: self.sent.append(snapshot)

    def metadata(self):
        return []


class InlineTasks:
    def submit_task(self, task, *args):
        task(*args)
        return self

    def add_done_callback(self, callback):
        pass


def target(arg):
    val = arg + "x"  # TP
    return val


TP_LINE = target.__code__.co_firstlineno + 1


def run(custom, with_resource):
    config = ConfigService({})
    config.plugins = load_plugins(config, custom)
    resource = Resource.create()
    if with_resource:
        for provider in config.resource_providers:  # as Deep.start() does
            provided = provider.resource()
            if provided:
                resource = resource.merge(provided)
    config.resource = resource
    grpc = Sent()
    handler = TriggerHandler(config, PushService(grpc, InlineTasks()))
    handler.new_config([Trigger(LineLocation(os.path.basename(__file__), TP_LINE, Location.Position.START), [
        LocationAction("tp1", None, {}, LocationAction.ActionType.Snapshot)])])
    sys.settrace(handler.trace_call)
    try:
        target("a")
    finally:
        sys.settrace(None)
    return config, grpc.sent


problems = []
for label, value in [("int > 64 bit", 2 ** 70), ("sequence with None", ['a', None]), ("lone surrogate", 'x\udcff')]:
    VALUE = value
    _, sent = run(['__main__.OddDecorator'], False)
    if len(sent) != 1:
        problems.append("decoration {'odd': %r} (%s) is accepted by BoundedAttributes, and the snapshot is NOT sent "
                        "(%d sent)" % (value, label, len(sent)))
    config, sent = run(['__main__.OddResource'], True)
    if len(sent) != 1:
        problems.append("resource attribute {'odd': %r} (%s) from a ResourceProvider plugin: snapshot NOT sent" % (
            value, label))
    try:
        convert_resource(config.resource)
    except Exception as e:
        problems.append("resource attribute {'odd': %r} (%s): convert_resource (every poll) raises %s" % (
            value, label, type(e).__name__))

VALUE = "fine"
_, sent = run(['__main__.OddDecorator'], False)
if len(sent) != 1 or 'odd' not in [kv.key for kv in sent[0].attributes]:
    problems.append("control run failed: %s" % sent)

if problems:
    print("DEFECT (unmodified tree):")
    for problem in problems:
        print(" -", problem)
    sys.exit(1)
print("not reproduced")
sys.exit(0)
