"""
Observation 2 (unmodified tree): load_plugins() protects the import, the construction and is_active() of a plugin, but
not order(). A plugin whose order() raises, or returns a value that cannot be compared with the ints of the other
plugins (e.g. the text "5" taken from configuration), makes loaded.sort() raise: load_plugins() raises, so Deep.start()
raises before anything is installed - no plugin is loaded and the agent does not start.
"""
import logging as pylogging
import sys

from deep.api import Deep
from deep.api.plugin import Plugin, load_plugins
from deep.config import ConfigService

pylogging.getLogger("deep").setLevel(pylogging.CRITICAL)


class TextOrder(Plugin):
    def order(self):
        return "5"


class RaisingOrder(Plugin):
    def order(self):
        raise RuntimeError("obs2: order() failed")


problems = []
for custom in (['__main__.TextOrder'], ['__main__.RaisingOrder']):
    try:
        loaded = load_plugins(ConfigService({}), custom)
        if len(loaded) < 4:
            problems.append("%s: only %s loaded" % (custom, [p.name for p in loaded]))
    except Exception as e:
        problems.append("load_plugins(custom=%s) raised %s: %s (expected: the 4 shipped plugins are loaded)" % (
            custom, type(e).__name__, e))
    agent = Deep(ConfigService({'PLUGINS': custom, 'SERVICE_URL': '127.0.0.1:1', 'SERVICE_SECURE': 'False',
                                'NO_TRACE': True}))
    try:
        agent.start()  # never gets as far as the network
        agent.shutdown()
    except Exception as e:
        problems.append("Deep.start() with PLUGINS=%s raised %s: the agent did not start (started=%s)" % (
            custom, type(e).__name__, agent.started))

if problems:
    print("DEFECT (unmodified tree):")
    for problem in problems:
        print(" -", problem)
    sys.exit(1)
print("not reproduced")
sys.exit(0)
