"""
Observation 2 (unmodified tree): a failed delivery reconfigures the logging of the application.

deep/task/__init__.py (the done callback of every task) and deep/push/__init__.py (convert_snapshot) report failures with
the module level functions of the standard library, logging.exception(...), not with deep.logging. Those functions call
logging.basicConfig() when the root logger has no handler yet. So the first snapshot that cannot be converted, or the
first send that fails, installs a StreamHandler(stderr) on the ROOT logger of the application - from the agent's worker
thread. From then on every record of every library of the application that propagates to the root logger is written to
stderr (before, only warnings went to the 'last resort' handler), and a later logging.basicConfig(...) of the application
itself silently does nothing. The failure is not "contained there".
"""
import logging
import sys

from deep.push import PushService
from deep.task import TaskHandler

root = logging.getLogger()
for h in list(root.handlers):
    root.removeHandler(h)
before = list(root.handlers)


class NoGrpc:
    channel = None  # not connected: SnapshotServiceStub(None) fails on the worker

    @staticmethod
    def metadata():
        return []


handler = TaskHandler()
push = PushService(NoGrpc(), handler)


class NotASnapshot:
    id = 1


push.push_snapshot(NotASnapshot())  # cannot be converted
handler.flush()
after = list(root.handlers)
print("root logger handlers before: %s" % before)
print("root logger handlers after : %s" % after)
if len(before) == 0 and len(after) > 0:
    print("WRONG: a failed conversion on the worker thread called logging.basicConfig() for the application")
    sys.exit(1)
print("ok")
sys.exit(0)
