"""
Observation 1 (unmodified tree): flush() gives up on a task after 10 seconds.

STATEMENT: "Flushing returns normally after every previously accepted task has finished", quantified over "any subset of
them failing or slow". TaskHandler.flush() waits future.result(10) per task and swallows the TimeoutError, so with a task
that needs longer (a service that answers slowly - stub.send() has no deadline) flush() returns while the task is still
running. With N such tasks it returns after N * 10 s, with none of them finished.
Runs about 13 s.
"""
import sys
import threading
import time

from deep.task import TaskHandler

handler = TaskHandler()
finished = threading.Event()


def slow_upload():
    time.sleep(12)
    finished.set()


handler.submit_task(slow_upload)
started = time.monotonic()
handler.flush()
took = time.monotonic() - started
done = finished.is_set()
print("flush() returned after %.1fs, the accepted task had finished: %s" % (took, done))
finished.wait(15)
if not done:
    print("WRONG: flush() returned normally although a previously accepted (slow) task was still running")
    sys.exit(1)
print("ok")
sys.exit(0)
