"""
Observation 3 (unmodified tree): after os.fork() the child never delivers.

An agent started in a pre-forking server (gunicorn --preload, uwsgi, multiprocessing 'fork') is copied into the child
with its TaskHandler, but the two worker threads of the ThreadPoolExecutor do not exist in the child. The executor
still counts them (len(_threads) == max_workers, idle semaphore > 0), so it never starts new ones: every task handed in
by the child is accepted, never runs, and flush() returns normally after 10 s per task with none of them finished -
silently. (If only one worker existed before the fork, the first task of the child waits until a second one is handed
in.)
Runs about 12 s.
"""
import os
import sys
import threading
import time

from deep.task import TaskHandler

handler = TaskHandler()
barrier = threading.Barrier(2)
# make the handler start both of its workers, as an agent that has delivered a few snapshots has
first = [handler.submit_task(lambda: barrier.wait(5)) for _ in range(2)]
for f in first:
    f.result(10)

read_end, write_end = os.pipe()
pid = os.fork()
if pid == 0:
    os.close(read_end)
    ran = threading.Event()
    future = handler.submit_task(ran.set)
    started = time.monotonic()
    handler.flush()
    took = time.monotonic() - started
    os.write(write_end, ("%s %.1f" % (ran.is_set(), took)).encode())
    os._exit(0)
os.close(write_end)
os.waitpid(pid, 0)
ran, took = os.read(read_end, 100).decode().split()
handler.flush()
print("child: task accepted, flush() returned after %ss, task had run: %s" % (took, ran))
if ran != "True":
    print("WRONG: in a forked child an accepted task is never executed, and flush() returns without it having finished")
    sys.exit(1)
print("ok")
sys.exit(0)
