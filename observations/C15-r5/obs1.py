"""
obs1 (unmodified tree) - an exception that the traced function handles itself completes its span / captured result.

caught(n) raises and catches a ValueError, keeps working and returns n * 2.  relay(n) calls a function that raises and
catches that KeyError.  Both carry a method span and a method_capture snapshot.

C15 says the captured result is "the value returned or the exception raised by that same invocation": both invocations
RETURN a value, yet the snapshot reports the handled exception as the result, and the span is closed at the
'exception' trace event, while the invocation still has work to do (CallbackContext.__check_at_method_end treats every
'exception' event of the frame as the end of the function).

Exits 1 and prints what is wrong when the defect is present, exits 0 otherwise.
"""
import faulthandler
import logging
import os
import sys
import threading

faulthandler.dump_traceback_later(120, exit=True)

from deep.api.plugin.span import SpanProcessor, Span
from deep.api.resource import Resource
from deep.api.tracepoint.constants import STAGE, METHOD_CAPTURE, FIRE_COUNT, FIRE_PERIOD
from deep.api.tracepoint.trigger import Location, LocationAction, Trigger, FunctionLocation
from deep.config import ConfigService
from deep.processor.trigger_handler import TriggerHandler
from deep.push.push_service import PushService

logging.getLogger("deep").addHandler(logging.NullHandler())
logging.getLogger("deep").propagate = False

ME = os.path.basename(__file__)
TIMELINE = []


class RecSpan(Span):
    def __init__(self, name):
        self._name = name

    name = property(lambda self: self._name)
    trace_id = property(lambda self: "0" * 32)
    span_id = property(lambda self: "0" * 16)

    def add_attribute(self, key, value):
        pass

    def add_event(self, name, attributes=None):
        pass

    def close(self):
        TIMELINE.append(("span closed", self._name))


class RecProcessor(SpanProcessor):
    def create_span(self, name, context_id, tracepoint_id):
        TIMELINE.append(("span opened", name))
        return RecSpan(name)

    def current_span(self):
        return None


class RecPush(PushService):
    def __init__(self):
        super().__init__(None, None)

    def push_snapshot(self, snapshot):
        captured = [(w.expression, snapshot.var_lookup[w.result.vid].type, snapshot.var_lookup[w.result.vid].value)
                    for w in snapshot.watches if w.result is not None]
        TIMELINE.append(("snapshot pushed", snapshot.tracepoint.args.get("fn"), captured))


class Config(ConfigService):
    @property
    def resource(self):
        return Resource.get_empty()


def caught(n):
    try:
        raise ValueError("handled inside")
    except ValueError:
        pass
    TIMELINE.append(("still working", "caught"))
    return n * 2


def failing():
    raise KeyError("handled by the caller")


def relay(n):
    try:
        failing()
    except KeyError:
        pass
    TIMELINE.append(("still working", "relay"))
    return n * 3


def main():
    config = Config({})
    config.plugins = [RecProcessor()]
    handler = TriggerHandler(config, RecPush())
    triggers = []
    for fn in ("caught", "relay"):
        triggers.append(Trigger(FunctionLocation(ME, fn, Location.Position.START), [
            LocationAction("tp-capture-" + fn, None, {STAGE: METHOD_CAPTURE, FIRE_COUNT: -1, FIRE_PERIOD: 0, "fn": fn},
                           LocationAction.ActionType.Snapshot),
            LocationAction("tp-span-" + fn, None, {FIRE_COUNT: -1, FIRE_PERIOD: 0}, LocationAction.ActionType.Span)]))
    handler.new_config(triggers)

    results = []

    def worker():
        sys.settrace(handler.trace_call)
        try:
            results.append(caught(21))
            results.append(relay(14))
        finally:
            sys.settrace(None)

    thread = threading.Thread(target=worker)
    thread.start()
    thread.join(60)

    problems = []
    for fn, returned in (("caught", 42), ("relay", 42)):
        working = TIMELINE.index(("still working", fn))
        closed = TIMELINE.index(("span closed", fn))
        if closed < working:
            problems.append("the span of %s() was closed while %s() was still working" % (fn, fn))
        pushed = [e for e in TIMELINE if e[0] == "snapshot pushed" and e[1] == fn]
        if len(pushed) != 1:
            problems.append("%d snapshots for %s()" % (len(pushed), fn))
            continue
        captured = pushed[0][2]
        if captured != [("return", "int", str(returned))]:
            problems.append("%s() returned %d, but the captured result is %r" % (fn, returned, captured))
    if results != [42, 42]:
        problems.append("program disturbed: %r" % (results,))
    if problems:
        print("DEFECT PRESENT: " + "; ".join(problems))
        return 1
    print("ok: captured results are the returned values, spans cover the whole invocation")
    return 0


if __name__ == '__main__':
    code = main()
    faulthandler.cancel_dump_traceback_later()
    sys.exit(code)
