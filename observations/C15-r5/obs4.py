"""
obs4 (unmodified tree) - two ways in which the captured result is not what the invocation produced.

(a) fill(items) appends to the list it was given and returns it.  The method_capture snapshot collects the argument at
    the 'call' event ("Size: 0"); when the function returns, the returned object is looked up in the snapshot's identity
    cache (keyed by id()), found, and the watch 'return' is pointed at the entry-time record: the captured result says
    the function returned an empty list, while it returned a list of two.
(b) guarded() raises ValueError; its 'finally' block ends on a line with a line_capture snapshot.  When the finally
    block is done the exception continues, but CPython reports no further 'exception' event for that frame, only the
    'return' event of the unwinding (arg None): the captured result is "return None" for an invocation that raised.

C15: "A captured result is the value returned or the exception raised by that same invocation".
Exits 1 and prints what is wrong when the defect is present, exits 0 otherwise.
"""
import faulthandler
import logging
import os
import sys
import threading

faulthandler.dump_traceback_later(120, exit=True)

from deep.api.resource import Resource
from deep.api.tracepoint.constants import STAGE, METHOD_CAPTURE, LINE_CAPTURE, FIRE_COUNT, FIRE_PERIOD
from deep.api.tracepoint.trigger import Location, LocationAction, LineLocation, Trigger, FunctionLocation
from deep.config import ConfigService
from deep.processor.trigger_handler import TriggerHandler
from deep.push.push_service import PushService

logging.getLogger("deep").addHandler(logging.NullHandler())
logging.getLogger("deep").propagate = False

ME = os.path.basename(__file__)


class RecPush(PushService):
    def __init__(self):
        super().__init__(None, None)
        self.pushed = {}

    def push_snapshot(self, snapshot):
        self.pushed.setdefault(snapshot.tracepoint.id, []).append(
            [(w.expression, snapshot.var_lookup[w.result.vid].value if w.result else w.error)
             for w in snapshot.watches])


class Config(ConfigService):
    @property
    def resource(self):
        return Resource.get_empty()


def fill(items):
    items.append("a")
    items.append("b")
    return items


def cleanup():
    pass


def guarded():
    try:
        raise ValueError("not handled here")
    finally:
        cleanup()  # MARK


MARK_LINE = [no for no, text in enumerate(open(__file__), 1) if text.strip() == "cleanup()  # MARK"][0]


def main():
    push = RecPush()
    handler = TriggerHandler(Config({}), push)
    unlimited = {FIRE_COUNT: -1, FIRE_PERIOD: 0}
    handler.new_config([
        Trigger(FunctionLocation(ME, "fill", Location.Position.START), [
            LocationAction("fill", None, dict(unlimited, **{STAGE: METHOD_CAPTURE}),
                           LocationAction.ActionType.Snapshot)]),
        Trigger(LineLocation(ME, MARK_LINE, Location.Position.START), [
            LocationAction("guarded-finally", None, dict(unlimited, **{STAGE: LINE_CAPTURE}),
                           LocationAction.ActionType.Snapshot)]),
    ])
    outcome = {}

    def worker():
        sys.settrace(handler.trace_call)
        try:
            outcome["fill"] = fill([])
            try:
                guarded()
            except ValueError as e:
                outcome["guarded"] = e
        finally:
            sys.settrace(None)

    thread = threading.Thread(target=worker)
    thread.start()
    thread.join(60)

    problems = []
    captured = push.pushed.get("fill")
    if captured != [[("return", "Size: 2")]]:
        problems.append("(a) fill() returned %r (Size: 2) but the captured result is %r" % (outcome.get("fill"), captured))
    captured = push.pushed.get("guarded-finally")
    if not captured or len(captured) != 1 or captured[0][0][0] != "exception":
        problems.append("(b) guarded() raised %r but the captured result is %r" % (outcome.get("guarded"), captured))
    if problems:
        print("DEFECT PRESENT: " + "; ".join(problems))
        return 1
    print("ok")
    return 0


if __name__ == '__main__':
    code = main()
    faulthandler.cancel_dump_traceback_later()
    sys.exit(code)
