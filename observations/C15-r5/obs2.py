"""
obs2 (unmodified tree) - a span is opened and never closed when the snapshot next to it cannot be handed over.

TaskHandler.flush() (called by Deep.shutdown(), but it is also the public way to drain the uploads) closes the task
handler for good: every later PushService.push_snapshot() raises IllegalStateException, which derives from
BaseException.  TriggerContext.__exit__ guards each action result with 'except Exception' only, so when a tracepoint
that takes a snapshot AND opens a span is hit after the flush (e.g. by a thread that is in the middle of the trace
event while another thread shuts the agent down), the refused snapshot aborts the result loop: the SpanResult of the
span that was already created is never turned into a callback, and the span is never closed.
(The completing side of this - CallbackContext.process - was fixed in 22a3fe3; the opening side was not.)

Exits 1 and prints what is wrong when the defect is present, exits 0 otherwise.
"""
import faulthandler
import logging
import os
import sys
import threading

faulthandler.dump_traceback_later(120, exit=True)

from deep.api.plugin.span import SpanProcessor, Span
from deep.api.resource import Resource
from deep.api.tracepoint.constants import FIRE_COUNT, FIRE_PERIOD
from deep.api.tracepoint.trigger import Location, LocationAction, Trigger, FunctionLocation
from deep.config import ConfigService
from deep.processor.trigger_handler import TriggerHandler
from deep.push.push_service import PushService
from deep.task import TaskHandler

logging.getLogger("deep").addHandler(logging.NullHandler())
logging.getLogger("deep").propagate = False

ME = os.path.basename(__file__)


class RecSpan(Span):
    def __init__(self, name):
        self._name = name
        self.closes = 0

    name = property(lambda self: self._name)
    trace_id = property(lambda self: "0" * 32)
    span_id = property(lambda self: "0" * 16)

    def add_attribute(self, key, value):
        pass

    def add_event(self, name, attributes=None):
        pass

    def close(self):
        self.closes += 1


class RecProcessor(SpanProcessor):
    def __init__(self):
        self.spans = []

    def create_span(self, name, context_id, tracepoint_id):
        self.spans.append(RecSpan(name))
        return self.spans[-1]

    def current_span(self):
        return None


class RecPush(PushService):
    def __init__(self, task_handler):
        super().__init__(None, task_handler)
        self.uploaded = []

    def _push_task(self, snapshot):
        self.uploaded.append(snapshot)


class Config(ConfigService):
    @property
    def resource(self):
        return Resource.get_empty()


def work(n):
    return n + 1


def main():
    task_handler = TaskHandler()
    config = Config({})
    processor = RecProcessor()
    config.plugins = [processor]
    handler = TriggerHandler(config, RecPush(task_handler))
    handler.new_config([Trigger(FunctionLocation(ME, "work", Location.Position.START), [
        LocationAction("tp-snapshot", None, {FIRE_COUNT: -1, FIRE_PERIOD: 0}, LocationAction.ActionType.Snapshot),
        LocationAction("tp-span", None, {FIRE_COUNT: -1, FIRE_PERIOD: 0}, LocationAction.ActionType.Span)])])

    state = {}

    def worker():
        sys.settrace(handler.trace_call)
        try:
            work(1)  # the agent is healthy
            task_handler.flush()  # uploads drained / agent going down
            work(2)  # the tracepoint is still installed
        finally:
            sys.settrace(None)
        state["pending"] = handler._callbacks.is_set

    thread = threading.Thread(target=worker)
    thread.start()
    thread.join(60)

    closes = [span.closes for span in processor.spans]
    if closes != [1] * len(closes):
        print("DEFECT PRESENT: %d spans were opened by the span tracepoint, close() counts are %r - the span opened "
              "after TaskHandler.flush() is never closed (and nothing is pending that ever would: pending=%r)"
              % (len(closes), closes, state.get("pending")))
        return 1
    print("ok: %d spans opened, all closed exactly once" % len(closes))
    return 0


if __name__ == '__main__':
    code = main()
    faulthandler.cancel_dump_traceback_later()
    sys.exit(code)
