"""
obs3 (unmodified tree) - TriggerHandler.shutdown() strands the pending work of the thread that calls it, and the next
agent in the process inherits it.

shutdown() puts the previous trace function back with sys.settrace(); that switches tracing off for the CALLING thread
at once - also for the frames that are already running.  When the caller is inside a function that has an open span
(e.g. main() carries a span tracepoint and ends with deep.shutdown()), the 'return' event of that function never
arrives: the span is never closed.  Its CallbackContext also stays in ThreadLocal's store - which is a class attribute
shared by every ThreadLocal/TriggerHandler - under the thread's ident, so a TriggerHandler that is created later
(an agent that is started again) finds it there and completes it at some unrelated later call of a function with the
same name: long after the invocation that opened it has returned.

Exits 1 and prints what is wrong when the defect is present, exits 0 otherwise.
"""
import faulthandler
import logging
import os
import sys
import threading

faulthandler.dump_traceback_later(120, exit=True)

from deep.api.plugin.span import SpanProcessor, Span
from deep.api.resource import Resource
from deep.api.tracepoint.constants import FIRE_COUNT, FIRE_PERIOD
from deep.api.tracepoint.trigger import Location, LocationAction, Trigger, FunctionLocation
from deep.config import ConfigService
from deep.processor.trigger_handler import TriggerHandler
from deep.push.push_service import PushService

logging.getLogger("deep").addHandler(logging.NullHandler())
logging.getLogger("deep").propagate = False

ME = os.path.basename(__file__)
PHASE = ["first run"]


class RecSpan(Span):
    def __init__(self, name):
        self._name = name
        self.closes = []

    name = property(lambda self: self._name)
    trace_id = property(lambda self: "0" * 32)
    span_id = property(lambda self: "0" * 16)

    def add_attribute(self, key, value):
        pass

    def add_event(self, name, attributes=None):
        pass

    def close(self):
        self.closes.append(PHASE[0])


class RecProcessor(SpanProcessor):
    def __init__(self):
        self.spans = []

    def create_span(self, name, context_id, tracepoint_id):
        self.spans.append(RecSpan(name))
        return self.spans[-1]

    def current_span(self):
        return None


class NoPush(PushService):
    def __init__(self):
        super().__init__(None, None)

    def push_snapshot(self, snapshot):
        pass


class Config(ConfigService):
    @property
    def resource(self):
        return Resource.get_empty()


def run(agent):
    value = 1 + 1
    if agent is not None:
        agent.shutdown()  # "we are done, stop the agent"
    value += 1
    return value


def main():
    problems = []
    state = {}

    def worker():
        # --- first agent: span tracepoint on run() ---
        config = Config({})
        processor = RecProcessor()
        config.plugins = [processor]
        first = TriggerHandler(config, NoPush())
        first.new_config([Trigger(FunctionLocation(ME, "run", Location.Position.START), [
            LocationAction("tp-span", None, {FIRE_COUNT: -1, FIRE_PERIOD: 0}, LocationAction.ActionType.Span)])])
        first.start()
        run(first)
        state["spans"] = processor.spans
        state["closes_after_first_run"] = [list(s.closes) for s in processor.spans]
        state["pending_after_first_run"] = first._callbacks.is_set

        # --- the agent is started again (new handler, no tracepoints at all) ---
        PHASE[0] = "second agent, unrelated call"
        second = TriggerHandler(Config({}), NoPush())
        state["second_inherits"] = second._callbacks.is_set
        second.start()
        run(None)
        second.shutdown()
        sys.settrace(None)
        threading.settrace(None)

    thread = threading.Thread(target=worker)
    thread.start()
    thread.join(60)

    spans = state.get("spans", [])
    if len(spans) != 1:
        print("unexpected: %d spans opened" % len(spans))
        return 2
    if state["closes_after_first_run"] != [["first run"]]:
        problems.append("the span opened for run() had been closed %d times when run() returned"
                        % len(state["closes_after_first_run"][0]))
    if state["pending_after_first_run"]:
        problems.append("its pending context was still stored for the thread after run() returned")
    if state["second_inherits"]:
        problems.append("a TriggerHandler created afterwards sees that pending work as its own")
    if spans[0].closes and spans[0].closes != ["first run"]:
        problems.append("the span was finally closed during: %r" % (spans[0].closes,))
    if problems:
        print("DEFECT PRESENT: " + "; ".join(problems))
        return 1
    print("ok: the span of run() was closed exactly once, by run()")
    return 0


if __name__ == '__main__':
    code = main()
    faulthandler.cancel_dump_traceback_later()
    sys.exit(code)
