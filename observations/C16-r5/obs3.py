"""
obs3 (unmodified tree) - the message of a log tracepoint is lost when the result of ANOTHER tracepoint on the same
line fails with an error that is not an Exception.

TriggerContext.__exit__() processes the attached results one by one and guards each with "except Exception".
TaskHandler.submit_task() raises IllegalStateException once the task handler has been flushed (Deep.shutdown()), and
IllegalStateException derives from BaseException. So when a snapshot tracepoint and a log tracepoint share a line and
the snapshot cannot be handed to the (closed) task handler, the error leaves the loop, the remaining results are
dropped ("finally: self.__results = []") and the log tracepoint - whose hit was permitted, and is recorded as fired -
emits nothing. With an error that derives from Exception (second part) the log message is emitted as intended.

Reachable in practice only in a narrow window (a thread that is inside a trace event while Deep.shutdown() closes the
task handler), or with a custom push service / task handler, hence low severity.
"""
import faulthandler
import logging
import os
import sys

faulthandler.dump_traceback_later(120, exit=True)

from deep.api.plugin import TracepointLogger  # noqa: E402
from deep.api.resource import Resource  # noqa: E402
from deep.api.tracepoint.constants import LOG_MSG, SNAPSHOT, NO_COLLECT, FIRE_COUNT, FIRE_PERIOD  # noqa: E402
from deep.api.tracepoint.trigger import build_trigger  # noqa: E402
from deep.config import ConfigService  # noqa: E402
from deep.processor.trigger_handler import TriggerHandler  # noqa: E402
from deep.push.push_service import PushService  # noqa: E402
from deep.task import TaskHandler  # noqa: E402


class RecordingLogger(TracepointLogger):
    def __init__(self):
        super().__init__()
        self.logged = []

    def log_tracepoint(self, log_msg: str, tp_id: str, ctx_id: str):
        self.logged.append((tp_id, log_msg))


class BrokenTaskHandler:
    def submit_task(self, task, *args):
        raise RuntimeError("cannot schedule new futures after shutdown")


def target():
    answer = 42
    return answer  # TRACEPOINT


def line_of(marker):
    with open(__file__) as src:
        for no, text in enumerate(src.readlines(), start=1):
            if text.rstrip().endswith("# " + marker):
                return no
    raise AssertionError("marker not found")


def emit(task_handler):
    config = ConfigService({'APP_ROOT': os.path.dirname(os.path.abspath(__file__))})
    config.resource = Resource.get_empty()
    logger = RecordingLogger()
    config.plugins = [logger]
    handler = TriggerHandler(config, PushService(None, task_handler))
    path, line = os.path.basename(__file__), line_of("TRACEPOINT")
    handler.new_config([
        build_trigger("tp-snapshot", path, line, {}, [], []),
        build_trigger("tp-log", path, line, {LOG_MSG: "answer={answer}", SNAPSHOT: NO_COLLECT, FIRE_COUNT: '-1',
                                             FIRE_PERIOD: '0'}, [], []),
    ])
    sys.settrace(handler.trace_call)
    try:
        target()
    finally:
        sys.settrace(None)
    return logger.logged


def main():
    logging.getLogger("deep").addHandler(logging.NullHandler())
    logging.getLogger("deep").propagate = False
    logging.getLogger().addHandler(logging.NullHandler())

    expected = [("tp-log", "[deep] answer=42")]

    control = emit(BrokenTaskHandler())
    print("push fails with RuntimeError (an Exception):          logged=%r" % (control,))

    closed = TaskHandler()
    closed.flush()  # what Deep.shutdown() does
    logged = emit(closed)
    print("push fails with IllegalStateException (BaseException): logged=%r" % (logged,))

    if control != expected:
        print("unexpected: the control case did not emit the message either")
        return 1
    if logged != expected:
        print("the permitted hit of tp-log emitted nothing, because the snapshot of tp-snapshot could not be pushed")
        return 1
    print("the message was emitted in both cases")
    return 0


if __name__ == '__main__':
    code = main()
    sys.stdout.flush()
    os._exit(code)
