"""
obs1 (unmodified tree) - a field whose expression contains ':' or '!' outside of [...] (or a '{') loses the WHOLE message.

LogActionContext.process_log() hands the template to string.Formatter.vformat(). The str.format() mini language
splits every field at the first ':' / '!' that is not inside square brackets into "field_name", "conversion" and
"format_spec" - it knows nothing about python expressions. So for call expressions such as {cfg.get('db:host')},
{fmt(total, sep=':')}, comparisons such as {a != b}, lambdas, dict/set displays ... only the part in front of the
':' / '!' is evaluated (which fails, that would be fine: error text), and then the REST of the expression is used as
a format spec for the error text, or the parser itself rejects the template. Both raise ValueError out of
process_log(): nothing is emitted for the hit, the rest of the message is not produced either, and the hit is
recorded as fired (fire_count is used up).

The statement: "each {expression} field replaced by the string form of that expression evaluated in the paused
frame; a field that cannot be evaluated is replaced by its error text while the rest of the message is still
produced" - quantified over call expressions.
"""
import faulthandler
import logging
import os
import sys

faulthandler.dump_traceback_later(120, exit=True)

from deep.api.plugin import TracepointLogger  # noqa: E402
from deep.api.tracepoint.constants import LOG_MSG, SNAPSHOT, NO_COLLECT, FIRE_COUNT, FIRE_PERIOD  # noqa: E402
from deep.api.tracepoint.trigger import build_trigger  # noqa: E402
from deep.config import ConfigService  # noqa: E402
from deep.processor.trigger_handler import TriggerHandler  # noqa: E402
from deep.push.push_service import PushService  # noqa: E402


class RecordingLogger(TracepointLogger):
    def __init__(self):
        super().__init__()
        self.logged = []

    def log_tracepoint(self, log_msg: str, tp_id: str, ctx_id: str):
        self.logged.append(log_msg)


def target():
    cfg = {'db:host': 'localhost', 'port': 5432}
    a, b = 1, 2
    return cfg, a, b  # TRACEPOINT


def line_of(marker):
    with open(__file__) as src:
        for no, text in enumerate(src.readlines(), start=1):
            if text.rstrip().endswith("# " + marker):
                return no
    raise AssertionError("marker not found")


def emit(template):
    config = ConfigService({})
    logger = RecordingLogger()
    config.plugins = [logger]
    handler = TriggerHandler(config, PushService(None, None))
    handler.new_config([build_trigger("tp", os.path.basename(__file__), line_of("TRACEPOINT"),
                                      {LOG_MSG: template, SNAPSHOT: NO_COLLECT, FIRE_COUNT: '-1', FIRE_PERIOD: '0'},
                                      [], [])])
    sys.settrace(handler.trace_call)
    try:
        target()
    finally:
        sys.settrace(None)
    return logger.logged


def main():
    logging.getLogger("deep").addHandler(logging.NullHandler())
    logging.getLogger("deep").propagate = False
    cases = [
        # control: the same lookups written so that no ':' / '!' is outside of brackets work
        ("host={cfg['db:host']} port={cfg['port']}", "[deep] host=localhost port=5432"),
        ("host={cfg.get('db:host')} port={cfg['port']}", "[deep] host=localhost port=5432"),
        ("differ={a != b} port={cfg['port']}", "[deep] differ=True port=5432"),
        ("n={len({a, b})} port={cfg['port']}", "[deep] n=2 port=5432"),
        ("joined={':'.join(cfg)} port={cfg['port']}", "[deep] joined=db:host:port port=5432"),
    ]
    bad = 0
    for template, expected in cases:
        logged = emit(template)
        ok = logged == [expected]
        print("%-4s %-50r -> %r%s" % ("ok" if ok else "BAD", template, logged,
                                      "" if ok else "   (expected [%r])" % expected))
        if not ok:
            bad += 1
    if bad:
        print("%d of %d templates did not emit the message (the permitted hit produced nothing at all)"
              % (bad, len(cases)))
        return 1
    print("all templates were emitted")
    return 0


if __name__ == '__main__':
    code = main()
    sys.stdout.flush()
    os._exit(code)
