"""
obs2 (unmodified tree) - a field is not evaluated "in the paused frame" when the expression has a nested scope.

TriggerContext.evaluate_expression() runs eval(expression, frame.f_globals, frame.f_locals). With separate globals
and locals mappings, python compiles the body of a generator expression (and of a lambda) inside the expression as a
nested function whose free names are looked up in the GLOBALS only. So a call expression such as
{sum(x * factor for x in items)} or {any(x > limit for x in items)} - valid at that line of the function, where
'factor' / 'limit' are locals - is replaced by the error text "name 'factor' is not defined" instead of the value.
(The first iterable is evaluated in the outer scope, so {sum(x for x in items)} works, and list comprehensions are
inlined in 3.12, so {[x * factor for x in items]} works - which makes the failing cases surprising.)
"""
import faulthandler
import logging
import os
import sys

faulthandler.dump_traceback_later(120, exit=True)

from deep.api.plugin import TracepointLogger  # noqa: E402
from deep.api.tracepoint.constants import LOG_MSG, SNAPSHOT, NO_COLLECT, FIRE_COUNT, FIRE_PERIOD  # noqa: E402
from deep.api.tracepoint.trigger import build_trigger  # noqa: E402
from deep.config import ConfigService  # noqa: E402
from deep.processor.trigger_handler import TriggerHandler  # noqa: E402
from deep.push.push_service import PushService  # noqa: E402


class RecordingLogger(TracepointLogger):
    def __init__(self):
        super().__init__()
        self.logged = []

    def log_tracepoint(self, log_msg: str, tp_id: str, ctx_id: str):
        self.logged.append(log_msg)


def target():
    items = [1, 2, 3]
    factor = 2
    limit = 2
    in_frame = (sum(x * factor for x in items), any(x > limit for x in items))
    return in_frame  # TRACEPOINT


def line_of(marker):
    with open(__file__) as src:
        for no, text in enumerate(src.readlines(), start=1):
            if text.rstrip().endswith("# " + marker):
                return no
    raise AssertionError("marker not found")


def emit(template):
    config = ConfigService({})
    logger = RecordingLogger()
    config.plugins = [logger]
    handler = TriggerHandler(config, PushService(None, None))
    handler.new_config([build_trigger("tp", os.path.basename(__file__), line_of("TRACEPOINT"),
                                      {LOG_MSG: template, SNAPSHOT: NO_COLLECT, FIRE_COUNT: '-1', FIRE_PERIOD: '0'},
                                      [], [])])
    sys.settrace(handler.trace_call)
    try:
        value = target()
    finally:
        sys.settrace(None)
    assert value == (12, True)
    return logger.logged


def main():
    logging.getLogger("deep").addHandler(logging.NullHandler())
    logging.getLogger("deep").propagate = False
    cases = [
        ("plain={sum(x for x in items)}", "[deep] plain=6"),  # control
        ("listcomp={[x * factor for x in items]}", "[deep] listcomp=[2, 4, 6]"),  # control (inlined in 3.12)
        ("weighted={sum(x * factor for x in items)}", "[deep] weighted=12"),
        ("above={any(x > limit for x in items)}", "[deep] above=True"),
    ]
    bad = 0
    for template, expected in cases:
        logged = emit(template)
        ok = logged == [expected]
        print("%-4s %-45r -> %r%s" % ("ok" if ok else "BAD", template, logged,
                                      "" if ok else "   (the frame itself computes %r)" % expected))
        if not ok:
            bad += 1
    if bad:
        print("%d fields were replaced by an error text although the expression is valid in the paused frame" % bad)
        return 1
    print("all fields evaluated as in the frame")
    return 0


if __name__ == '__main__':
    code = main()
    sys.stdout.flush()
    os._exit(code)
