"""
Observation 1 (unmodified tree): after TriggerHandler.shutdown() the agent still acts on a thread that has a pending
deferred action (method_capture / line_capture snapshot): when the function returns, the agent processes the
application's return value (calls its __repr__) and hands a snapshot to the push service.
C14: "afterwards the agent takes no further actions".
"""
import faulthandler
import os
import sys
import threading

faulthandler.dump_traceback_later(60, exit=True)

from deep.api.resource import Resource  # noqa: E402
from deep.api.tracepoint.constants import STAGE, METHOD_CAPTURE  # noqa: E402
from deep.api.tracepoint.trigger import Trigger, FunctionLocation, Location, LocationAction  # noqa: E402
from deep.config import ConfigService  # noqa: E402
from deep.processor.trigger_handler import TriggerHandler  # noqa: E402
from deep.push.push_service import PushService  # noqa: E402

shutdown_done = threading.Event()
inside = threading.Event()
go = threading.Event()
after_shutdown = []


class RecordingPush(PushService):
    def __init__(self):
        super().__init__(None, None)

    def push_snapshot(self, snapshot):
        if shutdown_done.is_set():
            after_shutdown.append("push_snapshot() called")


class Value:
    def __repr__(self):
        if shutdown_done.is_set():
            after_shutdown.append("repr() of the application's return value called")
        return "Value"


def target():
    inside.set()
    go.wait(10)
    return Value()


def main():
    config = ConfigService({'APP_ROOT': os.path.dirname(os.path.abspath(__file__))})
    config.resource = Resource.create()
    handler = TriggerHandler(config, RecordingPush())
    handler.new_config([Trigger(FunctionLocation(os.path.basename(__file__), 'target', Location.Position.START), [
        LocationAction("tp1", None, {STAGE: METHOD_CAPTURE}, LocationAction.ActionType.Snapshot)])])
    old = sys.gettrace(), threading.gettrace()
    handler.start()
    thread = threading.Thread(target=target)
    thread.start()
    inside.wait(10)
    handler.shutdown()
    shutdown_done.set()
    restored = (sys.gettrace(), threading.gettrace()) == old
    go.set()
    thread.join(10)
    if after_shutdown:
        print("DEFECT: hooks restored: %s; but after shutdown() had returned the agent still did: %s" % (
            restored, sorted(set(after_shutdown))))
        return 1
    print("ok: nothing happened after shutdown")
    return 0


if __name__ == '__main__':
    code = main()
    faulthandler.cancel_dump_traceback_later()
    sys.exit(code)
