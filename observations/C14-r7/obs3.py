"""
Observation 3 (unmodified tree): shutdown() called from another thread than start() does not put back the hooks that
were present before start: sys.settrace() only affects the calling thread, so
 - the thread that started the agent keeps the agent's trace function as its sys trace function for good, and
 - the thread that calls shutdown() gets ITS OWN pre-existing sys trace function replaced by the one that the
   starting thread had before start.
C14: "Shutting down puts back exactly the trace hooks that were present before start" for every sequence of
start/shutdown calls and any pre-existing trace functions.
"""
import faulthandler
import sys
import threading

faulthandler.dump_traceback_later(60, exit=True)

from deep.config import ConfigService  # noqa: E402
from deep.processor.trigger_handler import TriggerHandler  # noqa: E402
from deep.push.push_service import PushService  # noqa: E402


def main_hook(frame, event, arg):
    return None


def worker_hook(frame, event, arg):
    return None


def main():
    handler = TriggerHandler(ConfigService({}), PushService(None, None))
    go, done = threading.Event(), threading.Event()
    seen = {}

    def worker():
        sys.settrace(worker_hook)  # this thread has its own trace function (e.g. a profiler/debugger on this thread)
        go.wait(10)
        handler.shutdown()
        seen['worker'] = sys.gettrace()
        sys.settrace(None)
        done.set()

    thread = threading.Thread(target=worker)
    thread.start()
    sys.settrace(main_hook)
    handler.start()
    go.set()
    done.wait(10)
    thread.join(10)
    seen['main'] = sys.gettrace()
    sys.settrace(None)
    threading.settrace(None)

    problems = []
    if seen['main'] is not main_hook:
        problems.append("starting thread: sys.gettrace() is %r after shutdown, was %r before start" % (
            seen['main'], main_hook))
    if seen['worker'] is not worker_hook:
        problems.append("thread calling shutdown(): its own sys trace function %r was replaced by %r" % (
            worker_hook, seen['worker']))
    if problems:
        for problem in problems:
            print("DEFECT: " + problem)
        return 1
    print("ok")
    return 0


if __name__ == '__main__':
    code = main()
    faulthandler.cancel_dump_traceback_later()
    sys.exit(code)
