"""
Observation 2 (unmodified tree): a start() that fails after the trace hooks were installed leaves them installed, and
shutdown() does not put them back (Deep.started is still False, so shutdown() returns at once).

 (a) an unusable POLL_TIMER (e.g. DEEP_POLL_TIMER=10s): LongPoll.start() raises ValueError after
     TriggerHandler.start() has replaced the hooks.
 (b) the sequence start - shutdown - start, when the tracepoint config of the service has changed in between: the task
     handler was closed for good by the first shutdown, the initial poll of the second start gets an UPDATE and
     IllegalStateException (a BaseException, not caught by LongPoll.__initial_poll) leaves Deep.start().

C14: "Shutting down puts back exactly the trace hooks that were present before start ... for every sequence of
start/shutdown calls".
"""
import faulthandler
import sys
import threading
import uuid
from concurrent import futures

faulthandler.dump_traceback_later(120, exit=True)

import grpc  # noqa: E402
import deepproto  # noqa: E402
# noinspection PyUnresolvedReferences
from deepproto.proto.poll.v1.poll_pb2 import PollResponse, ResponseType  # noqa: E402
from deepproto.proto.poll.v1.poll_pb2_grpc import PollConfigServicer  # noqa: E402
# noinspection PyUnresolvedReferences
from deepproto.proto.tracepoint.v1.tracepoint_pb2 import TracePointConfig  # noqa: E402

from deep.api import Deep  # noqa: E402
from deep.config import ConfigService  # noqa: E402


class Poll(PollConfigServicer):
    def __init__(self):
        self.hash = str(uuid.uuid4())
        self.tps = []

    def poll(self, request, context):
        return PollResponse(ts_nanos=request.ts_nanos, current_hash=self.hash, response=self.tps,
                            response_type=ResponseType.NO_CHANGE if request.current_hash == self.hash
                            else ResponseType.UPDATE)


def hooks():
    return sys.gettrace(), threading.gettrace()


def describe(raised, before, agent):
    after_start = hooks()
    agent.shutdown()
    after_shutdown = hooks()
    sys.settrace(before[0])
    threading.settrace(before[1])
    if after_shutdown != before:
        return ["start() raised %r; hooks after that start: %r; after shutdown(): %r (before start: %r)" % (
            raised, after_start, after_shutdown, before)]
    return []


def variant_a():
    before = hooks()
    agent = Deep(ConfigService({'SERVICE_URL': '127.0.0.1:1', 'SERVICE_SECURE': 'False', 'POLL_TIMER': '10s'}))
    raised = None
    try:
        agent.start()
    except BaseException as e:
        raised = e
    return ["(a) " + p for p in describe(raised, before, agent)]


def variant_b():
    server = grpc.server(futures.ThreadPoolExecutor(max_workers=4))
    poll = Poll()
    deepproto.proto.poll.v1.poll_pb2_grpc.add_PollConfigServicer_to_server(poll, server)
    port = server.add_insecure_port('127.0.0.1:0')
    server.start()
    try:
        before = hooks()
        agent = Deep(ConfigService({'SERVICE_URL': '127.0.0.1:%d' % port, 'SERVICE_SECURE': 'False',
                                    'POLL_TIMER': 60}))
        agent.start()
        agent.shutdown()
        if hooks() != before:
            return ["(b) first cycle did not restore the hooks"]
        # the config changes while the agent is down
        poll.tps = [TracePointConfig(ID=str(uuid.uuid4()), path="x.py", line_number=1, args={}, watches=[], metrics=[])]
        poll.hash = str(uuid.uuid4())
        raised = None
        try:
            agent.start()
        except BaseException as e:
            raised = e
        return ["(b) " + p for p in describe(raised, before, agent)]
    finally:
        server.stop(1)


def main():
    problems = variant_a() + variant_b()
    if problems:
        for problem in problems:
            print("DEFECT: " + problem)
        return 1
    print("ok")
    return 0


if __name__ == '__main__':
    code = main()
    faulthandler.cancel_dump_traceback_later()
    sys.exit(code)
