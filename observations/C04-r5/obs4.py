"""
obs4 (unmodified tree): an unrelated change of the polled config re-arms tracepoints that stayed installed.

Every poll response that is not NO_CHANGE is converted with deep.grpc.convert_response, which builds NEW LocationActions
(with new TracepointExecutionStats) for every tracepoint in the response - also for the ones that were already
installed and have used up their fire_count. So a tracepoint with fire_count=1 that has fired, and that the server
never removed, fires again as soon as any other tracepoint is added/removed on the server.
(Tracepoints registered through Deep.register_tracepoint keep their counters, their Trigger objects are re-used.)

Exit 1 and a description if tp-1 (fire_count=1) collects more than once while it stays in the server's config.
"""
import os
import sys

# noinspection PyUnresolvedReferences
from deepproto.proto.tracepoint.v1.tracepoint_pb2 import TracePointConfig

from deep.api.resource import Resource
from deep.config import ConfigService
from deep.grpc import convert_response
from deep.processor.trigger_handler import TriggerHandler
from deep.push.push_service import PushService
from deep.task import TaskHandler


class CapturePush(PushService):
    def __init__(self):
        super().__init__(None, None)
        self.pushed = []

    def push_snapshot(self, snapshot):
        self.pushed.append(snapshot)


def target(n):
    value = n + 1  # TRACEPOINT
    return value


TP_LINE = target.__code__.co_firstlineno + 1
FILE = os.path.basename(__file__)


def run():
    config = ConfigService({})
    config.resource = Resource.get_empty()
    tasks = TaskHandler()
    config.set_task_handler(tasks)
    push = CapturePush()
    handler = TriggerHandler(config, push)

    def hit(times):
        sys.settrace(handler.trace_call)
        try:
            for i in range(times):
                target(i)
        finally:
            sys.settrace(None)

    tp1 = TracePointConfig(ID="tp-1", path=FILE, line_number=TP_LINE, args={'fire_count': '1', 'fire_period': '0'})
    other = TracePointConfig(ID="tp-2", path="some_other_file.py", line_number=1, args={})

    # what LongPoll.poll does with an UPDATE response
    config.tracepoints.update_new_config(1, "hash-1", convert_response([tp1]))
    tasks.flush()
    hit(3)
    first = len(push.pushed)

    # the server gets another tracepoint, tp-1 is unchanged and still in the response
    tasks._open = True
    config.tracepoints.update_new_config(2, "hash-2", convert_response([tp1, other]))
    tasks.flush()
    hit(3)
    second = len(push.pushed)

    by_tp = [s.tracepoint.id for s in push.pushed]
    if first == 1 and second > 1:
        print("DEFECT: tp-1 has fire_count=1 and was never removed, but collected %d snapshots %s: its counters were "
              "reset when the server config changed for an unrelated tracepoint" % (second, by_tp))
        return 1
    print("OK: %d snapshot(s) before, %d after the config change" % (first, second))
    return 0


if __name__ == '__main__':
    sys.exit(run())
