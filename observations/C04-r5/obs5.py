"""
obs5 (unmodified tree, minor): unparsable fire_count / fire_period values are only defaulted when they are strings.

LocationAction.__get_int catches ValueError only. An unparsable STRING ('abc', '1.5', '') falls back to the default
(fire_count 1, fire_period 1000): one collection. An unparsable value of another type (None, a list, a dict - e.g.
register_tracepoint(args={'fire_count': None})) raises TypeError inside can_trigger on EVERY hit: the hit is never
collected (and an exception with traceback is logged for every execution of the line).

Exit 1 and a description if the two kinds of unparsable values behave differently.
"""
import logging
import os
import sys

from deep.api.resource import Resource
from deep.config import ConfigService
from deep.processor.trigger_handler import TriggerHandler
from deep.push.push_service import PushService
from deep.task import TaskHandler


class CapturePush(PushService):
    def __init__(self):
        super().__init__(None, None)
        self.pushed = []

    def push_snapshot(self, snapshot):
        self.pushed.append(snapshot)


class CountErrors(logging.Handler):
    def __init__(self):
        super().__init__()
        self.count = 0

    def emit(self, record):
        if record.levelno >= logging.ERROR:
            self.count += 1


def target(n):
    value = n + 1  # TRACEPOINT
    return value


TP_LINE = target.__code__.co_firstlineno + 1
FILE = os.path.basename(__file__)


def hits(args, count=3):
    config = ConfigService({})
    config.resource = Resource.get_empty()
    tasks = TaskHandler()
    config.set_task_handler(tasks)
    push = CapturePush()
    handler = TriggerHandler(config, push)
    config.tracepoints.add_custom(FILE, TP_LINE, args, [], [])
    tasks.flush()
    errors = CountErrors()
    logger = logging.getLogger("deep")
    logger.addHandler(errors)
    logger.propagate = False
    sys.settrace(handler.trace_call)
    try:
        for i in range(count):
            target(i)
    finally:
        sys.settrace(None)
        logger.removeHandler(errors)
    return len(push.pushed), errors.count


def run():
    problems = []
    for args in [{'fire_count': 'abc'}, {'fire_count': '1.5'}, {'fire_count': ''}, {'fire_count': None},
                 {'fire_count': [2]}, {'fire_count': '-1', 'fire_period': None}]:
        snapshots, errors = hits(args)
        print("%-45s -> %d snapshot(s), %d error(s) logged for 3 hits" % (args, snapshots, errors))
        if snapshots != 1 or errors != 0:
            problems.append(args)
    if problems:
        print("DEFECT: these unparsable settings are not replaced by the defaults (fire_count 1, fire_period 1000), "
              "every hit fails with TypeError in can_trigger instead: %s" % problems)
        return 1
    print("OK")
    return 0


if __name__ == '__main__':
    sys.exit(run())
