"""
obs1 (unmodified tree): a time window given in the tracepoint args is ignored.

window_start / window_end are documented tracepoint args (deep.api.tracepoint.constants) and LocationAction reads them
from its config, but build_snapshot_action / build_log_action / build_metric_action / build_span_action (used by
build_trigger, i.e. by Deep.register_tracepoint and by the poll response conversion) only copy fire_count, fire_period
... into the action config. So a tracepoint whose window ended long ago (or starts in the far future) still collects.

Exit 1 and a description when the window is not enforced.
"""
import os
import sys
import time

from deep.api.resource import Resource
from deep.config import ConfigService
from deep.processor.trigger_handler import TriggerHandler
from deep.push.push_service import PushService
from deep.task import TaskHandler


class CapturePush(PushService):
    def __init__(self):
        super().__init__(None, None)
        self.pushed = []

    def push_snapshot(self, snapshot):
        self.pushed.append(snapshot)


def target(n):
    value = n + 1  # TRACEPOINT
    return value


TP_LINE = target.__code__.co_firstlineno + 1
FILE = os.path.basename(__file__)


def hits(args, count=3):
    config = ConfigService({})
    config.resource = Resource.get_empty()
    tasks = TaskHandler()
    config.set_task_handler(tasks)
    push = CapturePush()
    handler = TriggerHandler(config, push)
    args = dict(args)
    args.update({'fire_count': '-1', 'fire_period': '0'})
    config.tracepoints.add_custom(FILE, TP_LINE, args, [], [])
    tasks.flush()
    sys.settrace(handler.trace_call)
    try:
        for i in range(count):
            target(i)
    finally:
        sys.settrace(None)
    return len(push.pushed)


def run():
    now_ns = time.time_ns()
    hour_ns = 3_600 * 1_000_000_000
    problems = []
    # whatever the unit / type the window is given in, these windows do not contain "now"
    cases = [
        ("window_end one hour ago (ns, int)", {'window_end': now_ns - hour_ns}),
        ("window_end one hour ago (ns, str)", {'window_end': str(now_ns - hour_ns)}),
        ("window_end one hour ago (ms, str)", {'window_end': str((now_ns - hour_ns) // 1_000_000)}),
        ("window_end = 1 (1970)", {'window_end': 1}),
        ("window_start one hour from now (ns, int)", {'window_start': now_ns + hour_ns}),
        ("window_start one hour from now (ns, str)", {'window_start': str(now_ns + hour_ns)}),
        ("window_start in year 2286 (ns)", {'window_start': 9_999_999_999 * 1_000_000_000}),
    ]
    for name, args in cases:
        got = hits(args)
        if got != 0:
            problems.append("%s: %d collections for 3 hits outside the window" % (name, got))
    if problems:
        print("DEFECT: window args are not enforced for tracepoints made by build_trigger:")
        for problem in problems:
            print("   - " + problem)
        return 1
    print("OK: no collection outside the window")
    return 0


if __name__ == '__main__':
    sys.exit(run())
