"""
obs3 (unmodified tree): a hit whose condition is NOT met makes a concurrent hit whose condition IS met lose its collection.

ActionContext.can_trigger claims the hit at the LocationAction (so it counts towards fire_count / fire_period) BEFORE
the condition is evaluated, and gives the claim back when the condition turns out false. While the condition of hit A
is being evaluated, hit B of another thread sees A's claim: fire_period (or fire_count) refuses B, although nothing
has been collected, the limits allow a collection and B's condition holds. A then releases its claim - no collection
at all for this pair of hits.

Scenario: fire_count=1, fire_period default (1000 ms), condition "check(n)". Thread A calls target(0): check(0) waits
until thread B has passed the tracepoint and returns False. Thread B calls target(1): check(1) is True.
Expected: 1 snapshot (from B). Exit 1 and a description if there is none.
"""
import faulthandler
import os
import sys
import threading

faulthandler.dump_traceback_later(90, exit=True)

from deep.api.resource import Resource  # noqa: E402
from deep.config import ConfigService  # noqa: E402
from deep.processor.trigger_handler import TriggerHandler  # noqa: E402
from deep.push.push_service import PushService  # noqa: E402
from deep.task import TaskHandler  # noqa: E402


class CapturePush(PushService):
    def __init__(self):
        super().__init__(None, None)
        self.pushed = []

    def push_snapshot(self, snapshot):
        self.pushed.append(snapshot)


a_in_condition = threading.Event()
b_done = threading.Event()


def check(n):
    """The condition of the tracepoint (evaluated in the scope of the frame: this module's globals)."""
    if n == 0:
        a_in_condition.set()
        b_done.wait(30)
        return False
    return True


def target(n):
    value = n + 1  # TRACEPOINT
    return value


TP_LINE = target.__code__.co_firstlineno + 1
FILE = os.path.basename(__file__)


def run():
    config = ConfigService({})
    config.resource = Resource.get_empty()
    tasks = TaskHandler()
    config.set_task_handler(tasks)
    push = CapturePush()
    handler = TriggerHandler(config, push)
    config.tracepoints.add_custom(FILE, TP_LINE, {'fire_count': '1', 'condition': 'check(n)'}, [], [])
    tasks.flush()

    def worker(n):
        sys.settrace(handler.trace_call)
        try:
            target(n)
        finally:
            sys.settrace(None)

    thread_a = threading.Thread(target=worker, args=(0,), name='hit-A')
    thread_a.start()
    if not a_in_condition.wait(20):
        print("could not set up the scenario")
        b_done.set()
        return 2
    thread_b = threading.Thread(target=worker, args=(1,), name='hit-B')
    thread_b.start()
    thread_b.join(20)
    b_done.set()
    thread_a.join(20)

    if len(push.pushed) == 0:
        print("DEFECT: no snapshot at all: hit B (condition met, nothing collected so far, fire_count=1) was refused "
              "because hit A (condition not met) was still evaluating its condition")
        # the tracepoint is still armed, the same hit alone does collect
        worker(1)
        print("        (the same hit repeated on its own afterwards: %d snapshot)" % len(push.pushed))
        return 1
    print("OK: %d snapshot" % len(push.pushed))
    return 0


if __name__ == '__main__':
    code = run()
    faulthandler.cancel_dump_traceback_later()
    sys.exit(code)
