"""
obs2 (unmodified tree): a delayed hit is collected less than fire_period after an earlier collection.

LocationAction.can_trigger compares the timestamp of a hit only with the LATEST fire (max of last_fire and the claims).
The timestamp of a hit is taken when its trace event starts (TriggerContext.__init__), the limits are checked later.
When a thread is held up between the two (preempted, GIL) until another hit has fired, its own timestamp lies BEFORE
the latest fire; the check |ts - last_fire| >= fire_period then says nothing about the fire before that one.

Sequence (fire_period = 100 ms, fire_count = -1; the clock read by TriggerContext is simulated, the thread of hit A is
held up inside the clock read, i.e. right after its timestamp was taken):
    hit B  ts = 100 ms   -> collected
    hit A  ts = 130 ms   -> timestamp taken, thread held up
    hit C  ts = 250 ms   -> collected (150 ms after B)
    hit A  continues     -> |130 - 250| = 120 ms >= 100 ms -> collected, but only 30 ms after B

Exit 1 and a description if two snapshots are less than fire_period apart.
"""
import faulthandler
import os
import sys
import threading
import time

faulthandler.dump_traceback_later(90, exit=True)

from deep.api.resource import Resource  # noqa: E402
from deep.api.tracepoint.constants import FIRE_COUNT, FIRE_PERIOD  # noqa: E402
from deep.api.tracepoint.trigger import LineLocation, Location, LocationAction, Trigger  # noqa: E402
from deep.config import ConfigService  # noqa: E402
from deep.processor.context import trigger_context as trigger_context_module  # noqa: E402
from deep.processor.trigger_handler import TriggerHandler  # noqa: E402
from deep.push.push_service import PushService  # noqa: E402


class CapturePush(PushService):
    def __init__(self):
        super().__init__(None, None)
        self.pushed = []
        self.lock = threading.Lock()

    def push_snapshot(self, snapshot):
        with self.lock:
            self.pushed.append(snapshot)


def target(n):
    value = n + 1  # TRACEPOINT
    return value


TP_LINE = target.__code__.co_firstlineno + 1
FILE = os.path.basename(__file__)
MS = 1_000_000
BASE = (time.time_ns() // (1000 * MS)) * 1000 * MS

a_has_timestamp = threading.Event()
a_may_continue = threading.Event()
hit_times = {'hit-B': BASE + 100 * MS, 'hit-A': BASE + 130 * MS, 'hit-C': BASE + 250 * MS}


def fake_time_ns():
    """The clock of TriggerContext: the time of the hit; thread hit-A is held up after reading it on the line event."""
    name = threading.current_thread().name
    ts = hit_times.get(name, BASE)
    frame = sys._getframe(2)  # TriggerContext.__init__ <- TriggerHandler.__trace_call(frame, event, arg)
    if name == 'hit-A' and frame.f_locals.get('event') == 'line' and frame.f_locals['frame'].f_lineno == TP_LINE:
        a_has_timestamp.set()
        a_may_continue.wait(30)
    return ts


trigger_context_module.time_ns = fake_time_ns


def run():
    config = ConfigService({})
    config.resource = Resource.get_empty()
    push = CapturePush()
    handler = TriggerHandler(config, push)
    action = LocationAction("tp-obs2", None, {FIRE_COUNT: '-1', FIRE_PERIOD: '100'},
                            LocationAction.ActionType.Snapshot)
    handler.new_config([Trigger(LineLocation(FILE, TP_LINE, Location.Position.START), [action])])

    def worker():
        sys.settrace(handler.trace_call)
        try:
            target(1)
        finally:
            sys.settrace(None)

    def hit(name, wait=True):
        t = threading.Thread(target=worker, name=name)
        t.start()
        if wait:
            t.join(20)
        return t

    hit('hit-B')
    thread_a = hit('hit-A', wait=False)
    if not a_has_timestamp.wait(20):
        print("could not set up the scenario (hit-A did not reach the tracepoint)")
        a_may_continue.set()
        return 2
    hit('hit-C')
    a_may_continue.set()
    thread_a.join(20)

    stamps = sorted(s.ts_nanos for s in push.pushed)
    rel = [(s - BASE) / MS for s in stamps]
    too_close = [(a, b) for a, b in zip(rel, rel[1:]) if b - a < 100]
    if too_close:
        print("DEFECT: fire_period=100ms, snapshots taken for hits at %s ms: %s are less than fire_period apart"
              % (rel, too_close))
        return 1
    print("OK: snapshots at %s ms" % rel)
    return 0


if __name__ == '__main__':
    code = run()
    faulthandler.cancel_dump_traceback_later()
    sys.exit(code)
