"""
Observation 2 (unmodified tree): inside a class body python mangles every name of the form __x (not ending in __) to
_ClassName__x - attributes (self.__secret) as well as plain local variables (__count). The agent evaluates the text of a
condition / watch / log field / metric expression with eval() outside of any class, so the text is NOT mangled: an
expression copied from the very line the tracepoint is on ('self.__limit', '__count > 1') fails with AttributeError /
NameError although these names are visible (and used) at that line. A condition using them is never met; a watch gives
an error value.

Run: cd /tmp/seed7_C10 && PYTHONPATH=/tmp/seed7_C10/src:/tmp/seed7_C10/tests /venv/bin/python /tmp/seed7_C10_out/obs2.py
Exit 1 and a description when the defect is present.
"""
import importlib.util
import logging
import os
import shutil
import sys
import tempfile
import textwrap

from deep.api.plugin import TracepointLogger
from deep.api.resource import Resource
from deep.api.tracepoint.trigger import build_trigger
from deep.config import ConfigService
from deep.processor.trigger_handler import TriggerHandler
from deep.push.push_service import PushService


class Push(PushService):
    def __init__(self):
        super().__init__(None, None)
        self.pushed = []

    def push_snapshot(self, snapshot):
        self.pushed.append(snapshot)


class Logger(TracepointLogger):
    def __init__(self):
        super().__init__()
        self.logged = []

    def log_tracepoint(self, log_msg, tp_id, ctx_id):
        self.logged.append(log_msg)


class Config(ConfigService):
    def __init__(self):
        super().__init__({})
        self.logger = Logger()

    @property
    def tracepoint_logger(self):
        return self.logger

    @property
    def resource(self):
        return Resource.get_empty()


SOURCE = textwrap.dedent('''\
    class Basket:
        def __init__(self):
            self.__limit = 2

        def add(self, items):
            __count = len(items)
            if __count > self.__limit:
                return "too many"
            return "ok"
''')


def main():
    logging.getLogger("deep").setLevel(logging.CRITICAL)
    tmp = tempfile.mkdtemp(prefix="c10_obs2_")
    try:
        path = os.path.join(tmp, "c10_obs2_target.py")
        with open(path, "w") as f:
            f.write(SOURCE)
        spec = importlib.util.spec_from_file_location("c10_obs2_target", path)
        module = importlib.util.module_from_spec(spec)
        spec.loader.exec_module(module)

        config = Config()
        push = Push()
        handler = TriggerHandler(config, push)
        # line 7 is: if __count > self.__limit:   - the condition is that very expression
        handler.new_config([
            build_trigger("tp-cond", "c10_obs2_target.py", 7,
                          {'condition': '__count > self.__limit', 'fire_count': '-1', 'fire_period': '0'}, [], []),
            build_trigger("tp-watch", "c10_obs2_target.py", 7, {'fire_count': '-1', 'fire_period': '0'},
                          ['__count', 'self.__limit'], []),
        ])
        sys.settrace(handler.trace_call)
        try:
            result = module.Basket().add([1, 2, 3])
        finally:
            sys.settrace(None)

        problems = []
        if result != "too many":
            problems.append("unexpected application result %r" % result)
        by_tp = {}
        for snapshot in push.pushed:
            by_tp.setdefault(snapshot.tracepoint.id, []).append(snapshot)
        if len(by_tp.get("tp-cond", [])) != 1:
            problems.append("the condition '__count > self.__limit' is true at that line (the application took the branch), "
                            "but the tracepoint collected %d snapshot(s)" % len(by_tp.get("tp-cond", [])))
        for snapshot in by_tp.get("tp-watch", []):
            for watch in snapshot.watches:
                if watch.result is None:
                    problems.append("watch %r: error %r" % (watch.expression, watch.error))
                    continue
                var = snapshot.var_lookup[watch.result.vid]
                if var.type != 'int':
                    problems.append("watch %r (a name used on that very line) evaluated to %s: %s"
                                    % (watch.expression, var.type, var.value))

        if problems:
            print("DEFECT PRESENT (unmodified tree)")
            for problem in problems:
                print(" -", problem)
            return 1
        print("not reproduced")
        return 0
    finally:
        shutil.rmtree(tmp, ignore_errors=True)


if __name__ == '__main__':
    sys.exit(main())
