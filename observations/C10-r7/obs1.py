"""
Observation 1 (unmodified tree): a log field that is a perfectly valid expression over the frame's locals, but contains
'!' or ':' outside brackets ('n != 3', 'n if n else 0' is fine, '(lambda: n)()', 'n:d', '{"k": n}["k"]'), does not give
an error result for that field: string.Formatter splits the field at the '!' / ':' and then fails with ValueError in
convert_field/format_field, outside of eval_watch. The exception leaves process_log, so the WHOLE action is lost - the
snapshot with its frames and its other (good) watches is never sent, no log line is written - and because
ActionContext.process() marks the action as triggered in its finally block the hit still uses up the fire budget.

Run: cd /tmp/seed7_C10 && PYTHONPATH=/tmp/seed7_C10/src:/tmp/seed7_C10/tests /venv/bin/python /tmp/seed7_C10_out/obs1.py
Exit 1 and a description when the defect is present.
"""
import importlib.util
import logging
import os
import shutil
import sys
import tempfile
import textwrap

from deep.api.plugin import TracepointLogger
from deep.api.resource import Resource
from deep.api.tracepoint.trigger import build_trigger
from deep.config import ConfigService
from deep.processor.trigger_handler import TriggerHandler
from deep.push.push_service import PushService


class Push(PushService):
    def __init__(self):
        super().__init__(None, None)
        self.pushed = []

    def push_snapshot(self, snapshot):
        self.pushed.append(snapshot)


class Logger(TracepointLogger):
    def __init__(self):
        super().__init__()
        self.logged = []

    def log_tracepoint(self, log_msg, tp_id, ctx_id):
        self.logged.append(log_msg)


class Config(ConfigService):
    def __init__(self):
        super().__init__({})
        self.logger = Logger()

    @property
    def tracepoint_logger(self):
        return self.logger

    @property
    def resource(self):
        return Resource.get_empty()


SOURCE = textwrap.dedent('''\
    def handle(items):
        n = len(items)
        return n
''')


def main():
    logging.getLogger("deep").setLevel(logging.CRITICAL)
    tmp = tempfile.mkdtemp(prefix="c10_obs1_")
    try:
        path = os.path.join(tmp, "c10_obs1_target.py")
        with open(path, "w") as f:
            f.write(SOURCE)
        spec = importlib.util.spec_from_file_location("c10_obs1_target", path)
        module = importlib.util.module_from_spec(spec)
        spec.loader.exec_module(module)

        problems = []
        for field in ['n != 3', '(lambda: n)()', 'n:d']:
            config = Config()
            push = Push()
            handler = TriggerHandler(config, push)
            # a snapshot tracepoint with a good watch and a log message; fire_count 2, no rate limit
            handler.new_config([build_trigger("tp", "c10_obs1_target.py", 3,
                                              {'log_msg': 'n={n} field={%s}' % field, 'fire_count': '2',
                                               'fire_period': '0'}, ['n'], [])])
            sys.settrace(handler.trace_call)
            try:
                module.handle([1, 2])
            finally:
                sys.settrace(None)
            if len(push.pushed) != 1 or len(config.logger.logged) != 1:
                problems.append("log field {%s}: the hit produced %d snapshot(s) and %d log line(s); the good watch 'n', "
                                "the frame variables and the good field {n} are lost with the one bad field"
                                % (field, len(push.pushed), len(config.logger.logged)))
            # and the budget (read from the action's statistics: every later hit would fail the same way)
            action = handler._tp_config[0].actions[0]
            used = action._LocationAction__stats.fire_count
            if used != 0 and len(push.pushed) == 0:
                problems.append("log field {%s}: the hit that produced nothing was recorded as a fire "
                                "(fire_count used: %d of 2)" % (field, used))

        if problems:
            print("DEFECT PRESENT (unmodified tree)")
            for problem in problems:
                print(" -", problem)
            return 1
        print("not reproduced")
        return 0
    finally:
        shutil.rmtree(tmp, ignore_errors=True)


if __name__ == '__main__':
    sys.exit(main())
