"""
Observation 3 (unmodified tree): a metric expression (or a metric label expression) whose value cannot be converted
fails for more than that expression when the failure is a BaseException that is not an Exception.

MetricActionContext._process_metric does float(evaluate_expression(...)) / str(evaluate_expression(...)) under
'except Exception'. evaluate_expression itself contains every BaseException, but the conversion runs application code
again (__float__, __str__). If that raises e.g. a BaseException subclass the application uses for cancellation
(asyncio.CancelledError, KeyboardInterrupt, a home-made Abort(BaseException)), the exception leaves _process_metric,
and with it _process_action: the OTHER metrics of the tracepoint - whose expressions are fine - are never recorded.
(With an Exception subclass the same metric falls back to the default value 1 / 'expression failed' and the others are
recorded.)

Run: cd /tmp/seed7_C10 && PYTHONPATH=/tmp/seed7_C10/src:/tmp/seed7_C10/tests /venv/bin/python /tmp/seed7_C10_out/obs3.py
Exit 1 and a description when the defect is present.
"""
import importlib.util
import logging
import os
import shutil
import sys
import tempfile
import textwrap

from deep.api.plugin.metric import MetricProcessor
from deep.api.resource import Resource
from deep.api.tracepoint.tracepoint_config import MetricDefinition, LabelExpression
from deep.api.tracepoint.trigger import build_trigger
from deep.config import ConfigService
from deep.processor.trigger_handler import TriggerHandler
from deep.push.push_service import PushService


class Push(PushService):
    def __init__(self):
        super().__init__(None, None)
        self.pushed = []

    def push_snapshot(self, snapshot):
        self.pushed.append(snapshot)


class Metrics(MetricProcessor):
    def __init__(self):
        super().__init__("obs-metrics")
        self.seen = []

    def counter(self, name, labels, namespace, help_string, unit, value):
        self.seen.append((name, labels, value))

    gauge = histogram = summary = counter


class Config(ConfigService):
    def __init__(self):
        super().__init__({})

    @property
    def resource(self):
        return Resource.get_empty()


SOURCE = textwrap.dedent('''\
    class Abort(BaseException):
        """Used by the application to unwind its workers (like asyncio.CancelledError)."""


    class Reading:
        def __init__(self, value, closed, error):
            self.value = value
            self.closed = closed
            self.error = error

        def __float__(self):
            if self.closed:
                raise self.error("reading is closed")
            return float(self.value)

        __str__ = lambda self: str(float(self))


    def handle(reading, size):
        done = True
        return done
''')


def run(module, error_name, as_label):
    config = Config()
    metrics = Metrics()
    config.plugins = [metrics]
    handler = TriggerHandler(config, Push())
    if as_label:
        first = MetricDefinition("first", "counter", labels=[LabelExpression("reading", expression="reading")])
    else:
        first = MetricDefinition("first", "counter", expression="reading")
    handler.new_config([build_trigger("tp", "c10_obs3_target.py", 21, {'fire_count': '-1', 'fire_period': '0'}, [],
                                      [first, MetricDefinition("second", "counter", expression="size")])])
    sys.settrace(handler.trace_call)
    try:
        module.handle(module.Reading(3, True, getattr(module, error_name, None) or ValueError), 7)
    finally:
        sys.settrace(None)
    return metrics.seen


def main():
    logging.getLogger("deep").setLevel(logging.CRITICAL)
    tmp = tempfile.mkdtemp(prefix="c10_obs3_")
    try:
        path = os.path.join(tmp, "c10_obs3_target.py")
        with open(path, "w") as f:
            f.write(SOURCE)
        spec = importlib.util.spec_from_file_location("c10_obs3_target", path)
        module = importlib.util.module_from_spec(spec)
        spec.loader.exec_module(module)

        problems = []
        for as_label in (False, True):
            kind = "label expression" if as_label else "metric expression"
            control = run(module, "ValueError", as_label)
            if [m for m in control if m[0] == 'second'] != [('second', {}, 7.0)]:
                problems.append("control (%s failing with ValueError): unexpected metrics %r" % (kind, control))
            seen = run(module, "Abort", as_label)
            if [m for m in seen if m[0] == 'second'] != [('second', {}, 7.0)]:
                problems.append("%s 'reading' fails in its conversion with Abort(BaseException): the metric 'second' "
                                "(expression 'size', which is fine) was not recorded; recorded metrics: %r"
                                % (kind, seen))

        if problems:
            print("DEFECT PRESENT (unmodified tree)")
            for problem in problems:
                print(" -", problem)
            return 1
        print("not reproduced")
        return 0
    finally:
        shutil.rmtree(tmp, ignore_errors=True)


if __name__ == '__main__':
    sys.exit(main())
