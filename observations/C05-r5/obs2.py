"""
obs2 (unmodified tree): with frame_type = all_frame the budget is not spent breadth first across the frames.

Each frame is searched to its full depth before the next frame is looked at, so the contents of one large structure in
the innermost frame use up MAX_VARIABLES and the locals of the calling frames (depth 1 of their frame) are crowded out
by values of depth 2 and 3.
"""
import os
import sys

from deep.api.resource import Resource
from deep.api.tracepoint.trigger import Location, LocationAction, LineLocation, Trigger
from deep.config import ConfigService
from deep.processor.trigger_handler import TriggerHandler
from deep.push.push_service import PushService


class Push(PushService):
    def __init__(self):
        super().__init__(None, None)
        self.pushed = []

    def push_snapshot(self, snapshot):
        self.pushed.append(snapshot)


class Config(ConfigService):
    @property
    def resource(self):
        return Resource.get_empty()


from deep.api.tracepoint.constants import FRAME_TYPE, ALL_FRAME_TYPE


def target():
    big = [["cell-%d-%d" % (i, j) for j in range(10)] for i in range(10)]
    return big  # TRACEPOINT


def caller():
    caller_local_a = "a"
    caller_local_b = "b"
    return target(), caller_local_a, caller_local_b


def line_of(marker):
    with open(__file__) as f:
        for no, line in enumerate(f, 1):
            if line.rstrip().endswith(marker):
                return no
    raise RuntimeError("marker not found")


def snapshot_with(config):
    push = Push()
    handler = TriggerHandler(Config({}), push)
    location = LineLocation(os.path.basename(__file__), line_of("# TRACEPOINT"), Location.Position.START)
    handler.new_config([Trigger(location, [LocationAction("tp-1", None, config, LocationAction.ActionType.Snapshot)])])
    sys.settrace(handler.trace_call)
    try:
        caller()
    finally:
        sys.settrace(None)
    if len(push.pushed) != 1:
        print("FAIL: expected one snapshot, got %d" % len(push.pushed))
        sys.exit(1)
    return push.pushed[0]



def main():
    snapshot = snapshot_with({'MAX_VARIABLES': 30, FRAME_TYPE: ALL_FRAME_TYPE})
    frames = {f.method_name: f for f in snapshot.frames}
    inner = frames['target']
    outer = frames['caller']
    outer_names = [v.name for v in outer.variables]
    # count what was recorded below the locals of the innermost frame
    deep_values = 0
    level = [c.vid for v in inner.variables for c in snapshot.var_lookup[v.vid].children]
    seen = set()
    while level:
        nxt = []
        for vid in level:
            if vid in seen or vid not in snapshot.var_lookup:
                continue
            seen.add(vid)
            deep_values += 1
            nxt += [c.vid for c in snapshot.var_lookup[vid].children]
        level = nxt
    print("variables recorded: %d (MAX_VARIABLES 30)" % len(snapshot.var_lookup))
    print("frame 'target': locals %s, %d values of depth >= 2 recorded" % ([v.name for v in inner.variables], deep_values))
    print("frame 'caller': locals %s" % outer_names)
    if deep_values > 0 and not {'caller_local_a', 'caller_local_b'} <= set(outer_names):
        print("WRONG: the locals of frame 'caller' were crowded out by %d deeper values of frame 'target'" % deep_values)
        sys.exit(1)
    print("ok")


if __name__ == '__main__':
    main()
