"""
obs3 (unmodified tree, weaker than obs1/obs2): strings in the snapshot that no limit applies to.

MAX_STRING_LENGTH is applied to Variable.value only.  The name of a child (VariableId.name) is str(key) of the
dictionary key, uncut, and the interpolated log message of the snapshot (snapshot.log_msg) contains str(value) of every
expression, uncut - so "however large the program's data" the snapshot is not bounded: one long key or one long string
that is mentioned in the log message is copied in full.
"""
import os
import sys

from deep.api.resource import Resource
from deep.api.tracepoint.trigger import Location, LocationAction, LineLocation, Trigger
from deep.config import ConfigService
from deep.processor.trigger_handler import TriggerHandler
from deep.push.push_service import PushService


class Push(PushService):
    def __init__(self):
        super().__init__(None, None)
        self.pushed = []

    def push_snapshot(self, snapshot):
        self.pushed.append(snapshot)


class Config(ConfigService):
    @property
    def resource(self):
        return Resource.get_empty()


from deep.api.tracepoint.constants import LOG_MSG


def target():
    table = {"k" * 200000: 1}
    text = "t" * 300000
    return table, text  # TRACEPOINT


def line_of(marker):
    with open(__file__) as f:
        for no, line in enumerate(f, 1):
            if line.rstrip().endswith(marker):
                return no
    raise RuntimeError("marker not found")


def snapshot_with(config):
    push = Push()
    handler = TriggerHandler(Config({}), push)
    location = LineLocation(os.path.basename(__file__), line_of("# TRACEPOINT"), Location.Position.START)
    handler.new_config([Trigger(location, [LocationAction("tp-1", None, config, LocationAction.ActionType.Snapshot)])])
    sys.settrace(handler.trace_call)
    try:
        target()
    finally:
        sys.settrace(None)
    if len(push.pushed) != 1:
        print("FAIL: expected one snapshot, got %d" % len(push.pushed))
        sys.exit(1)
    return push.pushed[0]



def main():
    snapshot = snapshot_with({LOG_MSG: "text is {text}"})
    limit = 1024
    longest_value = max(len(v.value) for v in snapshot.var_lookup.values())
    longest_name = max(len(c.name) for v in snapshot.var_lookup.values() for c in v.children)
    print("longest Variable.value: %d, longest child name: %d, log_msg length: %d (MAX_STRING_LENGTH %d)"
          % (longest_value, longest_name, len(snapshot.log_msg), limit))
    if longest_name > limit or len(snapshot.log_msg) > limit + 100:
        print("WRONG: the snapshot holds strings copied from the program's data that are longer than MAX_STRING_LENGTH")
        sys.exit(1)
    print("ok")


if __name__ == '__main__':
    main()
