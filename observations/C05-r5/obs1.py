"""
obs1 (unmodified tree): a string value longer than MAX_STRING_LENGTH in the snapshot that is pushed.

The collector cuts string values to MAX_STRING_LENGTH characters.  When the snapshot is converted to protobuf
(deep.push.convert_snapshot, the object PushService sends), values that contain lone surrogates (e.g. file names or
command line arguments decoded with surrogateescape) are re-encoded with 'backslashreplace': every such character becomes
six characters, AFTER the limit was applied, and the 'truncated' flag is not touched.
"""
import os
import sys

from deep.api.resource import Resource
from deep.api.tracepoint.trigger import Location, LocationAction, LineLocation, Trigger
from deep.config import ConfigService
from deep.processor.trigger_handler import TriggerHandler
from deep.push.push_service import PushService


class Push(PushService):
    def __init__(self):
        super().__init__(None, None)
        self.pushed = []

    def push_snapshot(self, snapshot):
        self.pushed.append(snapshot)


class Config(ConfigService):
    @property
    def resource(self):
        return Resource.get_empty()


from deep.push import convert_snapshot


def target():
    name = b"\xff\xfe\xfd\xfc\xfb\xfa\xf9\xf8".decode("utf-8", "surrogateescape") * 40   # 320 characters, the default limit is 1024
    return name  # TRACEPOINT


def line_of(marker):
    with open(__file__) as f:
        for no, line in enumerate(f, 1):
            if line.rstrip().endswith(marker):
                return no
    raise RuntimeError("marker not found")


def snapshot_with(config):
    push = Push()
    handler = TriggerHandler(Config({}), push)
    location = LineLocation(os.path.basename(__file__), line_of("# TRACEPOINT"), Location.Position.START)
    handler.new_config([Trigger(location, [LocationAction("tp-1", None, config, LocationAction.ActionType.Snapshot)])])
    sys.settrace(handler.trace_call)
    try:
        target()
    finally:
        sys.settrace(None)
    if len(push.pushed) != 1:
        print("FAIL: expected one snapshot, got %d" % len(push.pushed))
        sys.exit(1)
    return push.pushed[0]



def main():
    limit = 1024  # the default; (limits given as numbers in the action config cannot be converted to protobuf args)
    snapshot = snapshot_with({})
    inner = [snapshot.var_lookup[v.vid] for v in snapshot.frames[0].variables if v.name == 'name'][0]
    proto = convert_snapshot(snapshot)
    if proto is None:
        print("snapshot could not be converted")
        sys.exit(1)
    too_long = [(k, len(v.value), v.truncated) for k, v in proto.var_lookup.items() if len(v.value) > limit]
    print("collector: value length %d, truncated=%s" % (len(inner.value), inner.truncated))
    if too_long:
        print("WRONG: pushed snapshot holds string values longer than MAX_STRING_LENGTH=%d: %s (id, length, truncated)"
              % (limit, too_long))
        sys.exit(1)
    print("ok")


if __name__ == '__main__':
    main()
