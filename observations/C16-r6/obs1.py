"""
Observation 1 (unmodified tree, C16): a log template with a field that the str.format mini language does not accept
as it stands - a format spec meant for the value ('{price:.2f}', '{n:05d}'), or a valid python expression that contains
'!' or ':' outside brackets or braces of its own ('{n != 6}', a lambda, a dict display) - produces NO message at all,
and a collecting tracepoint loses its snapshot as well. The hit is still counted against fire_count.

The property asks for one message per permitted hit, with a field that cannot be evaluated replaced by its error text
and the rest of the message still produced.

Run: cd /tmp/seed6_C16 && PYTHONPATH=/tmp/seed6_C16/src:/tmp/seed6_C16/tests /venv/bin/python obs1.py
(exit 1 and a description of what is wrong on the unmodified tree)
"""
import faulthandler
import logging
import os
import sys

faulthandler.dump_traceback_later(120, exit=True)

from deep.api.plugin import TracepointLogger  # noqa: E402
from deep.api.resource import Resource  # noqa: E402
from deep.api.tracepoint.constants import LOG_MSG  # noqa: E402
from deep.api.tracepoint.trigger import Location, LocationAction, LineLocation, Trigger  # noqa: E402
from deep.config import ConfigService  # noqa: E402
from deep.processor.trigger_handler import TriggerHandler  # noqa: E402
from deep.push.push_service import PushService  # noqa: E402

logging.getLogger("deep").setLevel(logging.CRITICAL)


class Push(PushService):
    def __init__(self):
        super().__init__(None, None)
        self.pushed = []

    def push_snapshot(self, snapshot):
        self.pushed.append(snapshot)


class Logger(TracepointLogger):
    def __init__(self):
        super().__init__()
        self.logged = []

    def log_tracepoint(self, log_msg, tp_id, ctx_id):
        self.logged.append((log_msg, tp_id, ctx_id))


def target(items):
    n = 5
    price = 3.14159
    return n, price, items  # TRACEPOINT


LINE = [no for no, text in enumerate(open(__file__).read().splitlines(), 1) if text.endswith('# TRACEPOINT')][0]

TEMPLATES = [
    "n is {n} end",  # control, works
    "price {price:.2f} end",
    "padded {n:05d} end",
    "differs {n != 6} end",
    "sorted {sorted(items, key=lambda v: -v)} end",
    "picked { {'a': 1}['a'] } end",
]


def run(template, collect):
    config = ConfigService({})
    logger = Logger()
    config.plugins = [logger]
    config.resource = Resource.get_empty()
    push = Push()
    handler = TriggerHandler(config, push)
    location = LineLocation(os.path.basename(__file__), LINE, Location.Position.START)
    action_type = LocationAction.ActionType.Snapshot if collect else LocationAction.ActionType.Log
    action = LocationAction("tp-1", None, {LOG_MSG: template}, action_type)
    handler.new_config([Trigger(location, [action])])
    sys.settrace(handler.trace_call)
    try:
        target([1, 3, 2])
    finally:
        sys.settrace(None)
    return logger.logged, push.pushed


def main():
    wrong = []
    for template in TEMPLATES:
        for collect in (False, True):
            logged, pushed = run(template, collect)
            mode = "collecting" if collect else "log only"
            ok = len(logged) == 1 and logged[0][0].startswith("[deep] ") and logged[0][0].endswith(" end")
            if collect:
                ok = ok and len(pushed) == 1 and pushed[0].log_msg == logged[0][0]
            if not ok:
                wrong.append("%r (%s): %d message(s) %r, %d snapshot(s)" % (
                    template, mode, len(logged), [entry[0] for entry in logged], len(pushed)))
    if wrong:
        print("WRONG on this tree: the hit is permitted, but no message is produced (and no snapshot is pushed):")
        for line in wrong:
            print("  - " + line)
        return 1
    print("every template produced its message")
    return 0


if __name__ == '__main__':
    sys.exit(main())
