"""
Observation 2 (unmodified tree, C16): a field is not always evaluated 'in the paused frame'. In a method, the
expression 'self.__secret' is valid source at that very line (the compiler mangles it to self._Priv__secret); the
log field {self.__secret} is evaluated outside the class, is not mangled, and is replaced by an AttributeError text.

Run: cd /tmp/seed6_C16 && PYTHONPATH=/tmp/seed6_C16/src:/tmp/seed6_C16/tests /venv/bin/python obs2.py
(exit 1 and a description of what is wrong on the unmodified tree)
"""
import faulthandler
import logging
import os
import sys

faulthandler.dump_traceback_later(120, exit=True)

from deep.api.plugin import TracepointLogger  # noqa: E402
from deep.api.resource import Resource  # noqa: E402
from deep.api.tracepoint.constants import LOG_MSG  # noqa: E402
from deep.api.tracepoint.trigger import Location, LocationAction, LineLocation, Trigger  # noqa: E402
from deep.config import ConfigService  # noqa: E402
from deep.processor.trigger_handler import TriggerHandler  # noqa: E402
from deep.push.push_service import PushService  # noqa: E402

logging.getLogger("deep").setLevel(logging.CRITICAL)


class Logger(TracepointLogger):
    def __init__(self):
        super().__init__()
        self.logged = []

    def log_tracepoint(self, log_msg, tp_id, ctx_id):
        self.logged.append((log_msg, tp_id, ctx_id))


class Priv:
    def __init__(self):
        self.__secret = 42

    def show(self, n):
        in_frame = str(self.__secret)  # what the expression is worth in this frame
        return in_frame, n  # TRACEPOINT


LINE = [no for no, text in enumerate(open(__file__).read().splitlines(), 1) if text.endswith('# TRACEPOINT')][0]


def main():
    config = ConfigService({})
    logger = Logger()
    config.plugins = [logger]
    config.resource = Resource.get_empty()
    handler = TriggerHandler(config, PushService(None, None))
    location = LineLocation(os.path.basename(__file__), LINE, Location.Position.START)
    handler.new_config([Trigger(location, [
        LocationAction("tp-1", None, {LOG_MSG: "secret={self.__secret}"}, LocationAction.ActionType.Log)])])
    obj = Priv()
    sys.settrace(handler.trace_call)
    try:
        in_frame, _ = obj.show(1)
    finally:
        sys.settrace(None)
    expected = "[deep] secret=%s" % in_frame
    got = [entry[0] for entry in logger.logged]
    if got != [expected]:
        print("WRONG on this tree: at the tracepoint line 'self.__secret' is %s, the log tracepoint emitted %r "
              "(expected %r)" % (in_frame, got, expected))
        return 1
    print("field evaluated as in the frame: %r" % got)
    return 0


if __name__ == '__main__':
    sys.exit(main())
