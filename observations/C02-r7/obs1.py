"""
Observation on the UNMODIFIED tree: the tracepoint a snapshot names does not carry the arguments the tracepoint was
configured with.

A tracepoint is registered the way the poll response / Deep.register_tracepoint does it (build_trigger) with the
arguments {'condition': 'value > 1', 'fire_count': '5', 'team': 'checkout'}.  The snapshot that is produced reports
snapshot.tracepoint.args without 'condition' and 'team', and with arguments nobody configured
('frame_type', 'stack_type', 'fire_period').

Exit 1 = the defect is present.
"""
import faulthandler
import inspect
import os
import sys

faulthandler.dump_traceback_later(60, exit=True)

from deep import logging as deep_logging  # noqa: E402
from deep.api.resource import Resource  # noqa: E402
from deep.api.tracepoint.trigger import build_trigger  # noqa: E402
from deep.config import ConfigService  # noqa: E402
from deep.processor.trigger_handler import TriggerHandler  # noqa: E402
from deep.push import convert_snapshot  # noqa: E402
from deep.push.push_service import PushService  # noqa: E402


class CollectingPush(PushService):
    def __init__(self):
        super().__init__(None, None)
        self.pushed = []

    def push_snapshot(self, snapshot):
        self.pushed.append(snapshot)


def work(value):
    result = value * 2
    return result  # TRACEPOINT


def main():
    config = ConfigService({'APP_ROOT': os.path.dirname(os.path.abspath(__file__))})
    config.resource = Resource.get_empty()
    deep_logging.init(config)
    push = CollectingPush()
    handler = TriggerHandler(config, push)
    lines, start = inspect.getsourcelines(work)
    line = start + [i for i, text in enumerate(lines) if '# TRACEPOINT' in text][0]
    configured = {'condition': 'value > 1', 'fire_count': '5', 'team': 'checkout'}
    handler.new_config([build_trigger('tp-1', os.path.basename(__file__), line, dict(configured), ['result'], [])])

    sys.settrace(handler.trace_call)
    try:
        work(21)
    finally:
        sys.settrace(None)

    if len(push.pushed) != 1:
        print('inconclusive: expected one snapshot, got %d' % len(push.pushed))
        return 2
    reported = dict(convert_snapshot(push.pushed[0]).tracepoint.args)
    if reported == configured:
        print('ok: the snapshot reports the configured arguments')
        return 0
    print('DEFECT: tracepoint configured with args %s' % configured)
    print('        the snapshot names a tracepoint with args %s' % reported)
    print('        missing: %s   not configured: %s' % (sorted(set(configured) - set(reported)),
                                                         sorted(set(reported) - set(configured))))
    return 1


if __name__ == '__main__':
    sys.exit(main())
