"""
Observation 7 (unmodified tree): a method capture / line capture that is configured the way the service and
Deep.register_tracepoint() configure tracepoints (build_trigger() with args {'stage': 'method_capture', ...}) is never
deferred: build_snapshot_action() does not copy 'stage' into the action's config, SnapshotActionContext._is_deferred()
looks for it there. The snapshot is sent at the call, without the returned value. (Only a LocationAction built by hand
with STAGE in its config - as the unit tests do - is deferred.)
"""
import os
import sys

sys.path.insert(0, os.path.dirname(os.path.abspath(__file__)))
from obs_common import make, captured  # noqa: E402
from deep.api.tracepoint.trigger import build_trigger  # noqa: E402

ME = os.path.basename(__file__)
timeline = []


def compute(value):
    timeline.append("body")
    return value * 2


def main():
    config, spans, push, handler = make()
    original = push.push_snapshot
    push.push_snapshot = lambda snapshot: (timeline.append("snapshot"), original(snapshot))
    trigger = build_trigger("tp-1", ME, 0, {"stage": "method_capture", "method_name": "compute", "fire_count": "-1"},
                            [], [])
    handler.new_config([trigger])
    sys.settrace(handler.trace_call)
    try:
        compute(21)
    finally:
        sys.settrace(None)

    problems = []
    if len(push.pushed) != 1:
        problems.append("expected one snapshot, got %d" % len(push.pushed))
    for snapshot in push.pushed:
        if captured(snapshot) != [("return", "42")]:
            problems.append("compute() returned 42, the captured result of the method capture is %s; order of events: "
                            "%s" % (captured(snapshot), timeline))
    if problems:
        print("DEFECT (unmodified tree):")
        for problem in problems:
            print(" -", problem)
        return 1
    print("not reproduced")
    return 0


if __name__ == "__main__":
    sys.exit(main())
