"""Shared helpers of the obsK.py scripts (real TriggerHandler / ConfigService, recording push service and spans)."""
import logging
import threading

from deep.api.plugin.span import SpanProcessor, Span
from deep.api.resource import Resource
from deep.api.tracepoint.constants import STAGE, METHOD_CAPTURE, FIRE_COUNT, FIRE_PERIOD
from deep.api.tracepoint.trigger import LocationAction
from deep.config import ConfigService
from deep.processor.trigger_handler import TriggerHandler
from deep.push.push_service import PushService

logging.getLogger("deep").setLevel(logging.CRITICAL + 1)
ALWAYS = {FIRE_COUNT: "-1", FIRE_PERIOD: "0"}


class Config(ConfigService):
    @property
    def resource(self):
        return Resource.get_empty()


class RecordingPush(PushService):
    def __init__(self):
        super().__init__(None, None)
        self.pushed = []

    def push_snapshot(self, snapshot):
        self.pushed.append(snapshot)


class RecordedSpan(Span):
    def __init__(self, name):
        self._name = name
        self.opened_by = threading.get_ident()
        self.closed_by = []

    name = property(lambda self: self._name)
    trace_id = property(lambda self: "0" * 32)
    span_id = property(lambda self: "0" * 16)

    def add_attribute(self, key, value):
        pass

    def add_event(self, name, attributes=None):
        pass

    def close(self):
        self.closed_by.append(threading.get_ident())


class Spans(SpanProcessor):
    def __init__(self):
        super().__init__(config=None)
        self.spans = []

    def create_span(self, name, context_id, tracepoint_id):
        span = RecordedSpan(name)
        self.spans.append(span)
        return span

    def current_span(self):
        return None


def make():
    config = Config({})
    spans = Spans()
    config.plugins = [spans]
    push = RecordingPush()
    return config, spans, push, TriggerHandler(config, push)


def span_action(tp_id="tp-span"):
    return LocationAction(tp_id, None, dict(ALWAYS), LocationAction.ActionType.Span)


def capture_action(tp_id="tp-capture", stage=METHOD_CAPTURE):
    return LocationAction(tp_id, None, dict(ALWAYS, **{STAGE: stage}), LocationAction.ActionType.Snapshot)


def captured(snapshot):
    """The (expression, text of the value) pairs of the captured results of a snapshot."""
    return [(w.expression, snapshot.var_lookup[w.result.vid].value) for w in snapshot.watches if w.result]


def children(snapshot, vid):
    return [snapshot.var_lookup[c.vid].value for c in snapshot.var_lookup[vid].children]
