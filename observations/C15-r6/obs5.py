"""
Observation 5 (unmodified tree): the captured result of a method capture is looked up in the identity cache of the
snapshot that was collected at the call. A function that changes one of its (mutable) arguments and returns it - or
returns any object that was already collected at the call - gets a 'return' result that shows the state at the CALL,
not the value that was returned.
"""
import os
import sys

sys.path.insert(0, os.path.dirname(os.path.abspath(__file__)))
from obs_common import make, capture_action, captured, children  # noqa: E402
from deep.api.tracepoint.trigger import Location, Trigger, FunctionLocation  # noqa: E402

ME = os.path.basename(__file__)


def add_defaults(options):
    options.append("verbose")
    options.append("color")
    return options


def main():
    config, spans, push, handler = make()
    handler.new_config([Trigger(FunctionLocation(ME, "add_defaults", Location.Position.START),
                                [capture_action("capture")])])
    sys.settrace(handler.trace_call)
    try:
        returned = add_defaults(["fast"])
    finally:
        sys.settrace(None)

    problems = []
    if len(push.pushed) != 1:
        problems.append("expected one snapshot, got %d" % len(push.pushed))
    for snapshot in push.pushed:
        got = captured(snapshot)
        watch = [w for w in snapshot.watches if w.result][0]
        elements = children(snapshot, watch.result.vid)
        if got != [("return", "Size: %d" % len(returned))] or elements != returned:
            problems.append("add_defaults() returned %r, the captured result is %s with the elements %s"
                            % (returned, got, elements))
    if problems:
        print("DEFECT (unmodified tree):")
        for problem in problems:
            print(" -", problem)
        return 1
    print("not reproduced")
    return 0


if __name__ == "__main__":
    sys.exit(main())
