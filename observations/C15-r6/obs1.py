"""
Observation 1 (unmodified tree): an exception that is raised AND caught inside the function completes the function's
method span / method capture at the 'exception' trace event. The captured result is the caught exception although
the invocation returned normally (and the span is closed before the function has done the rest of its work).
"""
import contextlib
import os
import sys

sys.path.insert(0, os.path.dirname(os.path.abspath(__file__)))
from obs_common import make, span_action, capture_action, captured, children  # noqa: E402
from deep.api.tracepoint.trigger import Location, Trigger, FunctionLocation  # noqa: E402

ME = os.path.basename(__file__)
timeline = []


def parse(text):
    try:
        value = int(text)
    except ValueError:
        value = -1
    timeline.append("fallback applied")
    return value + 100


def lookup(table, key):
    with contextlib.suppress(KeyError):
        return table[key]
    return "default"


def main():
    config, spans, push, handler = make()
    handler.new_config([Trigger(FunctionLocation(ME, name, Location.Position.START),
                                [span_action("span-" + name), capture_action("capture-" + name)])
                        for name in ("parse", "lookup")])
    sys.settrace(handler.trace_call)
    try:
        results = [parse("x"), lookup({}, "k")]
    finally:
        sys.settrace(None)

    problems = []
    if results != [99, "default"]:
        problems.append("unexpected application results %s" % results)
    expected = {"capture-parse": [("return", "99")], "capture-lookup": [("return", "default")]}
    for snapshot in push.pushed:
        got = captured(snapshot)
        if got != expected[snapshot.tracepoint.id]:
            detail = [children(snapshot, w.result.vid) for w in snapshot.watches if w.result]
            problems.append("%s: the invocation returned %s, the captured result is %s %s"
                            % (snapshot.tracepoint.id, expected[snapshot.tracepoint.id], got, detail))
    if problems:
        print("DEFECT (unmodified tree):")
        for problem in problems:
            print(" -", problem)
        return 1
    print("not reproduced")
    return 0


if __name__ == "__main__":
    sys.exit(main())
