"""
Observation 6 (unmodified tree): generators (and coroutines). python sends a 'call' event for every resumption of a
generator and a 'return' event for every yield. A method capture on a generator function is completed at the first
yield, and reports the yielded value as the value the invocation 'returned'; a span tracepoint opens (and closes) one
span per resumption instead of one for the invocation.
"""
import os
import sys

sys.path.insert(0, os.path.dirname(os.path.abspath(__file__)))
from obs_common import make, span_action, capture_action, captured  # noqa: E402
from deep.api.tracepoint.trigger import Location, Trigger, FunctionLocation  # noqa: E402

ME = os.path.basename(__file__)


def batches(items):
    yield items[:2]
    yield items[2:]
    return "2 batches"


def consume():
    generator = batches([1, 2, 3])
    out = []
    while True:
        try:
            out.append(next(generator))
        except StopIteration as stop:
            return out, stop.value


def main():
    config, spans, push, handler = make()
    handler.new_config([Trigger(FunctionLocation(ME, "batches", Location.Position.START),
                                [span_action("span"), capture_action("capture")])])
    sys.settrace(handler.trace_call)
    try:
        out, value = consume()
    finally:
        sys.settrace(None)

    problems = []
    if (out, value) != ([[1, 2], [3]], "2 batches"):
        problems.append("the application did not run as expected")
    results = [captured(s) for s in push.pushed]
    if results != [[("return", "2 batches")]]:
        problems.append("one invocation of batches() that returned %r: the captured results are %s" % (value, results))
    if len(spans.spans) != 1:
        problems.append("one invocation of batches(): %d spans were opened (and closed %s times)"
                        % (len(spans.spans), [len(s.closed_by) for s in spans.spans]))
    if problems:
        print("DEFECT (unmodified tree):")
        for problem in problems:
            print(" -", problem)
        return 1
    print("not reproduced")
    return 0


if __name__ == "__main__":
    sys.exit(main())
