"""
Observation 2 (unmodified tree): an application thread that calls TriggerHandler.shutdown() (Deep.shutdown()) while it
is inside a function with a span tracepoint / method capture never has that span closed or that snapshot delivered:
shutdown() removes the trace function of the calling thread, and the pending callbacks stay in the (class level,
keyed by thread ident) ThreadLocal store. A later thread that is given the same ident - also after the agent has been
started again - inherits them: it starts its life with callbacks pending that it did not open.
"""
import os
import sys
import threading

sys.path.insert(0, os.path.dirname(os.path.abspath(__file__)))
from obs_common import make, span_action, capture_action  # noqa: E402
from deep.api.tracepoint.trigger import Location, Trigger, FunctionLocation  # noqa: E402

ME = os.path.basename(__file__)
handler_ref = []


def admin_stop():
    handler_ref[0].shutdown()
    return "stopped"


def later_work():
    return "worked"


def main():
    config, spans, push, handler = make()
    handler_ref.append(handler)
    triggers = [Trigger(FunctionLocation(ME, name, Location.Position.START),
                        [span_action("span-" + name), capture_action("capture-" + name)])
                for name in ("admin_stop", "later_work")]
    handler.new_config(triggers)
    handler.start()
    idents = []
    seen = []
    try:
        first = threading.Thread(target=lambda: (idents.append(threading.get_ident()), admin_stop()))
        first.start()
        first.join(30)

        # the agent is started again; new threads are traced again
        handler.start()
        handler.new_config(triggers)

        def later():
            idents.append(threading.get_ident())
            seen.append((handler._callbacks.is_set, len(handler._callbacks.value) if handler._callbacks.is_set else 0))
            later_work()
            seen.append((handler._callbacks.is_set, len(handler._callbacks.value) if handler._callbacks.is_set else 0))

        for _ in range(20):
            thread = threading.Thread(target=later)
            thread.start()
            thread.join(30)
            if idents[-1] == idents[0]:
                break
    finally:
        handler.shutdown()
        sys.settrace(None)

    problems = []
    stop_spans = [s for s in spans.spans if s.name == "admin_stop"]
    if [len(s.closed_by) for s in stop_spans] != [1]:
        problems.append("the span opened for admin_stop() was closed %s times"
                        % [len(s.closed_by) for s in stop_spans])
    if not [s for s in push.pushed if s.tracepoint.id == "capture-admin_stop"]:
        problems.append("the deferred snapshot of admin_stop() was never delivered")
    if idents[-1] == idents[0]:
        if seen[-2][0]:
            problems.append("a later thread with the same ident started with %d inherited pending callback(s), and "
                            "ended with %d" % (seen[-2][1], seen[-1][1]))
    else:
        print("(thread ident was not reused in 20 attempts, inheritance not shown)")
    if problems:
        print("DEFECT (unmodified tree):")
        for problem in problems:
            print(" -", problem)
        return 1
    print("not reproduced")
    return 0


if __name__ == "__main__":
    sys.exit(main())
