"""
Observation 4 (unmodified tree): a line capture on a line of a 'finally' block (or 'except' block that re-raises) that
runs while an exception unwinds the function is completed by the 'return' trace event python sends for the unwinding
frame (argument None). The captured result says the invocation returned None; the invocation raised.
"""
import os
import sys

sys.path.insert(0, os.path.dirname(os.path.abspath(__file__)))
from obs_common import make, capture_action, captured  # noqa: E402
from deep.api.tracepoint.constants import LINE_CAPTURE  # noqa: E402
from deep.api.tracepoint.trigger import Location, Trigger, LineLocation  # noqa: E402

ME = os.path.basename(__file__)
released = []


def transfer(amount):
    try:
        raise ValueError("insufficient funds: %d" % amount)
    finally:
        released.append(amount)  # TRACEPOINT (last line that runs in this invocation)


def tracepoint_line():
    with open(__file__) as source:
        for number, text in enumerate(source, start=1):
            if text.rstrip().endswith("# TRACEPOINT (last line that runs in this invocation)"):
                return number


def main():
    config, spans, push, handler = make()
    handler.new_config([Trigger(LineLocation(ME, tracepoint_line(), Location.Position.START),
                                [capture_action("capture-line", LINE_CAPTURE)])])
    raised = None
    sys.settrace(handler.trace_call)
    try:
        transfer(5)
    except ValueError as e:
        raised = e
    finally:
        sys.settrace(None)

    problems = []
    if raised is None or released != [5]:
        problems.append("the application did not run as expected")
    if len(push.pushed) != 1:
        problems.append("expected one snapshot, got %d" % len(push.pushed))
    for snapshot in push.pushed:
        got = captured(snapshot)
        if got and got[0][0] != "exception":
            problems.append("transfer() raised %r, the captured result of the line capture is %s" % (raised, got))
    if problems:
        print("DEFECT (unmodified tree):")
        for problem in problems:
            print(" -", problem)
        return 1
    print("not reproduced")
    return 0


if __name__ == "__main__":
    sys.exit(main())
