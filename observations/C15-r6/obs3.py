"""
Observation 3 (unmodified tree): recursion that reaches the interpreter's recursion limit (and is caught by the
application, a common pattern) costs the thread its trace function: python cannot call the trace function at the
limit, the RecursionError counts as a failure of the trace function and python uninstalls it for the thread. Every
span that is open at that moment (one per level, here) is never closed, the callbacks stay pending for ever (to be
inherited by a later thread with the same ident), and no tracepoint fires in that thread any more.
"""
import os
import sys
import threading

sys.path.insert(0, os.path.dirname(os.path.abspath(__file__)))
from obs_common import make, span_action  # noqa: E402
from deep.api.tracepoint.trigger import Location, Trigger, FunctionLocation  # noqa: E402

ME = os.path.basename(__file__)


def depth(n):
    return depth(n + 1) + 1


def safe_depth():
    try:
        return depth(0)
    except RecursionError:
        return -1


def afterwards():
    return "done"


def main():
    config, spans, push, handler = make()
    handler.new_config([Trigger(FunctionLocation(ME, name, Location.Position.START), [span_action("span-" + name)])
                        for name in ("depth", "afterwards")])
    state = {}

    def work():
        sys.settrace(handler.trace_call)
        state["result"] = safe_depth()
        state["tracer"] = sys.gettrace()
        afterwards()
        state["pending"] = len(handler._callbacks.value) if handler._callbacks.is_set else 0

    thread = threading.Thread(target=work)
    thread.start()
    thread.join(60)

    opened = [s for s in spans.spans if s.name == "depth"]
    never_closed = [s for s in opened if len(s.closed_by) == 0]
    problems = []
    if never_closed:
        problems.append("%d of the %d spans opened for depth() were never closed" % (len(never_closed), len(opened)))
    if state.get("pending"):
        problems.append("%d callbacks are still pending when the thread ends" % state["pending"])
    if state.get("tracer") is None:
        problems.append("the trace function of the thread is gone after the caught RecursionError")
    if not [s for s in spans.spans if s.name == "afterwards"]:
        problems.append("the span tracepoint on afterwards() did not fire in that thread any more")
    if problems:
        print("DEFECT (unmodified tree):")
        for problem in problems:
            print(" -", problem)
        return 1
    print("not reproduced")
    return 0


if __name__ == "__main__":
    sys.exit(main())
