"""
obs1 (unmodified tree): a metric/label expression that uses a LOCAL variable inside a generator expression or a lambda
is not evaluated "in the frame": it fails with NameError, so the metric is reported with the value 1 (and the label
with the text of the NameError) although the expression is numeric in the frame.

TriggerContext.evaluate_expression runs eval(expression, frame.f_globals, frame.f_locals).  Nested scopes of code
compiled by eval (generator expressions, lambdas) resolve free names in the globals only, never in the locals mapping.

Run: cd @WT@ && PYTHONPATH=src:tests /venv/bin/python @OUT@/obs1.py   (exit 1 = defect shown)
"""
import inspect
import logging
import os
import sys

from deep.api.plugin.metric import MetricProcessor
from deep.api.tracepoint.constants import SNAPSHOT, NO_COLLECT, FIRE_COUNT, FIRE_PERIOD
from deep.api.tracepoint.tracepoint_config import MetricDefinition, LabelExpression
from deep.api.tracepoint.trigger import build_trigger
from deep.config import ConfigService
from deep.processor.trigger_handler import TriggerHandler
from deep.push.push_service import PushService

logging.getLogger("deep").addHandler(logging.NullHandler())
logging.getLogger("deep").propagate = False


class Recorder(MetricProcessor):
    def __init__(self):
        super().__init__("recorder", None)
        self.calls = []

    def counter(self, name, labels, namespace, help_string, unit, value):
        self.calls.append(('counter', name, dict(labels), value))

    def gauge(self, name, labels, namespace, help_string, unit, value):
        self.calls.append(('gauge', name, dict(labels), value))

    def histogram(self, name, labels, namespace, help_string, unit, value):
        self.calls.append(('histogram', name, dict(labels), value))

    def summary(self, name, labels, namespace, help_string, unit, value):
        self.calls.append(('summary', name, dict(labels), value))


class NoPush(PushService):
    def __init__(self):
        super().__init__(None, None)

    def push_snapshot(self, snapshot):
        pass


def target(values, factor):
    limit = 1
    expected = sum(v * factor for v in values if v > limit)  # what the expression is worth in this frame
    return expected  # TRACEPOINT


def line_of(marker):
    lines, start = inspect.getsourcelines(target)
    for idx, text in enumerate(lines):
        if marker in text:
            return start + idx
    raise AssertionError(marker)


def main():
    config = ConfigService({})
    recorder = Recorder()
    config.plugins = [recorder]
    handler = TriggerHandler(config, NoPush())
    metrics = [
        MetricDefinition("weighted", "gauge", [], "sum(v * factor for v in values if v > limit)"),
        MetricDefinition("largest", "gauge", [], "max(values, key=lambda v: v * factor)"),
        MetricDefinition("plain", "gauge", [LabelExpression("big", expression="len(list(v for v in values if v > limit))")],
                         "sum(values) * factor"),
    ]
    args = {SNAPSHOT: NO_COLLECT, FIRE_COUNT: '-1', FIRE_PERIOD: '0'}
    handler.new_config([build_trigger("tp-1", os.path.basename(__file__), line_of("TRACEPOINT"), args, [], metrics)])
    sys.settrace(handler.trace_call)
    try:
        in_frame = target([1, 2, 3], 10)
    finally:
        sys.settrace(None)

    expected = [('gauge', 'weighted', {}, float(in_frame)), ('gauge', 'largest', {}, 3.0),
                ('gauge', 'plain', {'big': '2'}, 60.0)]
    if recorder.calls != expected:
        print("DEFECT: expressions that use locals in a generator expression / lambda are not evaluated in the frame")
        print("  reported: %r" % (recorder.calls,))
        print("  expected: %r" % (expected,))
        return 1
    print("OK (not reproduced)")
    return 0


if __name__ == '__main__':
    sys.exit(main())
