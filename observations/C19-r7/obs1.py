"""
Observation 1 (unmodified tree): IN_APP_EXCLUDE does not behave the same in code and in the environment.

From the environment (DEEP_IN_APP_EXCLUDE=/x) the interpreter prefix (sys.exec_prefix) is appended to the list, given
in code ({'IN_APP_EXCLUDE': '/x'} or ['/x']) the list replaces it. So with a virtualenv inside the application root
(or APP_ROOT='/') the same setting classifies a library frame differently, depending on where it was given.
"""
import os
import sys

from deep.config import ConfigService

lib_file = os.path.join(sys.exec_prefix, "lib", "python3", "site-packages", "lib", "mod.py")
app_root = os.path.dirname(sys.exec_prefix.rstrip("/")) or "/"   # the venv lives inside the app root

os.environ.pop("DEEP_IN_APP_EXCLUDE", None)
in_code = ConfigService({'APP_ROOT': app_root, 'IN_APP_EXCLUDE': '/x'}).is_app_frame(lib_file)

os.environ["DEEP_IN_APP_EXCLUDE"] = "/x"
try:
    from_env = ConfigService({'APP_ROOT': app_root}).is_app_frame(lib_file)
finally:
    del os.environ["DEEP_IN_APP_EXCLUDE"]

print("file:", lib_file, "APP_ROOT:", app_root)
print("IN_APP_EXCLUDE='/x' given in code      ->", in_code)
print("DEEP_IN_APP_EXCLUDE=/x in environment  ->", from_env)
if in_code != from_env:
    print("WRONG: the same IN_APP_EXCLUDE value classifies the frame differently in code and in the environment")
    sys.exit(1)
print("same")
sys.exit(0)
