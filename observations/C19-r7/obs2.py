"""
Observation 2 (unmodified tree): some keys do not resolve with the documented precedence, because ConfigService looks
the key up (a) on itself and (b) with hasattr() in the module deep.config, and both have names that are not settings.

(a) a value given in code under a name that ConfigService has itself (resource, plugins, tracepoints, is_app_frame,
    add_listener, ...) never wins - the attribute of the service is returned.
(b) a name that merely exists in the module deep.config (os, sys, ConfigService, config_service, tracepoint_config,
    __file__, ...) is neither 'absent' nor read from its DEEP_ variable: the module attribute is returned, and a
    callable one (ConfigService) is even called.
"""
import os
import sys
import types

from deep.config import ConfigService

problems = []

# (a)
cfg = ConfigService({'resource': 'from-code', 'plugins': 'from-code'})
if cfg.resource != 'from-code':
    problems.append("(a) {'resource': 'from-code'} given in code, cfg.resource is %r" % (cfg.resource,))
if cfg.plugins != 'from-code':
    problems.append("(a) {'plugins': 'from-code'} given in code, cfg.plugins is %r" % (cfg.plugins,))

# (b)
cfg = ConfigService({})
value = cfg.sys
if value is not None:
    problems.append("(b) unknown key 'sys' without DEEP_sys should be absent (None), is %r" % (value,))
os.environ["DEEP_os"] = "from-env"
try:
    value = cfg.os
finally:
    del os.environ["DEEP_os"]
if value != "from-env":
    problems.append("(b) unknown key 'os' with DEEP_os=from-env should be 'from-env', is %r" % (value,))
value = cfg.ConfigService
if value is not None:
    problems.append("(b) unknown key 'ConfigService' should be absent (None), is a new %s" % type(value).__name__)
value = cfg.config_service
if isinstance(value, types.ModuleType):
    problems.append("(b) unknown key 'config_service' should be absent (None), is %r" % (value,))

if problems:
    print("WRONG:")
    for p in problems:
        print("  " + p)
    sys.exit(1)
print("ok")
sys.exit(0)
