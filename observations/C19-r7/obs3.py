"""
Observation 3 (unmodified tree): NO_TRACE (the switch read by TriggerHandler.start, not listed in docs/config/config.md)
does not work the same from the environment: environment values are text and the handler tests the truth of the
value, so DEEP_NO_TRACE=False (or 0, or no) DISABLES tracing, while {'NO_TRACE': False} in code leaves it on.
"""
import os
import sys

from deep.config import ConfigService
from deep.processor.trigger_handler import TriggerHandler
from deep.push.push_service import PushService


def tracing_installed(custom):
    handler = TriggerHandler(ConfigService(custom), PushService(None, None))
    before = sys.gettrace()
    handler.start()
    try:
        return sys.gettrace() is not before
    finally:
        handler.shutdown()


os.environ.pop("DEEP_NO_TRACE", None)
in_code = tracing_installed({'NO_TRACE': False})
os.environ["DEEP_NO_TRACE"] = "False"
try:
    from_env = tracing_installed({})
finally:
    del os.environ["DEEP_NO_TRACE"]

print("{'NO_TRACE': False} in code -> trace function installed:", in_code)
print("DEEP_NO_TRACE=False in env  -> trace function installed:", from_env)
if in_code != from_env:
    print("WRONG: NO_TRACE=False keeps tracing on when given in code, and switches it off when given in the environment")
    sys.exit(1)
print("same")
sys.exit(0)
