"""
Observation 4 (unmodified tree): docs/config/config.md says APP_ROOT 'is calculated as the directory in which the file
that calls Deep.start is in'. deep.start() uses the PARENT of that directory (dirname(dirname(file))).
"""
import os
import sys

import deep
from deep.api import Deep

Deep.start = lambda self: None  # do not connect anywhere (as tests/unit_tests/test_deep.py does)
os.environ.pop("DEEP_APP_ROOT", None)
agent = deep.start({})
here = os.path.dirname(os.path.abspath(__file__))
print("file calling deep.start():", os.path.abspath(__file__))
print("documented APP_ROOT      :", here)
print("actual APP_ROOT          :", agent.config.APP_ROOT)
if agent.config.APP_ROOT != here:
    print("WRONG: APP_ROOT is not the directory of the file that calls start (it is %s)"
          % ("its parent" if agent.config.APP_ROOT == os.path.dirname(here) else "something else"))
    sys.exit(1)
print("as documented")
sys.exit(0)
