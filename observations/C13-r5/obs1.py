"""
obs1 (unmodified tree): the window arguments given to register_tracepoint are ignored.

deep.api.tracepoint.constants documents WINDOW_START ('window_start') and WINDOW_END ('window_end') as tracepoint
arguments ("The start/end of the time period this tracepoint can fire in"), LocationAction builds a TracepointWindow
from them and can_trigger() checks it. But build_trigger copies only a fixed set of keys into the config of the actions
(watches, frame_type, stack_type, fire_count, fire_period, log_msg, ...), never the window keys, so the window of every
action is (0, 0) = "no window" and a tracepoint registered with a window that has already ended, or that starts in the
far future, fires anyway.

Exits 1 (and says what is wrong) on the unmodified tree.
"""
import importlib.util
import os
import sys
import tempfile
import time

from deep.api.deep import Deep
from deep.api.resource import Resource
from deep.api.tracepoint.constants import FIRE_COUNT, FIRE_PERIOD, WINDOW_START, WINDOW_END
from deep.config import ConfigService

TARGET_SRC = """
def work(n):
    total = 0
    total += n          # line 4
    total += 2 * n      # line 5
    return total
"""


class RecordingPush:
    def __init__(self):
        self.pushed = []

    def push_snapshot(self, snapshot):
        self.pushed.append(snapshot)


def settle(agent):
    for _ in range(3):
        for future in list(agent.task_handler._pending.values()):
            try:
                future.result(10)
            except BaseException:
                pass


def main():
    tmp = tempfile.mkdtemp(prefix="obs1_")
    path = os.path.join(tmp, "obs1_target.py")
    with open(path, "w") as f:
        f.write(TARGET_SRC)
    problems = []
    try:
        spec = importlib.util.spec_from_file_location("obs1_target", path)
        target = importlib.util.module_from_spec(spec)
        spec.loader.exec_module(target)

        cfg = ConfigService({})
        cfg.resource = Resource.get_empty()
        agent = Deep(cfg)
        push = RecordingPush()
        agent.trigger_handler._push_service = push

        now_ns = time.time_ns()
        far_future = now_ns * 1000  # later than now in ns, ms or s
        cases = [
            ("window ended long ago (window_end=1)", 4, {WINDOW_END: 1}),
            ("window starts in the far future (window_start=%d)" % far_future, 5, {WINDOW_START: far_future}),
        ]
        for _, line, window in cases:
            args = {FIRE_COUNT: '-1', FIRE_PERIOD: '0'}
            args.update(window)
            agent.register_tracepoint("obs1_target.py", line, args)
        settle(agent)

        sys.settrace(agent.trigger_handler.trace_call)
        try:
            target.work(1)
        finally:
            sys.settrace(None)

        hit = sorted(s.tracepoint.line_no for s in push.pushed)
        for name, line, window in cases:
            if line in hit:
                problems.append("%s: registered with %s, fired anyway (line %d)" % (name, window, line))
        agent.task_handler.flush()
    finally:
        os.remove(path)
        os.rmdir(tmp)

    if problems:
        print("DEFECT: the window arguments of a registered tracepoint are not honoured")
        for p in problems:
            print(" -", p)
        return 1
    print("OK: tracepoints outside their window did not fire")
    return 0


if __name__ == '__main__':
    sys.exit(main())
