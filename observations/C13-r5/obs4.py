"""
obs4 (unmodified tree): a tracepoint registered with anything but the bare file name never becomes active.

register_tracepoint(path, line) documents path as "the source path". TriggerHandler.location_from_event reduces the
file of every trace event to os.path.basename(co_filename), and LineLocation/FunctionLocation.at_location compare that
with the registered path using ==. So a registration with the absolute path of the file (what frame.file_name of a
snapshot reports), or with a path relative to the application root (what short_path reports), is accepted, returns a
handle, and silently never fires. Only the bare name works (and that one fires in EVERY file of that name).

Exits 1 (and says what is wrong) on the unmodified tree.
"""
import importlib.util
import os
import sys
import tempfile

from deep.api.deep import Deep
from deep.api.resource import Resource
from deep.api.tracepoint.constants import FIRE_COUNT, FIRE_PERIOD
from deep.config import ConfigService

TARGET_SRC = """
def work(n):
    total = 0
    total += n          # line 4
    return total
"""


class RecordingPush:
    def __init__(self):
        self.pushed = []

    def push_snapshot(self, snapshot):
        self.pushed.append(snapshot)


def settle(agent):
    for _ in range(3):
        for future in list(agent.task_handler._pending.values()):
            try:
                future.result(10)
            except BaseException:
                pass


def hits_for(target, registered_path, app_root):
    cfg = ConfigService({'APP_ROOT': app_root})
    cfg.resource = Resource.get_empty()
    agent = Deep(cfg)
    push = RecordingPush()
    agent.trigger_handler._push_service = push
    agent.register_tracepoint(registered_path, 4, {FIRE_COUNT: '-1', FIRE_PERIOD: '0'})
    settle(agent)
    sys.settrace(agent.trigger_handler.trace_call)
    try:
        target.work(1)
    finally:
        sys.settrace(None)
    agent.task_handler.flush()
    return len(push.pushed)


def main():
    root = tempfile.mkdtemp(prefix="obs4_")
    pkg = os.path.join(root, "pkg")
    os.mkdir(pkg)
    path = os.path.join(pkg, "obs4_target.py")
    with open(path, "w") as f:
        f.write(TARGET_SRC)
    try:
        spec = importlib.util.spec_from_file_location("obs4_target", path)
        target = importlib.util.module_from_spec(spec)
        spec.loader.exec_module(target)

        results = [
            ("bare file name      'obs4_target.py'", hits_for(target, "obs4_target.py", root)),
            ("relative to app root 'pkg/obs4_target.py'", hits_for(target, "pkg/obs4_target.py", root)),
            ("absolute path       '%s'" % path, hits_for(target, path, root)),
        ]
    finally:
        os.remove(path)
        os.rmdir(pkg)
        os.rmdir(root)

    bad = []
    for name, hits in results:
        print("  registered with %-60s -> %d snapshot(s)" % (name, hits))
        if hits != 1:
            bad.append(name)
    if bad:
        print("DEFECT: the registration was accepted but never became active for: %s" % "; ".join(b.strip() for b in bad))
        return 1
    print("OK")
    return 0


if __name__ == '__main__':
    sys.exit(main())
