"""
obs3 (unmodified tree): two threads that unregister different handles at the same time can remove the wrong tracepoint.

TracepointConfigService.remove_custom looks up the position of the tracepoint and deletes by position:

    for idx, cfg in enumerate(self._custom):
        if cfg is config:
            del self._custom[idx]

add_custom/remove_custom take no lock (the _update_lock only serialises the listeners). If another thread removes an
EARLIER registration between the `if` and the `del`, the position is stale: the tracepoint after the intended one is
deleted, the intended one stays active, and since its id was already popped from _custom_ids its handle can never
remove it any more (unregister() is a silent no-op from then on).

The window is only two bytecode lines wide, so the interleaving is forced here: a trace hook on the thread that
unregisters B waits until that thread is about to execute the `del` line, then lets a second thread unregister A
completely, then lets the first thread continue.

Registrations (same file, lines 4, 5, 6): A, B, C. Thread 1: B.unregister(); thread 2: A.unregister().
Expected: only C is left. Exits 1 (and says what is wrong) on the unmodified tree.
"""
import inspect
import sys
import threading

from deep.api.deep import Deep
from deep.api.resource import Resource
from deep.config import ConfigService
from deep.config.tracepoint_config import TracepointConfigService


def settle(agent):
    for _ in range(3):
        for future in list(agent.task_handler._pending.values()):
            try:
                future.result(10)
            except BaseException:
                pass


def main():
    cfg = ConfigService({})
    cfg.resource = Resource.get_empty()
    agent = Deep(cfg)

    reg_a = agent.register_tracepoint("obs3_target.py", 4)
    reg_b = agent.register_tracepoint("obs3_target.py", 5)
    reg_c = agent.register_tracepoint("obs3_target.py", 6)  # noqa: F841 (never unregistered)
    settle(agent)

    # find the line of 'del self._custom[idx]' in remove_custom
    lines, start = inspect.getsourcelines(TracepointConfigService.remove_custom)
    del_line = next(start + i for i, text in enumerate(lines) if text.strip().startswith("del self._custom["))
    code = TracepointConfigService.remove_custom.__code__

    interleaved = []

    def hook(frame, event, arg):
        if frame.f_code is not code:
            return None

        def local(frame, event, arg):
            if event == 'line' and frame.f_lineno == del_line and not interleaved:
                interleaved.append(True)
                other = threading.Thread(target=reg_a.unregister)
                other.start()
                other.join(10)
            return local

        return local

    def thread_one():
        sys.settrace(hook)
        try:
            reg_b.unregister()
        finally:
            sys.settrace(None)

    t1 = threading.Thread(target=thread_one)
    t1.start()
    t1.join(20)
    settle(agent)

    left = sorted(t.line for t in agent.trigger_handler._tp_config)
    # try again: the handles are supposed to be idempotent
    reg_a.unregister()
    reg_b.unregister()
    settle(agent)
    left_after_retry = sorted(t.line for t in agent.trigger_handler._tp_config)
    agent.task_handler.flush()

    print("interleaving forced:", bool(interleaved))
    print("unregistered A (line 4) and B (line 5) concurrently, C (line 6) untouched")
    print("  lines still active in the trigger handler          :", left)
    print("  after calling unregister() on A and B once more    :", left_after_retry)
    if left != [6] or left_after_retry != [6]:
        print("DEFECT: the wrong tracepoint was removed (C is gone, B is still active and its handle cannot remove it)")
        return 1
    print("OK")
    return 0


if __name__ == '__main__':
    sys.exit(main())
