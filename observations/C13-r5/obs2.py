"""
obs2 (unmodified tree): a tracepoint registered while its function is already running never fires in that invocation
- but only if NO tracepoint at all (from the service or the API, anywhere) existed when the function was entered.

TriggerHandler.__trace_call returns None for every event while the config is empty ("return if we do not have any
tracepoints"). For the 'call' event that means python does not trace that frame at all, for the rest of its life. A
tracepoint that is registered later on a line of a function that is already executing (the main loop of a worker:
`while True: job = queue.get(); ...`) therefore never becomes active for that loop. If any unrelated tracepoint was
configured when the function was entered, the very same registration works. So whether a registration 'becomes
active' depends on unrelated history.

Run A: config empty when loop() is entered, tracepoint registered on the loop body during iteration 2 -> 0 snapshots
Run B: same, but an unrelated tracepoint ('somewhere_else.py':1) was registered before loop() was entered -> fires

Exits 1 (and says what is wrong) on the unmodified tree.
"""
import importlib.util
import os
import sys
import tempfile

from deep.api.deep import Deep
from deep.api.resource import Resource
from deep.api.tracepoint.constants import FIRE_COUNT, FIRE_PERIOD
from deep.config import ConfigService

TARGET_SRC = """
def loop(iterations, on_iteration):
    total = 0
    for i in range(iterations):
        on_iteration(i)
        total += i          # line 6
    return total
"""


class RecordingPush:
    def __init__(self):
        self.pushed = []

    def push_snapshot(self, snapshot):
        self.pushed.append(snapshot)


def settle(agent):
    for _ in range(3):
        for future in list(agent.task_handler._pending.values()):
            try:
                future.result(10)
            except BaseException:
                pass


def run(target, unrelated_first):
    cfg = ConfigService({})
    cfg.resource = Resource.get_empty()
    agent = Deep(cfg)
    push = RecordingPush()
    agent.trigger_handler._push_service = push

    if unrelated_first:
        agent.register_tracepoint("somewhere_else.py", 1)
        settle(agent)

    def on_iteration(i):
        if i == 2:
            agent.register_tracepoint("obs2_target.py", 6, {FIRE_COUNT: '-1', FIRE_PERIOD: '0'})
            settle(agent)

    sys.settrace(agent.trigger_handler.trace_call)
    try:
        target.loop(10, on_iteration)
    finally:
        sys.settrace(None)
    agent.task_handler.flush()
    return len(push.pushed)


def main():
    tmp = tempfile.mkdtemp(prefix="obs2_")
    path = os.path.join(tmp, "obs2_target.py")
    with open(path, "w") as f:
        f.write(TARGET_SRC)
    try:
        spec = importlib.util.spec_from_file_location("obs2_target", path)
        target = importlib.util.module_from_spec(spec)
        spec.loader.exec_module(target)

        empty_before = run(target, unrelated_first=False)
        unrelated_before = run(target, unrelated_first=True)
    finally:
        os.remove(path)
        os.rmdir(tmp)

    print("registered during iteration 2 of 10 (line executes 8 more times):")
    print("  config empty when loop() was entered        : %d snapshots" % empty_before)
    print("  unrelated tracepoint configured beforehand  : %d snapshots" % unrelated_before)
    if empty_before == 0 and unrelated_before > 0:
        print("DEFECT: the registration never became active in the running function, only because no other "
              "tracepoint existed when the function was entered")
        return 1
    if empty_before == 0 and unrelated_before == 0:
        print("(the registration does not become active in a running frame in either case)")
        return 1
    print("OK")
    return 0


if __name__ == '__main__':
    sys.exit(main())
