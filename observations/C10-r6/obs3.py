"""
obs3 (unmodified tree): a watch (or log field) that fails to evaluate does not yield an error result. The exception
object is recorded as the VALUE of the watch (good_result, a variable of type ZeroDivisionError), WatchResult.error
stays None. It cannot be told from a watch that evaluates, without failing, to an exception object.
"""
import os
import sys

sys.path.insert(0, os.path.dirname(os.path.abspath(__file__)))
from obs_common import run, line_of  # noqa: E402

from deep.api.tracepoint.constants import FIRE_COUNT, FIRE_PERIOD  # noqa: E402
from deep.api.tracepoint.trigger import build_trigger  # noqa: E402
from deep.push import convert_snapshot  # noqa: E402


def handle(n):
    last_error = ZeroDivisionError("division by zero")  # a value the program holds, nothing failed
    return n, last_error  # TRACED LINE


FILE = os.path.basename(__file__)
LINE = line_of(__file__, '# TRACED LINE')


def main():
    trigger = build_trigger("tp", FILE, LINE, {FIRE_COUNT: '1', FIRE_PERIOD: '0'}, ['n / 0', 'last_error'], [])
    pushed, _ = run([trigger], handle, [(1,)])
    snapshot = pushed[0]
    described = {}
    for watch in snapshot.watches:
        variable = snapshot.var_lookup[watch.result.vid] if watch.result is not None else None
        described[watch.expression] = (watch.error, variable.type if variable else None,
                                       variable.value if variable else None)
        print("watch %-12r error=%r result=%s" % (watch.expression, watch.error,
                                                  (variable.type, variable.value) if variable else None))
    proto = convert_snapshot(snapshot)
    for watch in proto.watches:
        print("on the wire: %-12r result is a %s" % (watch.expression, watch.WhichOneof('result')))
    if described['n / 0'][0] is None and described['n / 0'] == described['last_error']:
        print("WRONG on the unmodified tree: the failing watch 'n / 0' has no error result; it is reported exactly like "
              "the watch 'last_error' that evaluated to an exception object: %r" % (described['n / 0'],))
        return 1
    print("nothing wrong observed")
    return 0


if __name__ == '__main__':
    sys.exit(main())
