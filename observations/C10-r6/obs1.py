"""
obs1 (unmodified tree): a log template whose field python's string.Formatter cannot split or format loses the WHOLE
result of the hit - for a snapshot tracepoint with a log message the snapshot itself - and the hit still uses up the
fire budget. The expressions are ordinary expressions over the locals: 'a != b' (the '!' is taken for a conversion),
a numeric format spec such as '{price:.2f}' (the field is formatted as text), a lambda / dict display (the ':').
"""
import os
import sys

sys.path.insert(0, os.path.dirname(os.path.abspath(__file__)))
from obs_common import run, line_of  # noqa: E402

from deep.api.tracepoint.constants import FIRE_COUNT, FIRE_PERIOD, LOG_MSG, SNAPSHOT, NO_COLLECT  # noqa: E402
from deep.api.tracepoint.trigger import build_trigger  # noqa: E402


def pay(price, paid):
    change = paid - price
    return change  # TRACED LINE


FILE = os.path.basename(__file__)
LINE = line_of(__file__, '# TRACED LINE')


def main():
    wrong = []
    for template in ["price {price} paid {paid}",  # control
                     "differs: {price != paid}", "price {price:.2f}", "{(lambda: price)()}"]:
        # snapshot tracepoint with a log message, may fire once
        trigger = build_trigger("tp", FILE, LINE, {FIRE_COUNT: '1', FIRE_PERIOD: '0', LOG_MSG: template}, ['change'], [])
        pushed, logged = run([trigger], pay, [(3.5, 5.0), (1.0, 2.0)])
        print("%-32r snapshots=%d log lines=%s" % (template, len(pushed), [m for _, m in logged]))
        if len(pushed) != 1:
            wrong.append("snapshot tracepoint with log message %r: %d snapshots for 2 hits with fire_count=1 (the "
                         "snapshot of the first hit is lost with the log line, and the hit used up the fire count, so "
                         "the second hit is not collected either)" % (template, len(pushed)))
        # log only tracepoint
        trigger = build_trigger("tp", FILE, LINE, {FIRE_COUNT: '1', FIRE_PERIOD: '0', LOG_MSG: template,
                                                   SNAPSHOT: NO_COLLECT}, [], [])
        pushed, logged = run([trigger], pay, [(3.5, 5.0), (1.0, 2.0)])
        if len(logged) != 1:
            wrong.append("log tracepoint %r: %d log lines for 2 hits with fire_count=1" % (template, len(logged)))
    if wrong:
        print("WRONG on the unmodified tree:")
        for w in wrong:
            print(" - " + w)
        return 1
    print("nothing wrong observed")
    return 0


if __name__ == '__main__':
    sys.exit(main())
