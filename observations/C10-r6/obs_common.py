"""Shared helpers for the obsK.py scripts (unmodified tree)."""
import os
import sys

from deep.api.plugin import TracepointLogger
from deep.api.resource import Resource
from deep.config import ConfigService
from deep.processor.trigger_handler import TriggerHandler
from deep.push.push_service import PushService


class Push(PushService):
    def __init__(self):
        self.pushed = []

    def push_snapshot(self, snapshot):
        self.pushed.append(snapshot)


class Logger(TracepointLogger):
    def __init__(self):
        self.logged = []

    def log_tracepoint(self, log_msg, tp_id, ctx_id):
        self.logged.append((tp_id, log_msg))


class Config(ConfigService):
    def __init__(self, plugins=()):
        super().__init__({})
        self.logger = Logger()
        self.plugins = list(plugins)

    @property
    def tracepoint_logger(self):
        return self.logger

    @property
    def resource(self):
        return Resource.get_empty()


def line_of(path, marker):
    return [i for i, text in enumerate(open(path), 1) if text.rstrip().endswith(marker)][0]


def run(triggers, func, calls, plugins=()):
    config = Config(plugins)
    push = Push()
    handler = TriggerHandler(config, push)
    handler.new_config(triggers)
    sys.settrace(handler.trace_call)
    try:
        for args in calls:
            func(*args)
    finally:
        sys.settrace(None)
    return push.pushed, config.logger.logged
