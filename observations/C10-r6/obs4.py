"""
obs4 (unmodified tree, minor): the condition of a tracepoint is evaluated once per ACTION of the tracepoint (snapshot,
metric, span ...), not once per hit. With a condition that is not repeatable (it consumes something, samples, looks at
the clock) the actions of one hit disagree: the same hit is both 'met' (snapshot collected) and 'rejected' (no metric).
"""
import os
import sys

sys.path.insert(0, os.path.dirname(os.path.abspath(__file__)))
from obs_common import run, line_of  # noqa: E402

from deep.api.plugin.metric import MetricProcessor  # noqa: E402
from deep.api.tracepoint.constants import FIRE_COUNT, FIRE_PERIOD, CONDITION  # noqa: E402
from deep.api.tracepoint.tracepoint_config import MetricDefinition  # noqa: E402
from deep.api.tracepoint.trigger import build_trigger  # noqa: E402


class Recorder(MetricProcessor):
    def __init__(self):
        super().__init__("Recorder", None)
        self.seen = []

    def counter(self, name, labels, namespace, help_string, unit, value):
        self.seen.append((name, labels, value))

    gauge = histogram = summary = counter


EVALUATIONS = []


def take(queue):
    """True while there is something to take (consumes one item)."""
    EVALUATIONS.append(len(queue))
    return len(queue) > 0 and queue.pop() is not None


def serve(queue):
    return len(queue)  # TRACED LINE


FILE = os.path.basename(__file__)
LINE = line_of(__file__, '# TRACED LINE')


def main():
    recorder = Recorder()
    trigger = build_trigger("tp", FILE, LINE, {FIRE_COUNT: '-1', FIRE_PERIOD: '0', CONDITION: 'take(queue)'}, [],
                            [MetricDefinition("served", "COUNTER")])
    pushed, _ = run([trigger], serve, [([1],)], plugins=[recorder])
    print("one hit: condition evaluated %d times, snapshots=%d metrics=%d" % (len(EVALUATIONS), len(pushed),
                                                                              len(recorder.seen)))
    if len(EVALUATIONS) != 1 or len(pushed) != len(recorder.seen):
        print("WRONG on the unmodified tree: one hit of one tracepoint evaluated its condition %d times and collected "
              "%d snapshot(s) but %d metric(s)" % (len(EVALUATIONS), len(pushed), len(recorder.seen)))
        return 1
    print("nothing wrong observed")
    return 0


if __name__ == '__main__':
    sys.exit(main())
