"""
obs2 (unmodified tree): a metric (or metric label) expression whose VALUE cannot be converted, failing with a
BaseException that is not an Exception, costs the other metrics of the tracepoint: MetricActionContext._process_metric
only catches Exception around float(...) / str(...), unlike watches, log fields and conditions (BaseException).
"""
import os
import sys

sys.path.insert(0, os.path.dirname(os.path.abspath(__file__)))
from obs_common import run, line_of  # noqa: E402

from deep.api.plugin.metric import MetricProcessor  # noqa: E402
from deep.api.tracepoint.constants import FIRE_COUNT, FIRE_PERIOD, SNAPSHOT, NO_COLLECT  # noqa: E402
from deep.api.tracepoint.tracepoint_config import MetricDefinition, LabelExpression  # noqa: E402
from deep.api.tracepoint.trigger import build_trigger  # noqa: E402


class Quit(BaseException):
    """What a program uses to unwind (like SystemExit / KeyboardInterrupt / GeneratorExit): not an Exception."""


class Sensor:
    def __float__(self):
        raise Quit("sensor is gone")

    def __str__(self):
        raise Quit("sensor is gone")


class Recorder(MetricProcessor):
    def __init__(self):
        super().__init__("Recorder", None)
        self.seen = []

    def counter(self, name, labels, namespace, help_string, unit, value):
        self.seen.append((name, labels, value))

    gauge = histogram = summary = counter


def read(sensor, n):
    return n  # TRACED LINE


FILE = os.path.basename(__file__)
LINE = line_of(__file__, '# TRACED LINE')


def main():
    wrong = []
    for bad in [MetricDefinition("bad", "COUNTER", expression="sensor"),
                MetricDefinition("bad", "COUNTER", labels=[LabelExpression("who", expression="sensor")]),
                MetricDefinition("bad", "COUNTER", expression="1/0")]:  # control: an expression that itself fails
        recorder = Recorder()
        metrics = [bad, MetricDefinition("good", "COUNTER", expression="n")]
        trigger = build_trigger("tp", FILE, LINE, {FIRE_COUNT: '-1', FIRE_PERIOD: '0', SNAPSHOT: NO_COLLECT}, [],
                                metrics)
        run([trigger], read, [(Sensor(), 7)], plugins=[recorder])
        names = [name for name, _, _ in recorder.seen]
        print("bad metric %s/%s -> reported: %s" % (bad.expression, [label.expression for label in bad.labels],
                                                    recorder.seen))
        if 'good' not in names:
            wrong.append("metric 'good' (expression n) is not reported because the value of the metric before it "
                         "(%s) could not be converted" % (bad.expression or bad.labels[0].expression))
    if wrong:
        print("WRONG on the unmodified tree:")
        for w in wrong:
            print(" - " + w)
        return 1
    print("nothing wrong observed")
    return 0


if __name__ == '__main__':
    sys.exit(main())
