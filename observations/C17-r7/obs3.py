"""
Observation 3 (unmodified tree, borderline): a metric expression whose result is TEXT that looks like a number is
reported with that number, not with 1. ("... or 1 when there is no expression or it is not numeric": the result '7' is a
str, float('7') accepts it.) Exits 1 and prints what was reported.
"""
import inspect
import logging
import os
import sys

from deep.api.plugin.metric import MetricProcessor
from deep.api.tracepoint.constants import FIRE_COUNT, FIRE_PERIOD, SNAPSHOT, NO_COLLECT
from deep.api.tracepoint.tracepoint_config import MetricDefinition
from deep.api.tracepoint.trigger import build_trigger
from deep.config import ConfigService
from deep.processor.trigger_handler import TriggerHandler


class Recorder(MetricProcessor):
    def __init__(self):
        super().__init__("Recorder", None)
        self.calls = []

    def counter(self, name, labels, namespace, help_string, unit, value):
        self.calls.append(("counter", name, value))

    def gauge(self, name, labels, namespace, help_string, unit, value):
        self.calls.append(("gauge", name, value))

    def histogram(self, name, labels, namespace, help_string, unit, value):
        self.calls.append(("histogram", name, value))

    def summary(self, name, labels, namespace, help_string, unit, value):
        self.calls.append(("summary", name, value))


class NoPush:
    def push_snapshot(self, *args, **kwargs):
        pass


def work(user_input):
    done = user_input  # TRACEPOINT
    return done


def main():
    logging.getLogger("deep").addHandler(logging.NullHandler())
    lines, start = inspect.getsourcelines(work)
    line_no = start + [i for i, text in enumerate(lines) if 'TRACEPOINT' in text][0]
    recorder = Recorder()
    config = ConfigService({})
    config.plugins = [recorder]
    handler = TriggerHandler(config, NoPush())
    metrics = [MetricDefinition("obs3_text", "gauge", expression="user_input")]
    handler.new_config([build_trigger("tp-1", os.path.basename(__file__), line_no,
                                      {FIRE_COUNT: '-1', FIRE_PERIOD: '0', SNAPSHOT: NO_COLLECT}, [], metrics)])
    sys.settrace(handler.trace_call)
    try:
        work(" 7e2 ")
    finally:
        sys.settrace(None)
    if recorder.calls == [("gauge", "obs3_text", 1)]:
        print("OK: text is not numeric, 1 was reported")
        return 0
    print("BORDERLINE: expression result is the str ' 7e2 ', reported %s (1 expected when 'not numeric' means "
          "'not a number type')" % (recorder.calls,))
    return 1


if __name__ == '__main__':
    sys.exit(main())
