"""
Observation 2 (unmodified tree): the shipped PrometheusPlugin reports a gauge with Gauge.inc(value), not Gauge.set(value).
After two hits of a gauge metric whose expression is 5 the gauge reads 10, the reported value is not the value of the
expression. Exits 1 and prints what is wrong when the defect is present.
"""
import inspect
import logging
import os
import sys

from prometheus_client import REGISTRY

from deep.api.plugin.metric.prometheus_metrics import PrometheusPlugin
from deep.api.tracepoint.constants import FIRE_COUNT, FIRE_PERIOD, SNAPSHOT, NO_COLLECT
from deep.api.tracepoint.tracepoint_config import MetricDefinition
from deep.api.tracepoint.trigger import build_trigger
from deep.config import ConfigService
from deep.processor.trigger_handler import TriggerHandler


class NoPush:
    def push_snapshot(self, *args, **kwargs):
        pass


def work(depth):
    done = depth  # TRACEPOINT
    return done


def main():
    logging.getLogger("deep").addHandler(logging.NullHandler())
    lines, start = inspect.getsourcelines(work)
    line_no = start + [i for i, text in enumerate(lines) if 'TRACEPOINT' in text][0]

    config = ConfigService({})
    plugin = PrometheusPlugin(config)
    config.plugins = [plugin]
    handler = TriggerHandler(config, NoPush())
    metrics = [MetricDefinition("obs2_queue_depth", "gauge", expression="depth")]
    handler.new_config([build_trigger("tp-1", os.path.basename(__file__), line_no,
                                      {FIRE_COUNT: '-1', FIRE_PERIOD: '0', SNAPSHOT: NO_COLLECT}, [], metrics)])
    sys.settrace(handler.trace_call)
    try:
        work(5)
        work(5)
    finally:
        sys.settrace(None)

    value = REGISTRY.get_sample_value("deep_obs2_queue_depth")
    plugin.clear()
    if value == 5.0:
        print("OK: the gauge holds the value of the expression")
        return 0
    print("DEFECT: gauge metric with expression 'depth' hit twice with depth=5: deep_obs2_queue_depth=%s "
          "(expected 5.0, the plugin adds the value up)" % value)
    return 1


if __name__ == '__main__':
    sys.exit(main())
