"""
Observation 1 (unmodified tree): the shipped PrometheusPlugin keeps its collectors in a cache keyed by metric name and
type only. Two metrics with the same name in different namespaces end up in ONE collector (the namespace of the first),
the second namespace is never reported. Exits 1 and prints what is wrong when the defect is present.
"""
import inspect
import logging
import os
import sys

from prometheus_client import REGISTRY

from deep.api.plugin.metric.prometheus_metrics import PrometheusPlugin
from deep.api.tracepoint.constants import FIRE_COUNT, FIRE_PERIOD, SNAPSHOT, NO_COLLECT
from deep.api.tracepoint.tracepoint_config import MetricDefinition
from deep.api.tracepoint.trigger import build_trigger
from deep.config import ConfigService
from deep.processor.trigger_handler import TriggerHandler


class NoPush:
    def push_snapshot(self, *args, **kwargs):
        pass


def work(n):
    done = n  # TRACEPOINT
    return done


def main():
    logging.getLogger("deep").addHandler(logging.NullHandler())
    lines, start = inspect.getsourcelines(work)
    line_no = start + [i for i, text in enumerate(lines) if 'TRACEPOINT' in text][0]

    config = ConfigService({})
    plugin = PrometheusPlugin(config)
    config.plugins = [plugin]
    handler = TriggerHandler(config, NoPush())
    metrics = [MetricDefinition("obs1_requests", "counter", namespace="shop"),
               MetricDefinition("obs1_requests", "counter", namespace="billing")]
    handler.new_config([build_trigger("tp-1", os.path.basename(__file__), line_no,
                                      {FIRE_COUNT: '-1', FIRE_PERIOD: '0', SNAPSHOT: NO_COLLECT}, [], metrics)])
    sys.settrace(handler.trace_call)
    try:
        work(1)
    finally:
        sys.settrace(None)

    shop = REGISTRY.get_sample_value("shop_obs1_requests_total")
    billing = REGISTRY.get_sample_value("billing_obs1_requests_total")
    plugin.clear()
    if shop == 1.0 and billing == 1.0:
        print("OK: both namespaces were reported once")
        return 0
    print("DEFECT: one hit, counters shop/obs1_requests and billing/obs1_requests each defined once: "
          "shop_obs1_requests_total=%s (expected 1.0), billing_obs1_requests_total=%s (expected 1.0)" % (shop, billing))
    return 1


if __name__ == '__main__':
    sys.exit(main())
