"""
Observation 3 (unmodified tree): an agent that is shut down and started again never installs a config again, reports
the hash of a config it has not installed, and stops polling.

Deep.start()/Deep.shutdown() are written to be repeatable (both check/reset 'started'), TriggerHandler.start() resets
its shut-down flag, LongPoll.start() makes a new timer. But Deep.shutdown() flushes the TaskHandler, and
TaskHandler.flush() closes it for good. After the second start() every UPDATE answer makes
TracepointConfigService.update_new_config() store the new hash and config and then raise IllegalStateException
(a BaseException) from submit_task: the exception escapes LongPoll.__initial_poll (except Exception) and Deep.start(),
the listeners are never told, and if it happens on the timer thread it kills the thread (RepeatedTimer catches
Exception only).

A real gRPC server on an ephemeral loopback port is used. Exit 1 + explanation when the defect is there.
"""
import faulthandler
import sys
import time
from concurrent import futures

faulthandler.dump_traceback_later(90, exit=True)

import deepproto  # noqa: E402
import grpc  # noqa: E402

import deep  # noqa: E402
from it_tests.it_utils import PollServicer, SnapshotServicer  # noqa: E402
# noinspection PyUnresolvedReferences
from deepproto.proto.tracepoint.v1.tracepoint_pb2 import TracePointConfig  # noqa: E402


def wait_for(predicate, timeout):
    end = time.time() + timeout
    while time.time() < end:
        if predicate():
            return True
        time.sleep(0.01)
    return predicate()


MESSAGES = []


def main():
    server = grpc.server(futures.ThreadPoolExecutor(max_workers=4))
    polls = PollServicer()
    deepproto.proto.poll.v1.poll_pb2_grpc.add_PollConfigServicer_to_server(polls, server)
    deepproto.proto.tracepoint.v1.tracepoint_pb2_grpc.add_SnapshotServiceServicer_to_server(SnapshotServicer(), server)
    port = server.add_insecure_port('127.0.0.1:0')
    server.start()
    agent = None
    try:
        polls.tps.append(TracePointConfig(ID="tp-A", path="test_target.py", line_number=27))
        polls.hash = "hash-A"
        agent = deep.start({'SERVICE_URL': '127.0.0.1:%d' % port, 'SERVICE_SECURE': 'False', 'POLL_TIMER': 0.5})

        def installed_ids():
            return sorted(action.id for trigger in agent.trigger_handler._tp_config for action in trigger.actions)

        if not wait_for(lambda: installed_ids() == ["tp-A"], 5):
            MESSAGES.append("unexpected: first start did not install config A: %s" % installed_ids())
            return 2
        agent.shutdown()

        # the service's config changes while the agent is down, then the agent is started again
        polls.tps.append(TracePointConfig(ID="tp-B", path="test_target.py", line_number=29))
        polls.hash = "hash-B"
        problems = []
        try:
            agent.start()
        except BaseException as e:
            problems.append("Deep.start() raised %r" % e)
        converged = wait_for(lambda: installed_ids() == ["tp-A", "tp-B"], 3)
        if not converged:
            timer = agent.poll.timer
            problems.append("3 s after the restart the agent acts on %s, the service's config is ['tp-A', 'tp-B']; the "
                            "hash it would report is %r; started=%s; poll thread alive=%s"
                            % (installed_ids(), agent.config.tracepoints.current_hash, agent.started,
                               timer.thread.is_alive() if timer else None))
        if problems:
            MESSAGES.append("DEFECT: " + "; ".join(problems))
            return 1
        MESSAGES.append("OK: the restarted agent converged to %s" % installed_ids())
        return 0
    finally:
        if agent is not None:
            try:
                agent.started = True
                agent.shutdown()
            except BaseException:
                pass
        server.stop(1)


if __name__ == '__main__':
    code = main()
    # (printed last, the clean up above logs a traceback of its own on the unmodified tree)
    print("\n".join(MESSAGES))
    sys.exit(code)
