"""
Observation 2 (unmodified tree): method tracepoints that do not name the method (the agent is meant to find the method
from the line number: "if method_name is not set then we need to discover it from the frame") are installed but never
acted on, and all of them in one file collapse into one trigger.

 * convert_response() keys the triggers by location id; FunctionLocation.id is "<path>#<method name>", which is
   "<path>#None" for each of them, so two tracepoints in two different functions of one file become ONE trigger.
 * FunctionLocation.at_location() does not know the line of the tracepoint (the line given to build_trigger is dropped
   for method stages) and tests "start <= line >= end" with the line of the running frame, which is never true inside
   the function. No 'call' of either function triggers anything.

Exit 1 + explanation when the defect is there.
"""
import faulthandler
import importlib.util
import os
import sys
import tempfile

faulthandler.dump_traceback_later(60, exit=True)
sys.dont_write_bytecode = True

# noinspection PyUnresolvedReferences
from deepproto.proto.tracepoint.v1.tracepoint_pb2 import TracePointConfig  # noqa: E402

import deep.logging  # noqa: E402
from deep.api.resource import Resource  # noqa: E402
from deep.config import ConfigService  # noqa: E402
from deep.grpc import convert_response  # noqa: E402
from deep.processor.trigger_handler import TriggerHandler  # noqa: E402
from deep.push.push_service import PushService  # noqa: E402
from deep.task import TaskHandler  # noqa: E402

SOURCE = '''def first(value):
    result = value + 1
    return result


def second(value):
    result = value * 2
    return result
'''


class CapturePush(PushService):
    def __init__(self):
        super().__init__(None, None)
        self.pushed = []

    def push_snapshot(self, snapshot):
        self.pushed.append(snapshot)


def main():
    tmp_dir = tempfile.mkdtemp()
    path = os.path.join(tmp_dir, "obs2_target.py")
    with open(path, "w") as handle:
        handle.write(SOURCE)
    try:
        spec = importlib.util.spec_from_file_location("obs2_target", path)
        target = importlib.util.module_from_spec(spec)
        spec.loader.exec_module(target)

        config = ConfigService({})
        config.resource = Resource.create()
        deep.logging.init(config)
        tasks = TaskHandler()
        config.set_task_handler(tasks)
        push = CapturePush()
        handler = TriggerHandler(config, push)

        response = [
            TracePointConfig(ID="tp-first", path="obs2_target.py", line_number=2, args={'stage': 'method_start'}),
            TracePointConfig(ID="tp-second", path="obs2_target.py", line_number=7, args={'stage': 'method_start'}),
        ]
        triggers = convert_response(response)
        handler.new_config(triggers)

        handler.start()
        try:
            target.first(1)
            target.second(1)
        finally:
            handler.shutdown()
        tasks.flush()
        fired = sorted(snapshot.tracepoint.id for snapshot in push.pushed)
        problems = []
        if len(triggers) != 2:
            problems.append("the two tracepoints (line 2 in first(), line 7 in second()) were merged into %d trigger "
                            "with location id %r" % (len(triggers), triggers[0].id))
        if fired != ["tp-first", "tp-second"]:
            problems.append("both functions were called, tracepoints that fired: %s" % fired)
        if problems:
            print("DEFECT: " + "; ".join(problems))
            return 1
        print("OK: both method tracepoints fired")
        return 0
    finally:
        os.remove(path)
        os.rmdir(tmp_dir)


if __name__ == '__main__':
    sys.exit(main())
